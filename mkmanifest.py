#!/usr/bin/env python3
# Regenerates MANIFEST.json from the table below (kept in one place so the
# manifest is always valid and in step with the checks that exist).
import json, os
ROOT = os.path.dirname(os.path.abspath(__file__))
props = [json.loads(l) for l in open(os.path.join(ROOT, 'properties.jsonl'))]
ids = [p['id'] for p in props]

# id -> (category, technique, level text, level note, design ref)
CHECKS = {
 'C05': ('exploration',
   'offline mesh checker (weld + directed-edge balance + signed volume) over real renders of lattice-lookup fields; lattice learned by a recording pass',
   'Drives the real MarchingCubesUniform/Octree through render.ToTriangles with harness-prescribed corner values: all 256 single-cell configurations and all 3x4096 face-adjacent pairs (sign space enumerated exhaustively, magnitudes sampled incl. exact zeros and sub-epsilon), random dense fields and analytic CSG scenes. Each mesh is welded at 1e-6 cell and checked for directed-edge balance, identical-vertex triangles and positive signed volume.',
   'Sign-configuration space is exhaustive; corner magnitudes, scenes, resolutions are sampled. Lattice structure is learned, not assumed; an unrecognised lattice makes the run inconclusive.',
   'DESIGN.md 2/C05'),
 'C06': ('exploration',
   'offline checker over the recorded (point,value) event log of real renders: each vertex = linear zero crossing of a straddling lattice edge; analytic error bounds; two-sided mesh-surface distance sampling',
   'Renders analytic shapes with both marching-cubes renderers through a recording SDF wrapper and checks every output vertex against the log (pins value/coordinate pairing, batch offsetting, cell arithmetic without knowing how they are coded), plus |f(v)| bounds (plane exact, sphere h^2/(8(R-h)), exact fields h), mesh<->surface distances within one cell diagonal, sampled-box containment, normal/gradient agreement and the sphere volume bound; measured convergence ratio reported.',
   'Explored resolutions 6..40 quick / 6..150 thorough; bounds are analytic, sampling of surface/mesh points is PRNG-driven.',
   'DESIGN.md 2/C06'),
 'C08': ('exploration',
   'offline contour checker (endpoint welding, degree parity, event-log zero-crossing match) over real marching-squares renders collected through a caller-owned Line2Buffer channel',
   'All 16 single-cell configurations and all 2x64 edge-adjacent pairs (exhaustive in signs, sampled magnitudes incl. zeros / sub-epsilon) through both 2D renderers via lattice-lookup fields, random dense fields, and analytic circles/boxes with endpoint-accuracy, straight-edge exactness and perimeter bounds; completeness converse on the learned lattice (every sign-changing cell owns a segment; parts of several pieces with empty sample lines between them); renderer values reused for other parts and resolutions.',
   'Sign space exhaustive, magnitudes and shapes sampled; degree exactly 2 demanded only for generic corner values (even degree always).',
   'DESIGN.md 2/C08'),
 'C16': ('exploration',
   'runtime differential monitor: pruned Evaluate vs EvaluateSlow with operand-call counting wrappers; clamp/farthest-corner oracle for MinMaxDist2',
   'Executes the real Box2/Box3.MinMaxDist2, Interval.Overlap and (*UnionSDF2).Evaluate on PRNG-generated boxes, points stratified over all 9/27 position classes (with class boundaries) and unions of 2-12 exact operands under 5 blend kinds, comparing each call with an independent oracle. Held-on-what-was-explored, not a proof.',
   'Oracles: clamp-based nearest / per-axis farthest squared distance; max(a0,b0)<=min(a1,b1); EvaluateSlow (public reference); Multi2D / LineOf2D of off-centre objects inside unions. Random union operands are exact-distance shapes with material in their boxes (nil operands interleaved); operands that may be empty or that underestimate distances are two pinned known findings (KNOWN-FINDING lines), because no box pruning can be exact for them.',
   'DESIGN.md 2/C16'),
}

CHECKS['C07'] = ('exploration',
   'metamorphic runtime oracle render(f) vs render(2^-k f) compared as multisets + independent finest-cell sweep (every generic sign-changing cell must own output); evaluation counts via counting wrappers',
   'Real MarchingCubesOctree / MarchingSquaresQuadtree renders of 1-Lipschitz fields with a prescribed bounding box; features are placed relative to the learned tree (sphere tangent +-delta to a coarse cube face, vertex on a coarse cube corner, small feature in a coarse cube corner, thin plates, far-apart features). Scaling by 2^-k leaves signs and interpolation ratios bit-identical but disables all pruning, so both outputs must be identical multisets; an independent sweep over all finest cells catches losses common to both renders (e.g. a dropped child).',
   'Depths 2..7 quick / 2..8 thorough; cases where a value crosses the absolute 1e-12 snap epsilon under scaling are counted and skipped for oracle 1 only. Also: corner clips of 1e-9..1e-2 of a half diagonal, fields undefined (NaN) at finest cube centres, renderer reuse and aborted (panicked, recovered) renders in the history, high-resolution rods / bars (255..2100 octree cells, 33000+ quadtree cells) judged by closure + accuracy + coverage, the latter also in a GOARCH=386 build of the harness (word size); weak fields on deep trees (f vs 2^-k f at 4000..33000 octree cells with features of a few cells next to every box corner; a 4096x4096 quadtree lattice under a field that lets no square be skipped).',
   'DESIGN.md 2/C07')
CHECKS['C15'] = ('exploration',
   'read-back differential monitor: files written by To3MF/ToDXF/ToSVG/SaveDXF/SaveSVG (scripted renderers for the streaming paths) decoded with independent readers (go3mf, yofu/dxf + raw group-code scan, encoding/xml) and compared with an exact rational rounding oracle',
   'Writes PRNG-generated triangle / segment lists (empty, duplicates, shared vertices, negative, tiny, large, colliding-after-rounding, pinned witnesses) through every batch and streaming export path and demands that the decoded files contain exactly the input geometry at the format precision (3MF: float32 then 4 decimals, exact float32 dedup in first-appearance order; DXF: layer Lines, order, %.16f; SVG: origin shift, Y flip, 2 decimals, canvas = extent).',
   'Readers are trusted to report file contents (DXF additionally cross-checked by a raw scan). NaN/Inf/float32-overflow inputs are outside the domain.',
   'DESIGN.md 2/C15')
CHECKS['C17'] = ('exploration',
   'runtime comparison of Polygon.Vertices() / Bezier.Polygon().Vertices() with independently constructed fillet, chamfer, arc, relative/polar and de Casteljau geometry',
   'Generates corner geometries (1..179 degrees, both turning directions, fit / no-fit by either edge), radii, facet counts, arcs (chords, radii, signs), relative/polar chains, N-gons and Bezier control polygons of degree 1..4 with handles, closed/open, and checks every produced vertex against an independent construction (tangent points, circle membership, equal angular spacing, on-curve with increasing parameter, exact end points). Look histories: every outline is rebuilt with Vertices() called while it is being built (after every vertex / after a PRNG-chosen subset) and must finish as the same outline.',
   'Judged only where fit/no-fit is clear by a 2% margin and adjacent fillets do not compete for the same edge; angles below 1 or above 179 degrees are skipped (acos conditioning).',
   'DESIGN.md 2/C17')
CHECKS['C18'] = ('exploration',
   'exhaustive table comparison against an independent designation table + runtime symmetry / mating monitors over sampled points of real Screw3D, obj.Bolt, obj.Nut shapes',
   'Every thread database entry is compared with a table typed from the designations and ISO 261 / ASME B1.1 / B1.20.1; ToMillimetre laws checked on every entry; helical invariance, z-periodicity and a not-invariant-under-opposite-hand guard for all profiles x starts +-1..4; bolt/nut non-intersection for every entry x 16 tolerance pairs on points concentrated on flanks, crests and roots plus a fifth spread over the whole cylinder with extra weight next to the axis; the database is re-read after all objects were built.',
   'Table is exhaustive over the names the harness knows or can probe (122k candidate spellings); points of space are sampled; tapered pairs checked at the aligned position and towards the thin end; one pinned known finding (tapered nuts keep a cone of material on their axis), overlaps inside that cone are reported under its key.',
   'DESIGN.md 2/C18')


CHECKS['C01'] = ('exploration',
   'runtime probing of BoundingBox() vs Evaluate() on constructed shapes: face shell, moat, interior rays and a directed local search for negative values outside the box',
   'Builds every catalogued constructor of sdf/ and obj/ with PRNG-drawn in-domain parameters and random expression trees over all combinators, then searches the outside of each reported box for material (thin shell on faces/edges/corners, moat to 3x, rays from interior material, shrinking-Gaussian descent constrained outside the box). Finite/ordered boxes are asserted on every shape. Also: unions built from caller-owned slices that are reused afterwards, and machined parts (a part less a non-convex cutter whose box spans it, leaving a pin standing).',
   'Points of space are sampled (6k quick / 40k thorough probes per shape); blended combinators are outside the enumerated domain of C01; Offset/Shell only over operands whose value bounds the box distance.',
   'DESIGN.md 2/C01')
CHECKS['C02'] = ('exploration',
   'reference-interpreter differential monitor: real composed shapes vs an independent evaluation of the same expression tree (own matrix inverse, folds, clamps) calling real code only on leaves; law monitors for blends (fold of the installed function over operand values, nested / late / wide unions), argument-aliasing histories (caller-owned slices reused after construction), construction-order equivalence (blend installed before vs after wrapping), cache histories, voxel lattices and a probe-leaf check of the slicing frame',
   'Random trees over every combinator are evaluated at hostile points (symmetry planes, sector boundaries +-delta, rotation axis, far field) and compared with the reference semantics; blend laws (<= min, symmetric, PolyMin in [min-k/4, min], PolyMax mirror) on the functions and on root-blended real shapes; cache wrappers under query histories with repeats; voxel wrappers at lattice corners and inside cells; Slice2D frame is an orthonormal right-handed frame of the plane fixing a.',
   'Depth <= 3 quick / <= 5 thorough; tolerance 1e-9*(size+|p|)+1e-11*|value|; twist direction taken as implemented (sign flips are still detected).',
   'DESIGN.md 2/C02')
CHECKS['C03'] = ('exploration',
   'runtime comparison of Evaluate() with independent closed-form / brute-force Euclidean distance oracles; pairwise Lipschitz and in-ball sign monitors on 1-Lipschitz expression trees',
   'Every exact primitive over hostile parameter vectors (needle/plate sizes, rounding 0 / tiny / admissible maximum, sharp cone tips), optionally under rigid transform, uniform scale, outward offset or full revolution, is compared with its Euclidean distance at points stratified over branch regions; 1-Lipschitz trees (incl. PolyMin/PolyMax, rotate-copy over symmetric operands) are probed with close/medium/far pairs and with points inside the ball of radius |f(p)|.',
   'Known finding (pinned, KNOWN-FINDING line): rotate-copy of an operand that is not mirror-symmetric about the sector axis is discontinuous; the random workload keeps rotate-copy operands symmetric.',
   'DESIGN.md 2/C03')
CHECKS['C12'] = ('fault_enumeration',
   'OS-level fault injection in child processes (RLIMIT_FSIZE at enumerated byte offsets, /dev/full, create failures) with the Go runtime deadlock detector as logical hang oracle; goroutine census (pprof goroutine profile filtered on sdfx frames) at quiescence after each of K renders',
   'Each ToSTL/To3MF/ToDXF/ToSVG call runs on the main goroutine of a child with no timers; if the writer has gone and the renderer blocks on the channel the runtime reports "all goroutines are asleep - deadlock!", which (or a dump with the caller in chan send) is the violation; returned calls print a marker. Fault points: create (7 kinds incl. dangling symlink, symlink loop, path below a regular file, over-long name), /dev/full, size limits at header, first flush, every n-th flush (thorough: all multiples of 4096 +-1, every 7th byte below 400, 60 PRNG offsets), final flush/seek/rewrite. Census: sdfx goroutines after k=1..K renders must not grow after warm-up.',
   'K=30 quick / 200 thorough renders per sink/renderer; a call that spins is ended by RLIMIT_CPU (40 s) and judged on the CPU it consumed; also scripted multi-part renders (Write, Close, Write ...), non-finite geometry, a child pinned to a single CPU (NumCPU() == 1), GOMAXPROCS changing between the renders of a census, an STL render into a FIFO whose reader (another process) pauses for 2 s mid-stream, and successive renders to one file named through unclean paths (dir/./f, dir//f, dir/sub/../f); a wall-clock watchdog expiry is inconclusive, never a violation.',
   'DESIGN.md 2/C12')


CHECKS['C10'] = ('exploration',
   'Go race detector (report blocks parsed and de-duplicated by racing sdfx functions) over a concurrent Evaluate hammer and parallel renders in race-instrumented child processes, plus bitwise comparison of concurrent values with a sequential baseline',
   'Every catalogued shape and random expression trees (with Cache2D wrappers) are evaluated by NumCPU goroutines in different PRNG orders with repeats, then rendered with NewMarchingCubesUniform; each child announces the shape before it runs so that a fatal runtime error (concurrent map writes) is attributable; overlap is measured (in-flight counter). Long-lived and nested caches, overlapping renders of one shape, every blend function, and unions of non-distance operands behind gate operands that hold each caller until more callers than CPUs are inside the same union at once.',
   'The race detector only reports races on accesses that executed in the schedules observed (3 quick / 12 thorough repetitions per shape).',
   'DESIGN.md 2/C10')
CHECKS['C11'] = ('exploration',
   'exactly-once / order monitor over unambiguous histories: uniquely numbered items written by scripted multi-producer renderers are read back from every sink (slice, caller-owned channel, STL count+records, go3mf, dxf reader, SVG XML); race detector underneath',
   'Scripted Render3/Render2 implementations drive ToTriangles/ToSTL/To3MF/ToDXF/ToSVG and the bare buffers with counts around the flush threshold, batch partitions incl. empty and straddling batches, 1..8 producer goroutines with PRNG yields and slow/fast consumers; each id must be delivered exactly once (sequence preserved for one producer) and file count fields must agree. Distinct interleaving fingerprints (producer sequence at the sink) are counted. The scripted renderers overwrite their batch slice as soon as Write returns (a renderer reusing its scratch slice).',
   'Ids are float32-exact so the history is unambiguous; multiset equality is what the statement demands for several producers (batch contiguity is not demanded).',
   'DESIGN.md 2/C11')


CHECKS['C09'] = ('exploration',
   'run-vs-run digest comparison across child processes with varied GOMAXPROCS, perturbing Evaluate wrappers (Gosched/spin/sleep/starve), render histories and simultaneous renders; interleaving fingerprints of the observed evaluation order; Go race detector underneath',
   'Each (model, renderer, cells, sink) is executed in many race-instrumented children under GOMAXPROCS 1..16, five perturbation policies injected on the harness side of the SDF interface, preceding histories of 0..6 renders and 2..6 simultaneous renders sharing the evaluation pool; triangle/segment sequences, STL/DXF/SVG bytes and decoded 3MF content must have one digest per spec. Race reports inside render/ or the buffer code fail the check. Includes a model whose surface grazes lattice nodes (slivers that collapse in float32) with the whole 3MF package digested, and the same render in children restricted to 1, 3 and 5 CPUs (re-executed, so NumCPU differs).',
   'Models are constructed once per process in a fixed order before any render (text/Bezier construction draws from a process-wide seeded source; that is construction, not rendering). Schedule coverage is reported as distinct observed evaluation orders, not as a fraction of the schedule space.',
   'DESIGN.md 2/C09')
CHECKS['C13'] = ('exploration',
   'byte-level differential monitor: files written by SaveSTL / ToSTL (scripted renderer) parsed with an independent little-endian decoder and compared with an independent encoder; LoadSTL round trip compared bitwise; harness-written ASCII files loaded back',
   'Triangle lists of length 0..5000 (20000 thorough, plus 65535/65536/65537/200000) with coordinates across the float32 range (integers, negatives, non-representable values, subnormals, +-0) are saved, streamed and loaded; length 84+50n, count field, vertex order and winding, zero attribute, right-hand unit normal (1e-6), bit-exact float32 round trip, streaming bytes == batch bytes, well-formed ASCII files in varied layouts load to what they list; files reached through symbolic links, with the temp directory on another file system or missing.',
   'Normals are judged for non-degenerate triangles only; header bytes 0..79 unconstrained; NaN/Inf/float32 overflow outside the domain.',
   'DESIGN.md 2/C13')
CHECKS['C14'] = ('exploration',
   'robustness monitor in child processes: structured and mutation-based hostile STL inputs fed to render.LoadSTL and obj.ImportSTL under recover(), with per-input TotalAlloc accounting and CPU-time (not wall-clock) hang detection; each input is announced before it is loaded so a process death is attributable and re-run alone',
   'About 20k (quick) / 2M (thorough) generated files: truncated / over-long / count-mismatched binaries, count 0xFFFFFFFF, garbage floats, ASCII with 0,1,2,4,5 vertices per facet, malformed numbers, 70 kB and 1 MB lines, CR/LF/NUL/BOM, files shorter than 84 bytes, 35000-line ASCII files with one malformed number, gzip / zip / xz / zstd magics with honest, lying and truncated length fields and highly compressible payloads, UTF-8/16/32 byte order marks with complete, truncated and ill-formed text, bit/byte flips, splices and truncations of the three shipped meshes. Outcome must be error or mesh; allocation <= 1 MiB + 400*size; CPU per input bounded.',
   'All byte strings are sampled, not exhausted; go test -fuzz is not wired in (structured + mutation generators hit every seeded mutant); a goroutine deadlock is decided logically (no CPU for 2 s with every goroutine parked, repeated alone in a fresh child); a wall-clock watchdog expiry alone stays inconclusive.',
   'DESIGN.md 2/C14')


CHECKS['C19'] = ('exploration',
   'offline mesh checker (weld + directed-edge balance + signed volume + vertex-to-surface distance + box containment + run-vs-run identity) over triangles received on the channel passed to DualContouringV1/V2.Render',
   'Exact shapes wrapped with a bounding box enlarged by 10-30% (cubic and elongated sampled volumes) are rendered by both dual-contouring renderers without simplification (V1 LockVertices on; V2 defaults with clamping) at resolutions 8..28 quick / 8..56 thorough, in units from 1e-5 to 1e5, up to 1e5 sizes from the origin, also squashed / stretched (non-distance) fields, boxes exactly 2x / 4x the part, rods at 1100 / 1300 cells and renderer-reuse histories; each mesh must be closed after welding, enclose positive volume, keep every vertex within one cell diagonal of the surface and inside the sampled box, and be identical on a second run.',
   'Volume accuracy is reported, only its sign is judged (the statement asks for positive volume); warnings the renderers log are discarded; DualContouringV2 in small units (parts of a few thousandths) is judged on closure, orientation, box and determinism only (pinned known finding: vertex drift).',
   'DESIGN.md 2/C19')


CHECKS['C04'] = ('exploration',
   'three-way differential monitor: Polygon2D (quadtree) vs Mesh2DSlow vs an exact-arithmetic crossing-number oracle (float filter + big.Rat) with brute-force segment distance, at query points aimed at the measure-zero sets',
   'Simple polygons (convex, star-shaped, rectilinear staircases with collinear/horizontal/vertical runs, slivers, many-vertex, integer/dyadic/decimal/irrational grids, far offsets, both orientations) are queried on every vertex level, on every quadtree split line and box corner (MeshSDF2.Boxes()), on the bounding box, at vertices +-1 ulp, far outside and uniformly; fast, slow and oracle must agree in sign (away from the boundary) and in magnitude to 1e-9*scale. Sizes from 2e-3 (fine detail) to 1.4e6 with |coordinate| <= 2^22, junctions listed twice with a rounding difference. Pinned witnesses of the six repaired defect classes stay in the workload; one pinned known finding (coordinates beyond 2^23).',
   'Polygons are simple by construction (verified exactly on a subset); edges shorter than 1e-6*size (other than a junction listed twice) are outside the generated domain; polygons smaller than 0.14 are compared with an extra absolute 1e-9 (the snap tolerance of the library).',
   'DESIGN.md 2/C04')
CHECKS['C20'] = ('exploration',
   'runtime oracle monitor: Delaunay2d / Delaunay2dSlow outputs checked with exact in-circle and orientation predicates, an independent convex hull (count 2n-2-h, area) and the harness own exact Delaunay triangulation; TriangleISet.Equals exercised on permuted / rotated copies incl. an exhaustive small-subset sweep',
   'Point sets n=3..400 (1000 thorough) - uniform, clustered, jittered grids, near-collinear hull chains, nearly cocircular rings, close pairs, scales 1e-3..1e6, offsets up to 10x extent (uniform and close-pair sets also 1e3..1e6 extents away) - are judged only when their true triangulation is robustly unique (margins measured with exact arithmetic, skipped sets counted); Equals must be true for every permutation/rotation of a set and false for really different sets.',
   'Known findings (pinned, KNOWN-FINDING lines): hull triangles with circumradius > ~4096 x extent are lost (super triangle), absolute 1e-12 epsilon breaks sets with circumradii below ~1e-3; the random workload keeps explicit margins from both classes.',
   'DESIGN.md 2/C20')

NOT_YET = 'monitor not built yet in this round (planned in DESIGN.md section 2); not claimed until its check exists'
NA = {}

checks = []
for i in ids:
    if i in CHECKS:
        cat, tech, text, note, ref = CHECKS[i]
        checks.append({
            'property_id': i,
            'quick_cmd': './run.sh %s quick' % i,
            'thorough_cmd': './run.sh %s thorough' % i,
            'evidence_file': '/verif/evidence/%s.json' % i,
            'replay_cmd_template': './run.sh %s replay {path}' % i,
            'engine': 'vcheck',
            'level_claimed': {'category': cat, 'text': text, 'design_ref': ref},
            'level_note': note,
            'technique': tech,
        })
na = [{'property_id': i, 'reason': NA.get(i, NOT_YET)} for i in ids if i not in CHECKS]
m = {
 'version': 1,
 'setup_cmd': './run.sh setup',
 'hooks': {
   'guard': 'verif',
   'enable': 'go build -tags verif (harness files carry //go:build verif; /repo itself needs no hooks: all observation is at the public boundary)',
   'baseline_off_cmd': 'cd /repo && GOFLAGS=-mod=mod GOPROXY=off GOSUMDB=off GOTOOLCHAIN=local go test -vet=off -count=1 -json ./sdf/... ./render/... ./vec/v3/...',
   'source_commits': [],
   'add_only': True,
 },
 'engines': [{'name': 'vcheck', 'path': '/verif/harness/cmd/vcheck', 'serves_properties': sorted(CHECKS),
              'kind_free_text': 'Go runtime monitors: recording/probe SDF wrappers, lattice-lookup fields, scripted renderers, child processes with OS fault injection, Go race detector, porcupine history checker'}],
 'checks': checks,
 'not_applicable': na,
 'notes': 'Every check rebuilds harness/cmd/vcheck against /repo (go.mod replace) on each call. Exit 0 held / 1 VIOLATION / 2 INCONCLUSIVE. known_findings.json lists open findings and fix: commits.',
}
json.dump(m, open(os.path.join(ROOT, 'MANIFEST.json'), 'w'), indent=1)
print('claimed', len(checks), 'not claimed', len(na))
