#!/usr/bin/env python3
# Regenerates MANIFEST.json from the table below (kept in one place so the
# manifest is always valid and in step with the checks that exist).
import json, os
ROOT = os.path.dirname(os.path.abspath(__file__))
props = [json.loads(l) for l in open(os.path.join(ROOT, 'properties.jsonl'))]
ids = [p['id'] for p in props]

# id -> (category, technique, level text, level note, design ref)
CHECKS = {
 'C05': ('exploration',
   'offline mesh checker (weld + directed-edge balance + signed volume) over real renders of lattice-lookup fields; lattice learned by a recording pass',
   'Drives the real MarchingCubesUniform/Octree through render.ToTriangles with harness-prescribed corner values: all 256 single-cell configurations and all 3x4096 face-adjacent pairs (sign space enumerated exhaustively, magnitudes sampled incl. exact zeros and sub-epsilon), random dense fields and analytic CSG scenes. Each mesh is welded at 1e-6 cell and checked for directed-edge balance, identical-vertex triangles and positive signed volume.',
   'Sign-configuration space is exhaustive; corner magnitudes, scenes, resolutions are sampled. Lattice structure is learned, not assumed; an unrecognised lattice makes the run inconclusive.',
   'DESIGN.md 2/C05'),
 'C06': ('exploration',
   'offline checker over the recorded (point,value) event log of real renders: each vertex = linear zero crossing of a straddling lattice edge; analytic error bounds; two-sided mesh-surface distance sampling',
   'Renders analytic shapes with both marching-cubes renderers through a recording SDF wrapper and checks every output vertex against the log (pins value/coordinate pairing, batch offsetting, cell arithmetic without knowing how they are coded), plus |f(v)| bounds (plane exact, sphere h^2/(8(R-h)), exact fields h), mesh<->surface distances within one cell diagonal, sampled-box containment, normal/gradient agreement and the sphere volume bound; measured convergence ratio reported.',
   'Explored resolutions 6..40 quick / 6..150 thorough; bounds are analytic, sampling of surface/mesh points is PRNG-driven.',
   'DESIGN.md 2/C06'),
 'C08': ('exploration',
   'offline contour checker (endpoint welding, degree parity, event-log zero-crossing match) over real marching-squares renders collected through a caller-owned Line2Buffer channel',
   'All 16 single-cell configurations and all 2x64 edge-adjacent pairs (exhaustive in signs, sampled magnitudes incl. zeros / sub-epsilon) through both 2D renderers via lattice-lookup fields, random dense fields, and analytic circles/boxes with endpoint-accuracy, straight-edge exactness and perimeter bounds.',
   'Sign space exhaustive, magnitudes and shapes sampled; degree exactly 2 demanded only for generic corner values (even degree always).',
   'DESIGN.md 2/C08'),
 'C16': ('exploration',
   'runtime differential monitor: pruned Evaluate vs EvaluateSlow with operand-call counting wrappers; clamp/farthest-corner oracle for MinMaxDist2',
   'Executes the real Box2/Box3.MinMaxDist2, Interval.Overlap and (*UnionSDF2).Evaluate on PRNG-generated boxes, points stratified over all 9/27 position classes (with class boundaries) and unions of 2-12 exact operands under 5 blend kinds, comparing each call with an independent oracle. Held-on-what-was-explored, not a proof.',
   'Oracles: clamp-based nearest / per-axis farthest squared distance; max(a0,b0)<=min(a1,b1); EvaluateSlow (public reference). Union operands are exact-distance shapes with tight boxes.',
   'DESIGN.md 2/C16'),
}
NOT_YET = 'monitor not built yet in this round (planned in DESIGN.md section 2); not claimed until its check exists'
NA = {}

checks = []
for i in ids:
    if i in CHECKS:
        cat, tech, text, note, ref = CHECKS[i]
        checks.append({
            'property_id': i,
            'quick_cmd': './run.sh %s quick' % i,
            'thorough_cmd': './run.sh %s thorough' % i,
            'evidence_file': '/verif/evidence/%s.json' % i,
            'replay_cmd_template': './run.sh %s replay {path}' % i,
            'engine': 'vcheck',
            'level_claimed': {'category': cat, 'text': text, 'design_ref': ref},
            'level_note': note,
            'technique': tech,
        })
na = [{'property_id': i, 'reason': NA.get(i, NOT_YET)} for i in ids if i not in CHECKS]
m = {
 'version': 1,
 'setup_cmd': './run.sh setup',
 'hooks': {
   'guard': 'verif',
   'enable': 'go build -tags verif (harness files carry //go:build verif; /repo itself needs no hooks: all observation is at the public boundary)',
   'baseline_off_cmd': 'cd /repo && GOFLAGS=-mod=mod GOPROXY=off GOSUMDB=off GOTOOLCHAIN=local go test -vet=off -count=1 -json ./sdf/... ./render/... ./vec/v3/...',
   'source_commits': [],
   'add_only': True,
 },
 'engines': [{'name': 'vcheck', 'path': '/verif/harness/cmd/vcheck', 'serves_properties': sorted(CHECKS),
              'kind_free_text': 'Go runtime monitors: recording/probe SDF wrappers, lattice-lookup fields, scripted renderers, child processes with OS fault injection, Go race detector, porcupine history checker'}],
 'checks': checks,
 'not_applicable': na,
 'notes': 'Every check rebuilds harness/cmd/vcheck against /repo (go.mod replace) on each call. Exit 0 held / 1 VIOLATION / 2 INCONCLUSIVE. known_findings.json lists open findings and fix: commits.',
}
json.dump(m, open(os.path.join(ROOT, 'MANIFEST.json'), 'w'), indent=1)
print('claimed', len(checks), 'not claimed', len(na))
