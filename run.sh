#!/bin/bash
# ./run.sh <Cxx> quick|thorough          run the check for one property
# ./run.sh <Cxx> replay <path>           re-run one recorded case
# ./run.sh setup                         warm the build cache (MANIFEST.setup_cmd)
# Rebuilds the harness against /repo's current working tree on every call.
set -u
cd "$(dirname "$0")"
ROOT=$(pwd)
export GOFLAGS=-mod=mod GOPROXY=off GOSUMDB=off GOTOOLCHAIN=local
export GOMAXPROCS=${GOMAXPROCS:-$(nproc)}
BIN=$ROOT/.bin
mkdir -p "$BIN" "$ROOT/evidence" "$ROOT/replays"

build() { # $1 = output, $2... = extra flags
  local out=$1; shift
  (cd "$ROOT/harness" && go build -tags verif "$@" -o "$out.tmp.$$" ./cmd/vcheck) || return 1
  mv -f "$out.tmp.$$" "$out"
}

if [ "${1:-}" = setup ]; then
  build "$BIN/vcheck-setup" || { echo "setup: build failed"; exit 2; }
  build "$BIN/vcheck-setup-race" -race || { echo "setup: race build failed"; exit 2; }
  (cd "$ROOT/harness" && GOARCH=386 go build -tags verif -o "$BIN/vcheck-setup-386" ./cmd/vcheck) 2>/dev/null || echo "setup: no 386 cross build (word-size variant of C07 will be skipped)"
  rm -f "$BIN/vcheck-setup" "$BIN/vcheck-setup-race" "$BIN/vcheck-setup-386"
  echo "setup ok"
  exit 0
fi

PROP=${1:?property id}
MODE=${2:-quick}
if ! build "$BIN/vcheck-$PROP" 2>"$BIN/build-$PROP.log"; then
  # A tree that does not compile cannot be monitored: inconclusive, not a violation.
  cat "$BIN/build-$PROP.log"
  echo "INCONCLUSIVE property=$PROP harness build against /repo failed"
  exit 2
fi
case "$PROP" in
  C09|C10|C11)
    if ! build "$BIN/vcheck-$PROP-race" -race 2>"$BIN/build-$PROP.log"; then
      cat "$BIN/build-$PROP.log"
      echo "INCONCLUSIVE property=$PROP race build failed"
      exit 2
    fi
    export VCHECK_RACE_BIN="$BIN/vcheck-$PROP-race"
    ;;
esac
case "$PROP" in
  C07)
    # the same harness for a 32-bit platform (GOARCH=386 binaries run on this kernel): word-size variant of the
    # high-resolution cases; if the cross build is not possible the check runs without it and says so in its evidence
    if (cd "$ROOT/harness" && GOARCH=386 go build -tags verif -o "$BIN/vcheck-$PROP-386.tmp.$$" ./cmd/vcheck) 2>"$BIN/build-$PROP-386.log"; then
      mv -f "$BIN/vcheck-$PROP-386.tmp.$$" "$BIN/vcheck-$PROP-386"
      export VCHECK_386_BIN="$BIN/vcheck-$PROP-386"
    fi
    ;;
esac
if [ "$MODE" = replay ]; then
  exec "$BIN/vcheck-$PROP" "$PROP" --replay "${3:?replay path}"
fi
exec "$BIN/vcheck-$PROP" "$PROP" --tier "$MODE"
