#!/bin/bash
# tools/mutrun.sh <name> <props,comma-separated> <patch-file | -e 'sed-expr' file> [tier]
# Mutation experiment on a scratch copy of /repo (never touches /repo or real evidence):
# copies the tree to /var/tmp/mut-<name>, applies the change, checks it compiles and passes the
# baseline tests, builds the harness against the copy and runs the given checks.
set -u
export GOFLAGS=-mod=mod GOPROXY=off GOSUMDB=off GOTOOLCHAIN=local
NAME=$1; PROPS=$2; shift 2
D=/var/tmp/mut-$NAME
rm -rf "$D"; mkdir -p "$D"
rsync -a --exclude .git /repo/ "$D/repo/"
if [ "$1" = -e ]; then
  EXPR=$2; FILE=$3; shift 3
  cp "$D/repo/$FILE" "$D/orig"
  sed -i -E "$EXPR" "$D/repo/$FILE"
  if cmp -s "$D/orig" "$D/repo/$FILE"; then echo "MUTANT-NOOP: sed changed nothing"; rm -rf "$D"; exit 3; fi
  diff -u "$D/orig" "$D/repo/$FILE" | head -20
else
  PATCH=$1; shift
  (cd "$D/repo" && patch -p1 -s < "$PATCH") || { echo "MUTANT-PATCH-FAILED"; rm -rf "$D"; exit 3; }
fi
TIER=${1:-quick}
(cd "$D/repo" && go build ./... 2>&1 | head -5 && go test -vet=off -count=1 ./sdf/ ./render/ ./vec/v3/ 2>&1 | grep -v "^ok" | head -10)
if [ "${PIPESTATUS[0]:-0}" != 0 ]; then echo "MUTANT-BASELINE-PROBLEM"; fi
rsync -a /verif/harness/ "$D/harness/"
sed -i "s#=> /repo#=> $D/repo#" "$D/harness/go.mod"
mkdir -p "$D/out"
for P in ${PROPS//,/ }; do
  (cd "$D/harness" && go build -tags verif -o "$D/vcheck" ./cmd/vcheck) || { echo "MUTANT-HARNESS-BUILD-FAILED"; continue; }
  case $P in C07) (cd "$D/harness" && GOARCH=386 go build -tags verif -o "$D/vcheck-386" ./cmd/vcheck) && export VCHECK_386_BIN=$D/vcheck-386;; esac
  case $P in C09|C10|C11|C12) (cd "$D/harness" && go build -race -tags verif -o "$D/vcheck-race" ./cmd/vcheck); export VCHECK_RACE_BIN=$D/vcheck-race;; esac
  VERIF_OUT=$D/out "$D/vcheck" $P --tier $TIER > "$D/out/$P.log" 2>&1
  rc=$?
  echo "== $NAME $P exit=$rc: $(grep -c '^VIOLATION' "$D/out/$P.log") violation lines; $(grep -m1 'detail:' "$D/out/$P.log" | cut -c1-260)"
  tail -1 "$D/out/$P.log"
done
[ -n "${KEEP:-}" ] || rm -rf "$D"
