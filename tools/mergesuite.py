# Merges the per-seed lines of tools/seedsuite.sh runs (logs kept under /var/tmp while a session runs) into seeded/SUITE_RESULT.txt;
# the logs are scratch files: re-create them with tools/seedsuite.sh before running this again.
import re,subprocess
res={}
for f in ['/var/tmp/seedsuite.log','/var/tmp/suiteB.log','/var/tmp/suiteC.log','/var/tmp/suiteA.log','/var/tmp/suiteD.log']:
    try:
        for l in open(f):
            m=re.match(r'^(C\d\d-\d(?:-r\d)?) (CAUGHT|MISSED|BROKEN)(.*)$',l.rstrip())
            if m: res[m.group(1)]=l.rstrip()
    except FileNotFoundError: pass
head=subprocess.check_output(['git','-C','/repo','rev-parse','--short','HEAD']).decode().strip()
n=len(res); c=sum(1 for v in res.values() if ' CAUGHT' in v)
missed=[k for k,v in res.items() if ' CAUGHT' not in v]
out=[f"# tools/seedsuite.sh on /repo {head}: quick tier against every kept breaking change (5 rounds of 40 + round 6 of 46 = {n}): {c} caught; not caught: {', '.join(sorted(missed))} (see DESIGN.md 7.7 and 7.10)"]
out+= [res[k] for k in sorted(res)]
open('/verif/seeded/SUITE_RESULT.txt','w').write('\n'.join(out)+'\n')
print(out[0])
