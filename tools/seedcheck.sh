#!/bin/bash
# tools/seedcheck.sh <ID> <k> [props-to-run, default ID]
# Verifies an independently written breaking change (/tmp/seed-<ID>-out/<k>): demo passes on HEAD, patch compiles and passes
# the existing suite, demo fails with the patch; then runs our check(s) against it on a scratch copy and files everything
# under /verif/seeded/<ID>-<k>/.
set -u
export GOFLAGS=-mod=mod GOPROXY=off GOSUMDB=off GOTOOLCHAIN=local
ID=$1; K=$2; PROPS=${3:-$ID}
PFX=${SEEDPFX:-seed}; OUT=/tmp/$PFX-$ID-out/$K; WT=/tmp/$PFX-$ID
DEST=/verif/seeded/$ID-$K${SEEDSUF:-}
[ -f "$OUT/patch.diff" ] || { echo "no patch in $OUT"; exit 2; }
cd "$WT" && git checkout -q -- . && git clean -qfd
# place demo files
DEMOS=(); PKGS=(); SRCS=()
for f in "$OUT"/* $(find "$OUT" -mindepth 2 -name '*_test.go'); do
  [ -d "$f" ] && continue
  b=$(basename "$f")
  case "$b" in patch.diff|p.diff|meta.json|run.txt|verify.json|*.log) continue;; esac
  if [[ "$b" == *_test.go ]]; then
    pk=$(grep -m1 '^package ' "$f" | awk '{print $2}')
    case "$pk" in render|render_test) d=render;; sdf|sdf_test) d=sdf;; obj|obj_test) d=obj;; dc|dc_test) d=render/dc;; *) d=$pk;; esac
    cp "$f" "$WT/$d/"; DEMOS+=("$d/$b"); PKGS+=("./$d/"); SRCS+=("$f")
  elif [[ "$b" == *.go ]]; then
    mkdir -p "$WT/seeddemo"; cp "$f" "$WT/seeddemo/"; DEMOS+=("seeddemo/$b"); PKGS+=("MAIN"); SRCS+=("$f")
  else
    cp -r "$f" "$WT/" 2>/dev/null
  fi
done
rundemo() {
  local rc=0
  for p in $(printf "%s\n" "${PKGS[@]}" | sort -u); do
    if [ "$p" = MAIN ]; then (cd "$WT" && timeout 600 go run ./seeddemo/ >"$OUT/demo.$1.log" 2>&1) || rc=1
    else (cd "$WT" && timeout 900 go test -vet=off -count=1 -run 'Seed|seed|Demo' "$p" >"$OUT/demo.$1.log" 2>&1) || rc=1; fi
  done
  return $rc
}
rundemo head; D0=$?
git apply "$OUT/patch.diff" || { echo "PATCH DOES NOT APPLY"; exit 2; }
(go build ./... >"$OUT/build.log" 2>&1); B=$?
# existing suite without the demo files
for d in "${DEMOS[@]}"; do mv "$WT/$d" "$WT/$d.hold"; done
(go test -vet=off -count=1 ./sdf/... ./render/... ./vec/v3/... >"$OUT/suite.log" 2>&1); S=$?
for d in "${DEMOS[@]}"; do mv "$WT/$d.hold" "$WT/$d"; done
rundemo patched; D1=$?
git checkout -q -- . && git clean -qfd
echo "seed $ID-$K: demo_on_head=$([ $D0 = 0 ] && echo pass || echo FAIL) build=$([ $B = 0 ] && echo ok || echo FAIL) suite=$([ $S = 0 ] && echo pass || echo FAIL) demo_with_patch=$([ $D1 != 0 ] && echo fails-as-intended || echo PASSES)"
# our checks
RES=""
for P in ${PROPS//,/ }; do
  L=$(/verif/tools/mutrun.sh seed-$ID-$K-$P $P "$OUT/patch.diff" quick 2>&1 | grep -E "^== " | cut -c1-400)
  echo "$L"; RES="$RES$L\n"
done
mkdir -p "$DEST"; cp "$OUT/patch.diff" "$DEST/"; for i in "${!SRCS[@]}"; do f=${SRCS[$i]}; rel=${f#$OUT/}; cp "$f" "$DEST/${rel//\//_}"; done; cp "$OUT/run.txt" "$DEST/demo_run.txt" 2>/dev/null
python3 - "$OUT/meta.json" "$DEST/meta.json" "$ID" "$K" "$D0" "$B" "$S" "$D1" "$RES" <<'PY'
import json,sys,os
src,dst,ID,K,D0,B,S,D1,RES=sys.argv[1:10]
try: m=json.load(open(src))
except Exception: m={}
m['property']=ID
m['verified_by_lead']={'demo_passes_on_HEAD':D0=='0','patch_builds':B=='0','existing_suite_passes_with_patch':S=='0','demo_fails_with_patch':D1!='0',
  'commands':'tools/seedcheck.sh %s %s (demo: go test -run Seed in the package of the demo file, on a clean worktree and with patch.diff applied; suite: go test ./sdf/... ./render/... ./vec/v3/...)'%(ID,K),
  'our_checks_quick':[l for l in RES.replace('\\n','\n').split('\n') if l.strip()]}
if os.environ.get('INIT_MISSED')=='1': m['initially_missed_by_quick_tier']=True
json.dump(m,open(dst,'w'),indent=1)
PY
