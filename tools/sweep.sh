#!/bin/bash
# tools/sweep.sh <tier> <seed...> : run every claimed check (or those in $PROPS) for each seed, print one line per run
TIER=${1:-quick}; shift
SEEDS=${*:-1}
cd "$(dirname "$0")/.."
for S in $SEEDS; do
  for P in ${PROPS:-$(python3 -c "import json; print(' '.join(c['property_id'] for c in json.load(open('MANIFEST.json'))['checks']))")}; do
    T0=$(date +%s.%N)
    OUT=$(VERIF_SEED=$S ./run.sh $P $TIER 2>&1); RC=$?
    T1=$(date +%s.%N)
    printf "%s seed=%s rc=%d %.1fs  %s\n" $P $S $RC $(echo "$T1 - $T0" | bc) "$(echo "$OUT" | grep -E "^C[0-9]+ (quick|thorough)" | tail -1 | cut -d: -f2- | cut -c1-110)"
    if [ $RC != 0 ]; then echo "$OUT" | grep -E "detail|INCONCL" | head -5 | cut -c1-300; fi
  done
done
