#!/bin/bash
# tools/seedsuite.sh [pattern]  : re-run our quick checks against every kept breaking change (seeded/<id>/patch.diff) on a
# scratch copy of /repo's current tree and print one line per seed: CAUGHT <by>, or MISSED. The property a seed is filed
# under is tried first, then the alternatives named in its meta.json (verified_by_lead.our_checks_quick).
cd "$(dirname "$0")/.."
for d in seeded/${1:-*}/; do
  k=$(basename "$d"); P=${k%%-*}
  props=$(python3 - "$d/meta.json" "$P" <<'PY'
import json,re,sys
m=json.load(open(sys.argv[1])); own=sys.argv[2]
ps=[own]
for l in m.get('verified_by_lead',{}).get('our_checks_quick',[]):
    x=re.search(r' (C\d+) exit=1',l)
    if x and x.group(1) not in ps: ps.append(x.group(1))
print(' '.join(ps))
PY
)
  res=MISSED
  for p in $props; do
    L=$(tools/mutrun.sh suite-$k $p "$PWD/$d/patch.diff" quick 2>&1 | grep -E "^== |MUTANT-PATCH-FAILED|MUTANT-HARNESS")
    if echo "$L" | grep -q "exit=1"; then res="CAUGHT by $p: $(echo "$L" | sed -n 's/.*detail: \([^ ]*\).*/\1/p' | head -1)"; break; fi
    if echo "$L" | grep -q "MUTANT-"; then res="BROKEN: $L"; break; fi
  done
  echo "$k $res"
done
