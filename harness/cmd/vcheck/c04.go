//go:build verif

// C04 - polygon SDF is exact and agrees with its brute-force reference everywhere.
//
// Three implementations are compared at every query point:
//
//	fast   = sdf.Polygon2D(vertices)                      (quadtree, clipped segments)
//	slow   = sdf.Mesh2DSlow(sdf.VertexToLine(vertices))   (library brute force)
//	oracle = crossing number with EXACT orientation predicates (float filter with a
//	         sound error bound, math/big.Rat fallback) + brute-force float
//	         point-segment distance.
//
// Query points are aimed at the measure-zero sets where the ray-crossing rule and
// the quadtree clipping rules interact (vertex levels, split lines, box corners,
// vertices +-1 ulp, bounding box, far outside).
package main

import (
	"encoding/json"
	"fmt"
	"math"
	"os"
	"sort"
	"strings"

	"github.com/deadsy/sdfx/sdf"
	v2 "github.com/deadsy/sdfx/vec/v2"
)

func init() {
	checks["C04"] = checkC04
	replays["C04"] = replayC04
}

//-----------------------------------------------------------------------------
// polygon generators (all simple by construction; verified exactly afterwards)

type c04Case struct {
	Index    int      `json:"index"`
	Attempt  int      `json:"attempt"`
	Class    string   `json:"class"`
	Grid     string   `json:"grid"`
	Place    string   `json:"placement"`
	Reversed bool     `json:"reversed"`
	N        int      `json:"n"`
	V        []v2.Vec `json:"vertices,omitempty"`
	Shuffle  uint64   `json:"segment_order_seed,omitempty"` // != 0: the fast SDF is built by Mesh2D from the segments in a permuted order
}

var c04Classes = []string{"small", "convex", "star", "rectilinear", "small", "monotone", "sliver", "circle"}

func c04SortedAngles(r *Rng, n int) []float64 {
	a := make([]float64, 0, n)
	for len(a) < n {
		a = append(a, r.R(0, 2*math.Pi))
	}
	sort.Float64s(a)
	out := a[:1]
	for _, t := range a[1:] {
		if t-out[len(out)-1] > 2e-3 {
			out = append(out, t)
		}
	}
	return out
}

// c04Base returns a unit-size shape (coordinates within about [-1,1]).
func c04Base(r *Rng, class string, quick bool, gridded bool) []v2.Vec {
	var v []v2.Vec
	switch class {
	case "small": // 3..6 vertices: quadtree leaves at mixed levels next to each other
		for _, t := range c04SortedAngles(r, r.IR(3, 6)) {
			rad := r.R(0.3, 1)
			v = append(v, v2.Vec{X: rad * math.Cos(t), Y: rad * math.Sin(t)})
		}
	case "convex":
		bx, phi := r.R(0.2, 1), r.R(0, math.Pi)
		for _, t := range c04SortedAngles(r, r.IR(3, 24)) {
			p := v2.Vec{X: math.Cos(t), Y: bx * math.Sin(t)}
			v = append(v, v2.Vec{X: p.X*math.Cos(phi) - p.Y*math.Sin(phi), Y: p.X*math.Sin(phi) + p.Y*math.Cos(phi)})
		}
	case "star":
		for _, t := range c04SortedAngles(r, r.IR(4, 40)) {
			rad := r.R(0.15, 1)
			v = append(v, v2.Vec{X: rad * math.Cos(t), Y: rad * math.Sin(t)})
		}
	case "rectilinear":
		// histogram: columns above (and optionally below) a base line; equal
		// neighbouring heights and split runs give consecutive collinear vertices,
		// the small height alphabet puts many vertices on the same scanline.
		k := r.IR(2, 12)
		xs := []float64{0}
		for i := 0; i < k; i++ {
			xs = append(xs, xs[i]+float64(r.IR(1, 3)))
		}
		w := xs[k]
		lvl := func() float64 { return float64(r.IR(1, 4)) / 4 }
		top := make([]float64, k)
		bot := make([]float64, k)
		both := r.Bool()
		for i := range top {
			top[i] = lvl()
			if both {
				bot[i] = -lvl()
			}
		}
		add := func(p v2.Vec) {
			p = v2.Vec{X: 2*p.X/w - 1, Y: p.Y}
			if len(v) > 0 && v[len(v)-1] == p {
				return
			}
			if len(v) > 0 && r.P(0.3) { // extra collinear vertex in the run
				q := v[len(v)-1]
				v = append(v, v2.Vec{X: (q.X + p.X) / 2, Y: (q.Y + p.Y) / 2})
			}
			v = append(v, p)
		}
		for i := 0; i < k; i++ { // bottom, left to right
			add(v2.Vec{X: xs[i], Y: bot[i]})
			add(v2.Vec{X: xs[i+1], Y: bot[i]})
		}
		for i := k - 1; i >= 0; i-- { // top, right to left
			add(v2.Vec{X: xs[i+1], Y: top[i]})
			add(v2.Vec{X: xs[i], Y: top[i]})
		}
		if v[len(v)-1] == v[0] {
			v = v[:len(v)-1]
		}
		if r.Bool() {
			for i := range v {
				v[i] = v2.Vec{X: v[i].Y, Y: v[i].X}
			}
		}
	case "monotone":
		// x-monotone: flat or sloped base, jagged top with strictly decreasing x
		k := r.IR(2, 20)
		v = append(v, v2.Vec{X: -1, Y: -r.R(0, 0.5)}, v2.Vec{X: 1, Y: -r.R(0, 0.5)})
		for i := k; i >= 0; i-- {
			y := r.R(0.05, 1)
			if r.P(0.3) {
				y = float64(r.IR(1, 4)) / 4
			}
			v = append(v, v2.Vec{X: -1 + 2*float64(i)/float64(k), Y: y})
		}
		if r.Bool() {
			for i := range v {
				v[i] = v2.Vec{X: v[i].Y, Y: v[i].X}
			}
		}
	case "sliver":
		h := r.LogR(1e-5, 2e-2)
		if gridded {
			h = 1 / float64(int(1)<<r.IR(5, 9))
		}
		switch r.I(3) {
		case 0:
			v = []v2.Vec{{X: -1, Y: 0}, {X: 1, Y: 0}, {X: r.R(-1, 1), Y: h}}
		case 1:
			v = []v2.Vec{{X: -1, Y: 0}, {X: 1, Y: 0}, {X: 1, Y: h}, {X: -1, Y: h}}
		default:
			v = []v2.Vec{{X: -1, Y: 0}, {X: 0, Y: -h}, {X: 1, Y: 0}, {X: 0, Y: h}}
		}
		switch r.I(3) {
		case 0:
		case 1:
			for i := range v {
				v[i] = v2.Vec{X: -v[i].Y, Y: v[i].X}
			}
		default:
			if !gridded {
				phi := r.R(0, math.Pi)
				for i, p := range v {
					v[i] = v2.Vec{X: p.X*math.Cos(phi) - p.Y*math.Sin(phi), Y: p.X*math.Sin(phi) + p.Y*math.Cos(phi)}
				}
			}
		}
	case "circle":
		n := r.IR(40, 200)
		if !quick {
			n = pickOne(r, []int{64, 100, 360, 500, 1000, 2000})
		}
		noise := pickOne(r, []float64{0, 0, 1e-3, 0.05})
		for i := 0; i < n; i++ {
			t := 2 * math.Pi * float64(i) / float64(n)
			rad := 1 + noise*r.R(-1, 1)
			v = append(v, v2.Vec{X: rad * math.Cos(t), Y: rad * math.Sin(t)})
		}
	}
	return v
}

func c04Generate(c *Ctx, idx int) *c04Case {
	for attempt := 0; attempt < 50; attempt++ {
		r := c.Rng("poly", idx, attempt)
		cs := &c04Case{Index: idx, Attempt: attempt}
		cs.Class = c04Classes[idx%len(c04Classes)]
		cs.Grid = pickOne(r, []string{"int", "dyadic", "decimal", "decimal", "irrational"})
		v := c04Base(r, cs.Class, c.Quick, cs.Grid != "irrational")
		// scale and put on the grid
		var size, q float64
		switch cs.Grid {
		case "int":
			size, q = pickOne(r, []float64{8, 16, 50, 100, 1000, 30000, 1e5}), 1
			if cs.Class == "sliver" || cs.Class == "circle" {
				size = pickOne(r, []float64{1024, 4096, 10000})
			}
		case "dyadic":
			size, q = pickOne(r, []float64{1, 4, 32, 100}), 8
			if cs.Class == "sliver" || cs.Class == "circle" {
				size = pickOne(r, []float64{128, 512, 1000})
			}
		case "decimal": // k/10, k/100: not representable, so derived split lines land 1 ulp beside vertices
			size, q = pickOne(r, []float64{2, 5, 30}), pickOne(r, []float64{10, 10, 100})
			if cs.Class == "sliver" || cs.Class == "circle" {
				size = pickOne(r, []float64{100, 500})
			}
		default:
			size, q = r.LogR(0.1, 1000)*math.Sqrt2, 0
			if r.P(0.3) { // models in micrometres / metre-sized parts in millimetres
				size = r.LogR(1000, 1e6) * math.Sqrt2
			} else if r.P(0.25) { // fine detail: outlines of a few thousandths of a unit (edges down to 1e-6)
				size = r.LogR(2e-3, 0.1) * math.Sqrt2
			}
		}
		for i := range v {
			v[i] = v[i].MulScalar(size)
			if q != 0 {
				v[i] = v2.Vec{X: math.Round(v[i].X*q) / q, Y: math.Round(v[i].Y*q) / q}
			}
		}
		// placement
		var off v2.Vec
		switch r.I(5) {
		case 0, 1:
			cs.Place = "centred"
		case 2:
			cs.Place = "near"
			off = v2.Vec{X: r.R(-3, 3) * size, Y: r.R(-3, 3) * size}
		case 3:
			cs.Place = "negative-quadrant"
			off = v2.Vec{X: -r.R(1.5, 20) * size, Y: -r.R(1.5, 20) * size}
		default:
			cs.Place = "far"
			m := r.LogR(10, 1e4) * size
			t := r.R(0, 2*math.Pi)
			off = v2.Vec{X: m * math.Cos(t), Y: m * math.Sin(t)}
			if r.P(0.3) {
				off = v2.Vec{X: m * r.Sign(), Y: 0}
			} else if r.P(0.3) {
				off = v2.Vec{X: 0, Y: m * r.Sign()}
			}
		}
		if q != 0 {
			off = v2.Vec{X: math.Round(off.X*q) / q, Y: math.Round(off.Y*q) / q}
		}
		// generated domain: |coordinate| <= 2^22. Beyond 2^23 the spacing of float64 exceeds the library's absolute 1e-9
		// clip tolerance (see the pinned witness c04KeyHuge); such polygons are not generated.
		for {
			worst := 0.0
			for i := range v {
				q := v[i].Add(off)
				worst = math.Max(worst, math.Max(math.Abs(q.X), math.Abs(q.Y)))
			}
			if worst <= c04MaxCoord {
				break
			}
			off = off.MulScalar(0.5)
			if q != 0 {
				off = v2.Vec{X: math.Round(off.X*q) / q, Y: math.Round(off.Y*q) / q}
			}
		}
		for i := range v {
			v[i] = v[i].Add(off)
		}
		// orientation and start vertex
		if r.Bool() {
			cs.Reversed = true
			for a, b := 0, len(v)-1; a < b; a, b = a+1, b-1 {
				v[a], v[b] = v[b], v[a]
			}
		}
		k := r.I(len(v))
		v = append(append([]v2.Vec{}, v[k:]...), v[:k]...)
		// a junction listed twice: where two separately computed pieces of an outline meet, the shared point appears once per
		// piece and the two copies differ by rounding (an arc ending at (-r, 1.2e-16 r) followed by the literal corner (-r, 0))
		micro := -1
		if cs.Grid == "irrational" && r.P(0.3) {
			i := r.I(len(v))
			d := v[(i+1)%len(v)].Sub(v[i])
			w := v[i].Add(d.MulScalar(r.LogR(1e-17, 1e-10) * size / d.Length()))
			if w != v[i] {
				v = append(v[:i+1], append([]v2.Vec{w}, v[i+1:]...)...)
				micro = i
				cs.Place += "+junction-listed-twice"
			}
		}
		// exact verification of the domain: simple polygon, no micro edges (other than a junction listed twice)
		ok := c04Simple(v)
		for i := 0; ok && i < len(v); i++ {
			if i != micro && v[i].Sub(v[(i+1)%len(v)]).Length() < 1e-6*size {
				ok = false
			}
		}
		if !ok {
			c.Count("generator_rejected_not_simple/"+cs.Class, 1)
			continue
		}
		cs.V, cs.N = v, len(v)
		if r.P(0.2) {
			cs.Shuffle = r.U64() | 1
			cs.Place += "+segments-shuffled"
		}
		return cs
	}
	return nil
}

//-----------------------------------------------------------------------------
// query points

type c04Geom struct {
	v       []v2.Vec
	lo, hi  v2.Vec // polygon bounding box
	size    float64
	scale   float64 // max(size, max |coordinate|): the scale of the float inputs
	splitsX []float64
	splitsY []float64
	// input-side preconditions used to label violations (see c04Key)
	nearSplit  bool         // a vertex coordinate is within 1e-9 of a split line without being on it
	cornerPass bool         // an edge passes within 1e-9 of a point where two split lines cross
	unflush    [2][]float64 // split coordinates with a distinct twin closer than 1e-6 x size (boxes that should share an edge)
}

const (
	c04KeyEndpoint  = "C04/clipped-endpoint-recomputed"
	c04KeyUnflush   = "C04/child-box-not-flush-with-neighbour"
	c04KeyNearSplt  = "C04/vertex-within-1e-9-of-split-line"
	c04KeyCorner    = "C04/edge-through-quadtree-corner"
	c04KeyThreePts  = "C04/three-clip-points-in-a-box"
	c04KeyCollapsed = "C04/clipped-piece-collapsed-to-a-point"
)

// key labels a violation by properties of the INPUT only (never by the outputs): polygons
// with a vertex inside the library's 1e-9 snapping distance of a split line, polygons with an
// edge through a corner of the quadtree, and query points next to a split coordinate that has
// a non-identical twin. Everything else is "" (an ordinary violation).
func (g *c04Geom) key(p v2.Vec) string {
	if g.nearSplit {
		return c04KeyNearSplt
	}
	if g.cornerPass {
		return c04KeyCorner
	}
	for ax := 0; ax < 2; ax++ {
		for _, s := range g.unflush[ax] {
			// the library drops whole pieces shorter than 1e9 ulp next to such a line
			if math.Abs(c04Coord(p, ax)-s) <= 1e-6*g.size+2.5e-7*math.Abs(s) {
				return c04KeyUnflush
			}
		}
	}
	return ""
}

func (g *c04Geom) classify() {
	for i, a := range g.v {
		b := g.v[(i+1)%len(g.v)]
		if a.X == b.X || a.Y == b.Y {
			continue
		}
		for _, sx := range g.splitsX {
			if sx <= math.Min(a.X, b.X) || sx >= math.Max(a.X, b.X) {
				continue
			}
			y := a.Y + (sx-a.X)*(b.Y-a.Y)/(b.X-a.X)
			k := sort.SearchFloat64s(g.splitsY, y)
			for _, j := range []int{k - 1, k} {
				if j >= 0 && j < len(g.splitsY) && math.Abs(g.splitsY[j]-y) <= 1e-9*(1+g.scale) {
					g.cornerPass = true
				}
			}
		}
	}
	for ax, sp := range [2][]float64{g.splitsX, g.splitsY} {
		for i := 0; i+1 < len(sp); i++ {
			if sp[i+1]-sp[i] < 1e-6*g.size {
				g.unflush[ax] = append(g.unflush[ax], sp[i], sp[i+1])
			}
		}
		for _, v := range g.v {
			w := c04Coord(v, ax)
			i := sort.SearchFloat64s(sp, w)
			for _, k := range []int{i - 1, i} {
				if k >= 0 && k < len(sp) && sp[k] != w && math.Abs(sp[k]-w) < 1e-9 {
					g.nearSplit = true
				}
			}
		}
	}
}

func c04Coord(p v2.Vec, ax int) float64 {
	if ax == 0 {
		return p.X
	}
	return p.Y
}

// axis returns a hostile coordinate on the given axis.
func (g *c04Geom) axis(r *Rng, ax int) float64 {
	lo, hi := c04Coord(g.lo, ax), c04Coord(g.hi, ax)
	switch r.I(13) {
	case 0:
		return lo - 1e3*g.size*r.R(0.5, 1)
	case 1:
		return hi + 1e3*g.size*r.R(0.5, 1)
	case 2:
		return lo - g.size*r.LogR(1e-6, 0.6)
	case 3:
		return hi + g.size*r.LogR(1e-6, 0.6)
	case 4:
		return lo
	case 5:
		return hi
	case 6, 7:
		return c04Coord(g.v[r.I(len(g.v))], ax)
	case 8:
		return g.split(r, ax)
	default:
		return r.R(lo, hi)
	}
}

func (g *c04Geom) split(r *Rng, ax int) float64 {
	if ax == 0 {
		return pickOne(r, g.splitsX)
	}
	return pickOne(r, g.splitsY)
}

var c04Cats = []string{"vertex-level", "vertex-x", "split-line", "split-corner", "split-ulp", "ulp", "edge-mid", "far", "bbox", "uniform"}
var c04CatWeights = []int{28, 8, 20, 5, 6, 8, 6, 6, 5, 8}

func c04Ulp(x float64, d int) float64 {
	switch d {
	case 0:
		return math.Nextafter(x, math.Inf(-1))
	case 2:
		return math.Nextafter(x, math.Inf(1))
	}
	return x
}

func (g *c04Geom) point(r *Rng, cat string) v2.Vec {
	n := len(g.v)
	switch cat {
	case "vertex-level":
		return v2.Vec{X: g.axis(r, 0), Y: g.v[r.I(n)].Y}
	case "vertex-x":
		return v2.Vec{X: g.v[r.I(n)].X, Y: g.axis(r, 1)}
	case "split-line":
		if r.Bool() {
			return v2.Vec{X: g.axis(r, 0), Y: g.split(r, 1)}
		}
		return v2.Vec{X: g.split(r, 0), Y: g.axis(r, 1)}
	case "split-corner":
		return v2.Vec{X: g.split(r, 0), Y: g.split(r, 1)}
	case "split-ulp": // one or two ulps beside a split line
		d := r.I(2) * 2
		if r.Bool() {
			y := c04Ulp(g.split(r, 1), d)
			if r.P(0.3) {
				y = c04Ulp(y, d)
			}
			return v2.Vec{X: g.axis(r, 0), Y: y}
		}
		return v2.Vec{X: c04Ulp(g.split(r, 0), d), Y: g.axis(r, 1)}
	case "ulp":
		p := g.v[r.I(n)]
		return v2.Vec{X: c04Ulp(p.X, r.I(3)), Y: c04Ulp(p.Y, r.I(3))}
	case "edge-mid":
		i := r.I(n)
		a, b := g.v[i], g.v[(i+1)%n]
		t := pickOne(r, []float64{0.5, 0.5, 0.25, 0.01, 0.99})
		d := b.Sub(a)
		nrm := v2.Vec{X: d.Y, Y: -d.X}.MulScalar(1 / d.Length())
		off := g.size * r.LogR(1e-8, 0.1) * r.Sign()
		return a.Add(d.MulScalar(t)).Add(nrm.MulScalar(off))
	case "far":
		far := 1e3 * g.size * r.R(0.8, 1.2) * r.Sign()
		if r.Bool() {
			y := g.v[r.I(n)].Y
			if r.P(0.3) {
				y = g.split(r, 1)
			}
			return v2.Vec{X: g.lo.X + far, Y: y}
		}
		x := g.v[r.I(n)].X
		if r.P(0.3) {
			x = g.split(r, 0)
		}
		return v2.Vec{X: x, Y: g.lo.Y + far}
	case "bbox":
		x, y := pickOne(r, []float64{g.lo.X, g.hi.X}), pickOne(r, []float64{g.lo.Y, g.hi.Y})
		switch r.I(3) {
		case 0:
			x = g.axis(r, 0)
		case 1:
			y = g.axis(r, 1)
		}
		return v2.Vec{X: x, Y: y}
	}
	return v2.Vec{X: r.R(g.lo.X-0.2*g.size, g.hi.X+0.2*g.size), Y: r.R(g.lo.Y-0.2*g.size, g.hi.Y+0.2*g.size)}
}

//-----------------------------------------------------------------------------
// the monitor

type c04Witness struct {
	Case    *c04Case `json:"polygon"`
	P       v2.Vec   `json:"p"`
	Cat     string   `json:"category"`
	Fast    float64  `json:"fast"`
	Slow    float64  `json:"slow"`
	Inside  bool     `json:"oracle_inside"`
	Dist    float64  `json:"oracle_distance"`
	Tol     float64  `json:"tolerance"`
	ScanRow int      `json:"queries_failing_on_this_polygon,omitempty"`
	Key     string   `json:"-"`
}

// c04Tol is the comparison tolerance at a query point: 1e-9 relative to the scale of the
// float inputs plus the distance itself (legit rounding observed: < 1e-15 of that).
// For fine-detail polygons (scale below 0.14, the smallest size of the ordinary classes) the library's own absolute
// coincidence tolerance of 1e-9 - clipped end points are snapped onto quadtree box edges by up to that much - is added:
// relative to such a polygon it is no longer negligible.
func c04Tol(scale float64, o c04Answer) float64 {
	t := 1e-9 * (scale + o.dist)
	if scale < 0.14 {
		t += 1e-9
	}
	return t
}

// c04Judge compares the three answers at one point. Returns "" or a violation kind.
func c04Judge(fast, slow float64, o c04Answer, tol float64) string {
	if math.IsNaN(fast) || math.IsNaN(slow) || math.IsInf(fast, 0) || math.IsInf(slow, 0) {
		return "nan"
	}
	if o.dist > tol && !o.onEdge { // sign is decided only clear of the boundary
		fw, sw := (fast < 0) != o.inside, (slow < 0) != o.inside
		switch {
		case fw && sw:
			return "sign-both"
		case fw:
			return "sign-fast"
		case sw:
			return "sign-slow"
		}
	}
	fw, sw := math.Abs(math.Abs(fast)-o.dist) > tol, math.Abs(math.Abs(slow)-o.dist) > tol
	switch {
	case fw && sw:
		return "distance-both"
	case fw:
		return "distance-fast"
	case sw:
		return "distance-slow"
	case math.Abs(math.Abs(fast)-math.Abs(slow)) > tol:
		return "distance-fast-vs-slow"
	}
	return ""
}

// c04Build constructs both library shapes and the geometry record.
func c04Build(v []v2.Vec, shuffle ...uint64) (fast, slow sdf.SDF2, g *c04Geom, err error) {
	cp := func() []v2.Vec { return append(make([]v2.Vec, 0, len(v)), v...) } // VertexToLine appends
	if len(shuffle) > 0 && shuffle[0] != 0 {
		// the same outline handed to Mesh2D directly, segments in an arbitrary order (a set of segments has no order)
		ls := sdf.VertexToLine(cp(), true)
		pr := newRng(shuffle[0], "C04", "segment-order")
		perm := pr.Perm(len(ls))
		out := make([]*sdf.Line2, len(ls))
		for i, j := range perm {
			out[i] = ls[j]
		}
		fast, err = sdf.Mesh2D(out)
	} else {
		fast, err = sdf.Polygon2D(cp())
	}
	if err != nil {
		return
	}
	if slow, err = sdf.Mesh2DSlow(sdf.VertexToLine(cp(), true)); err != nil {
		return
	}
	m, ok := fast.(*sdf.MeshSDF2)
	if !ok {
		err = fmt.Errorf("Polygon2D returned %T, not *sdf.MeshSDF2", fast)
		return
	}
	g = &c04Geom{v: v, lo: v[0], hi: v[0]}
	for _, p := range v {
		g.lo, g.hi = g.lo.Min(p), g.hi.Max(p)
		g.scale = math.Max(g.scale, math.Max(math.Abs(p.X), math.Abs(p.Y)))
	}
	g.size = math.Max(g.hi.X-g.lo.X, g.hi.Y-g.lo.Y)
	g.scale = math.Max(g.scale, g.size)
	sx, sy := map[float64]bool{}, map[float64]bool{}
	for _, b := range m.Boxes() {
		ctr := b.Center() // the same expression the quadtree uses for its split point
		sx[b.Min.X], sx[b.Max.X], sx[ctr.X] = true, true, true
		sy[b.Min.Y], sy[b.Max.Y], sy[ctr.Y] = true, true, true
	}
	for x := range sx {
		g.splitsX = append(g.splitsX, x)
	}
	for y := range sy {
		g.splitsY = append(g.splitsY, y)
	}
	sort.Float64s(g.splitsX)
	sort.Float64s(g.splitsY)
	g.classify()
	return
}

func c04RunPolygon(c *Ctx, cs *c04Case, nPts int) {
	if d := os.Getenv("VCHECK_DUMP_POLY"); d != "" { // debugging aid: "<index>:<file>"
		var idx int
		var file string
		if n, _ := fmt.Sscanf(strings.Replace(d, ":", " ", 1), "%d %s", &idx, &file); n == 2 && idx == cs.Index {
			b, _ := json.Marshal(cs)
			os.WriteFile(file, b, 0644)
		}
	}
	fast, slow, g, err := c04Build(cs.V, cs.Shuffle)
	if err != nil {
		c.Violate("", "construct "+err.Error(), cs)
		return
	}
	r := c.Rng("points", cs.Index)
	wsum := 0
	for _, w := range c04CatWeights {
		wsum += w
	}
	var nIn, nOut, nEdge, nFallback int
	catN := map[string]int{}
	firstBad := map[string]*c04Witness{}
	badN := map[string]int{}
	var worstFS, worstFO, worstSO float64
	for q := 0; q < nPts; q++ {
		k, cat := r.I(wsum), ""
		for i, w := range c04CatWeights {
			if k < w {
				cat = c04Cats[i]
				break
			}
			k -= w
		}
		p := g.point(r, cat)
		f, s := fast.Evaluate(p), slow.Evaluate(p)
		o := c04Eval(cs.V, p)
		tol, norm := c04Tol(g.scale, o), g.scale+o.dist
		catN[cat]++
		nFallback += o.fallbck
		switch {
		case o.onEdge || o.dist <= tol:
			nEdge++
		case o.inside:
			nIn++
		default:
			nOut++
		}
		worstFS = math.Max(worstFS, math.Abs(math.Abs(f)-math.Abs(s))/norm)
		worstFO = math.Max(worstFO, math.Abs(math.Abs(f)-o.dist)/norm)
		worstSO = math.Max(worstSO, math.Abs(math.Abs(s)-o.dist)/norm)
		if kind := c04Judge(f, s, o, tol); kind != "" {
			kind += map[string]string{"": "", c04KeyNearSplt: "/vertex-near-split", c04KeyCorner: "/edge-through-corner", c04KeyUnflush: "/unflush-split"}[g.key(p)]
			badN[kind]++
			c.Count("failing_queries/"+kind+"/"+cat, 1)
			if firstBad[kind] == nil {
				firstBad[kind] = &c04Witness{Case: cs, P: p, Cat: cat, Fast: f, Slow: s, Inside: o.inside, Dist: o.dist, Tol: tol, Key: g.key(p)}
			}
		}
	}
	c.Eval(nPts)
	for k, n := range catN {
		c.Count("queries/"+k, int64(n))
	}
	c.Count("oracle/inside", int64(nIn))
	c.Count("oracle/outside", int64(nOut))
	c.Count("oracle/on_boundary_within_tol", int64(nEdge))
	c.Count("oracle/exact_arithmetic_fallbacks", int64(nFallback))
	c.Count("polygons/class/"+cs.Class, 1)
	c.Count("polygons/grid/"+cs.Grid, 1)
	c.Count("polygons/placement/"+cs.Place, 1)
	c.Count("quadtree_split_lines_seen", int64(len(g.splitsX)+len(g.splitsY)))
	if g.nearSplit {
		c.Count("polygons/with_vertex_within_1e-9_of_a_split_line", 1)
	}
	if g.cornerPass {
		c.Count("polygons/with_edge_through_a_split_corner", 1)
	}
	if len(g.unflush[0])+len(g.unflush[1]) > 0 {
		c.Count("polygons/with_child_boxes_not_flush", 1)
	}
	c.MaxObs("polygon_max_vertices", float64(cs.N))
	c.MaxObs("worst_abs_fast_minus_slow_over_scale_plus_dist", worstFS)
	c.MaxObs("worst_abs_fast_minus_oracle_over_scale_plus_dist", worstFO)
	c.MaxObs("worst_abs_slow_minus_oracle_over_scale_plus_dist", worstSO)
	if catN["vertex-level"] > 0 && catN["split-line"] > 0 && nIn > 0 && nOut > 0 {
		c.Distinct(hashKey(cs.V))
	}
	kinds := make([]string, 0, len(firstBad))
	for k := range firstBad {
		kinds = append(kinds, k)
	}
	sort.Strings(kinds)
	for _, k := range kinds {
		w := firstBad[k]
		w.ScanRow = badN[k]
		if cs.N > 256 {
			cp := *cs
			cp.V = nil // regenerate from (seed, index, attempt)
			w.Case = &cp
		}
		c.Violate(w.Key, fmt.Sprintf("%s polygon#%d %s/%s/%s n=%d p=(%.17g,%.17g) [%s] fast=%.17g slow=%.17g oracle=%s%.17g tol=%.3g (%d of %d queries on this polygon)",
			k, cs.Index, cs.Class, cs.Grid, cs.Place, cs.N, w.P.X, w.P.Y, w.Cat, w.Fast, w.Slow, map[bool]string{true: "-", false: "+"}[w.Inside], w.Dist, w.Tol, badN[k], nPts), w)
	}
}

// c04Pins are minimal witnesses of the four defect classes found on the unchanged tree
// (sdfx c2e3870). Each is a triangle on a 0.1 grid and a point far from its boundary.
var c04Pins = []struct {
	key, why string
	v        []v2.Vec
	p        v2.Vec
}{
	{c04KeyEndpoint, "Box2.lineIntersect recomputes the end point of a clipped segment as u+v*1 (1 ulp off the vertex): the scanline through the vertex is counted twice",
		[]v2.Vec{{X: -0.9, Y: -2}, {X: -1.4, Y: 1.8}, {X: -2, Y: -0.2}}, v2.Vec{X: -3, Y: -0.2}},
	{c04KeyUnflush, "quad0..quad3: (min+delta)+delta != max, child boxes leave a 1 ulp gap to the neighbouring parent box; scanlines in the gap lose a crossing",
		[]v2.Vec{{X: -1.5, Y: 0.6}, {X: 1.1, Y: -1.5}, {X: 1.7, Y: 1}}, v2.Vec{X: -3, Y: -0.70800000000000007}}, // p.Y = Max.Y of a level-3 box
	{c04KeyNearSplt, "vertex 1 ulp beside a split line: Snap moves it / tAppend drops the sub-1e-9 piece, the scanline between vertex and split line loses a crossing",
		[]v2.Vec{{X: 0.1, Y: -2}, {X: -1.5, Y: -0.4}, {X: 1.7, Y: 0.8}}, v2.Vec{X: -3, Y: -0.4}},
	{c04KeyCorner, "edge passes through the corner shared by four quadtree boxes: the clipped pieces do not chain (one starts 1 ulp above the split line), the scanline on the split line loses a crossing",
		[]v2.Vec{{X: 1, Y: -5}, {X: 5, Y: -1.7}, {X: -1, Y: 5}}, v2.Vec{X: 2.8, Y: -2.5249999999999999}},
	{c04KeyThreePts, "end point 6e-10 beyond a split line, snapped onto it next to the genuine crossing 6e-9 (in t) away: three points in the box, the whole piece was dropped from the leaf",
		[]v2.Vec{{X: -2, Y: 0}, {X: -0.1, Y: -1}, {X: 6e-10, Y: -1}, {X: 2, Y: 0}, {X: 0, Y: 1}}, v2.Vec{X: -0.05, Y: -1.2}},
	{c04KeyCollapsed, "a junction listed twice (3e-10 apart) just beyond a split line: both copies are snapped onto the same spot, the zero-length piece has a NaN direction",
		[]v2.Vec{{X: -2, Y: 0}, {X: -0.1, Y: -1}, {X: 3e-10, Y: -1}, {X: 6e-10, Y: -1}, {X: 2, Y: 0}, {X: 0, Y: 1}}, v2.Vec{X: -0.05, Y: -1.2}},
}

const c04MaxCoord = 1 << 22

// c04KeyHuge: known finding, identified by this input (a square standing on a corner, half diagonal 53443.09..., centred
// 1.1e7 from the origin).
const c04KeyHuge = "polygon2d-diamond-r53443-centre-1.1e7"

func c04RunHuge(c *Ctx) {
	v := []v2.Vec{{X: 613403.3872786951, Y: -1.0997662078452526e+07}, {X: 559960.294356089, Y: -1.094421898552992e+07},
		{X: 506517.2014334828, Y: -1.0997662078452526e+07}, {X: 559960.294356089, Y: -1.1051105171375131e+07}}
	ctr, rad := v2.Vec{X: 559960.294356089, Y: -1.0997662078452526e+07}, 53443.092922606134
	fast, slow, g, err := c04Build(v)
	if err != nil || !c04Simple(v) {
		c.Inconclusive(fmt.Sprintf("pinned huge-coordinate case unusable: %v", err))
		return
	}
	bad, n := 0, 0
	var w *c04Witness
	for i := 0; i <= 40; i++ {
		for j := 0; j <= 40; j++ {
			p := v2.Vec{X: ctr.X + rad*1.5*(float64(i)/20-1), Y: ctr.Y + rad*1.5*(float64(j)/20-1)}
			f, s, o := fast.Evaluate(p), slow.Evaluate(p), c04Eval(v, p)
			n++
			if kind := c04Judge(f, s, o, c04Tol(g.scale, o)); kind != "" {
				bad++
				if w == nil {
					w = &c04Witness{Case: &c04Case{Index: -100, Class: "pinned-huge", N: len(v), V: v}, P: p, Cat: "pinned", Fast: f, Slow: s, Inside: o.inside, Dist: o.dist, Tol: c04Tol(g.scale, o)}
				}
			}
		}
	}
	c.Eval(n)
	c.Count("queries/pinned-huge", int64(n))
	if bad > 0 {
		c.Violate(c04KeyHuge, fmt.Sprintf("pinned-huge-coordinates Polygon2D of the square (613403.39,-10997662.08) (559960.29,-10944218.99) (506517.20,-10997662.08) (559960.29,-11051105.17): %d of %d grid queries differ from the brute-force distance "+
			"(first p=(%.17g,%.17g) fast=%.17g slow=%.17g): coordinates beyond 2^23, where float64 spacing exceeds the absolute 1e-9 clip tolerance of Box2.lineIntersect, lose clipped segments", bad, n, w.P.X, w.P.Y, w.Fast, w.Slow), w)
	}
}

func c04RunPins(c *Ctx) {
	for i, pin := range c04Pins {
		fast, slow, g, err := c04Build(pin.v)
		if err != nil || !c04Simple(pin.v) {
			c.Inconclusive(fmt.Sprintf("pinned case %d unusable: %v", i, err))
			continue
		}
		f, s, o := fast.Evaluate(pin.p), slow.Evaluate(pin.p), c04Eval(pin.v, pin.p)
		c.Eval(1)
		c.Count("queries/pinned", 1)
		if kind := c04Judge(f, s, o, c04Tol(g.scale, o)); kind != "" {
			c.Violate(pin.key, fmt.Sprintf("pinned-%s triangle %v p=%v fast=%.17g slow=%.17g oracle inside=%v dist=%.17g: %s", kind, pin.v, pin.p, f, s, o.inside, o.dist, pin.why),
				&c04Witness{Case: &c04Case{Index: -1 - i, Class: "pinned", N: 3, V: pin.v}, P: pin.p, Cat: "pinned", Fast: f, Slow: s, Inside: o.inside, Dist: o.dist, Tol: c04Tol(g.scale, o)})
		}
	}
}

func checkC04(c *Ctx) {
	c.Rule("simple polygons (3..6-gons, convex, star-shaped, rectilinear histograms with collinear/horizontal/vertical runs, x/y-monotone, thin slivers, " +
		"circle-like up to 200 (quick) / 2000 (thorough) vertices) x {integer, dyadic k/8, decimal k/10 k/100, irrational} coordinates x {centred, near, negative quadrant, " +
		"far: offset up to 1e4 x size} x {cw, ccw}; every polygon is verified simple by an exact segment-intersection test. Query points: level with a vertex, " +
		"on a vertex x, on every quadtree split line (box min/max/centre from MeshSDF2.Boxes()), split corners, split lines +-1..2 ulp, vertices +-1 ulp, edge midpoints " +
		"+- normal offsets, bounding box, 1e3 x size outside, uniform; plus 4 pinned triangles (one per defect class found on sdfx c2e3870). Non-trivial/distinct = polygon " +
		"(by content hash) with >=1 vertex-level query AND >=1 split-line query AND both inside and outside oracle answers observed. Tolerance: 1e-9 x (max(size, max|coord|) + distance) " +
		"for magnitudes; sign compared only if the oracle distance exceeds it. Violations are labelled (finding key) by input-side preconditions only: vertex within 1e-9 of " +
		"a split line, edge through a split corner, query next to a split line that has a non-identical twin.")
	c.Assume("generated polygons have |coordinate| <= 2^22 (sizes up to 1.4e6); beyond 2^23 float64 spacing exceeds the library's absolute 1e-9 clip tolerance - one pinned witness of that limitation is a known finding")
	c.Assume("fine-detail polygons (size below 0.14) are compared with an additional absolute 1e-9: the library snaps clipped end points onto quadtree box edges within its package tolerance of 1e-9")
	c.Assume("polygons with edges shorter than 1e-6 x size are outside the generated domain (VertexToLine closes the loop with an absolute 1e-9 tolerance)")
	c.Assume("oracle distance is float64 brute force (rounding ~1e-15 relative); inside/outside is exact")
	if err := c04SelfTest(c); err != nil {
		c.Inconclusive("oracle self-test failed: " + err.Error())
		return
	}
	c04RunPins(c)
	c04RunHuge(c)
	nPoly := c.Pick(6000, 30000)
	maxPts := c.Pick(4000, 20000)
	parallelFor(nPoly, func(i int) {
		cs := c04Generate(c, i)
		if cs == nil {
			c.Count("generator_gave_up", 1)
			return
		}
		if i < 3 {
			s := *cs
			if len(s.V) > 12 {
				s.V = s.V[:12]
			}
			c.Sample(s)
		}
		nPts := c.Pick(500, 1500) + c.Pick(100, 400)*cs.N
		if nPts > maxPts {
			nPts = maxPts
		}
		c04RunPolygon(c, cs, nPts)
	})
	c.Floor(c.Pick(4000, 20000))
}

// replayC04 re-evaluates one recorded witness.
func replayC04(c *Ctx, path string) {
	b, err := os.ReadFile(path)
	if err != nil {
		c.Inconclusive(err.Error())
		return
	}
	var rp struct {
		Seed uint64     `json:"seed"`
		Case c04Witness `json:"case"`
	}
	if err := json.Unmarshal(b, &rp); err != nil || rp.Case.Case == nil {
		c.Inconclusive("replay file not understood")
		return
	}
	cs := rp.Case.Case
	if len(cs.V) == 0 { // big polygon: regenerate from (seed, index)
		c.Seed = rp.Seed
		if g := c04Generate(c, cs.Index); g != nil {
			cs = g
		}
	}
	fast, slow, g, err := c04Build(cs.V, cs.Shuffle)
	if err != nil {
		c.Violate("", "construct "+err.Error(), cs)
		return
	}
	p := rp.Case.P
	f, s, o := fast.Evaluate(p), slow.Evaluate(p), c04Eval(cs.V, p)
	c.Eval(1)
	fmt.Printf("replay: p=%v fast=%.17g slow=%.17g oracle inside=%v dist=%.17g\n", p, f, s, o.inside, o.dist)
	if kind := c04Judge(f, s, o, c04Tol(g.scale, o)); kind != "" {
		c.Violate("", kind+" (replay)", rp.Case)
	}
}
