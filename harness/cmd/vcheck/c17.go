//go:build verif

// C17 - profile builders (Polygon Smooth/Chamfer/Arc/Rel/Polar, Nagon, Bezier)
// produce the geometry they specify. The library output (Polygon.Vertices(),
// Bezier.Polygon().Vertices()) is compared with independent constructions
// (c17_oracle.go).
package main

import (
	"bufio"
	"fmt"
	"math"
	"os"
	"strings"
	"sync"

	"github.com/deadsy/sdfx/sdf"
)

func init() { checks["C17"] = checkC17 }

const (
	c17Tol    = 1e-9 // x scale: position tolerance for every constructed / on-curve point
	c17TolEnd = 0    // "exactly": the end control points themselves (a closed curve must end bit-exactly where it starts, or the polygon has a gap)
)

// c17RunPoly drives the real polygon builder.
func c17RunPoly(s *c17Poly) (out []c17P, panicked string) {
	defer func() {
		if r := recover(); r != nil {
			panicked = fmt.Sprint(r)
		}
	}()
	p := sdf.NewPolygon()
	for i, v := range s.V {
		if i > 0 && s.Look&(1<<(uint(i-1)%62)) != 0 {
			p.Vertices() // the program looks at the outline built so far (to size something, to print it)
		}
		pv := p.Add(v.X, v.Y)
		if v.Polar {
			pv.Polar()
		}
		if v.Rel {
			pv.Rel()
		}
		switch v.Kind {
		case "smooth":
			pv.Smooth(v.Radius, v.Facets)
		case "chamfer":
			pv.Chamfer(v.Radius)
		case "arc":
			pv.Arc(v.Radius, v.Facets)
		}
	}
	if s.Look != 0 && len(s.V) > 0 && s.Look&(1<<(uint(len(s.V)-1)%62)) != 0 {
		p.Vertices()
	}
	if s.Closed {
		p.Close()
	}
	if s.Reverse {
		p.Reverse()
	}
	for _, v := range p.Vertices() {
		out = append(out, c17P{v.X, v.Y})
	}
	return out, ""
}

// c17Compare: same length and pointwise equal within tol; a closed polygon may
// start at any vertex of the cycle (order and direction still have to match).
func c17Compare(got, exp []c17P, tol float64, closed bool) (ok bool, worst float64, rot int, detail string) {
	if len(got) != len(exp) {
		return false, math.Inf(1), 0, fmt.Sprintf("got %d vertices, expected %d", len(got), len(exp))
	}
	n := len(exp)
	try := func(k int) (float64, int) {
		w, wi := 0.0, 0
		for i := range exp {
			d := c17Dist(got[(i+k)%n], exp[i])
			if !(d <= w) { // NaN-safe
				w, wi = d, i
			}
		}
		return w, wi
	}
	w0, wi0 := try(0)
	if w0 <= tol {
		return true, w0, 0, ""
	}
	if closed {
		for k := 1; k < n; k++ {
			if c17Dist(got[k], exp[0]) <= tol {
				if w, _ := try(k); w <= tol {
					return true, w, k, ""
				}
			}
		}
	}
	return false, w0, 0, fmt.Sprintf("vertex %d: got %v expected %v (off by %.3g, tol %.3g)", wi0, got[wi0], exp[wi0], w0, tol)
}

//-----------------------------------------------------------------------------
// polygon generators

var c17AngleBands = [][2]float64{{1, 5}, {5, 30}, {30, 80}, {80, 100}, {90, 90}, {100, 150}, {150, 175}, {175, 179}}

func c17Facets(r *Rng) int {
	if r.P(0.4) {
		return pickOne(r, []int{1, 2, 3, 4, 5, 7, 8, 16, 31, 32})
	}
	return r.IR(1, 32)
}

// a frame: random rotation, translation and scale.
type c17Frame struct {
	o      c17P
	rot, s float64
}

func c17NewFrame(r *Rng) c17Frame {
	s := r.LogR(1e-2, 1e3)
	f := c17Frame{s: s, rot: r.R(0, 2*math.Pi)}
	if r.P(0.3) {
		f.rot = float64(r.I(4)) * math.Pi / 2
	}
	if r.P(0.7) {
		f.o = c17P{r.R(-10, 10) * s, r.R(-10, 10) * s}
	}
	return f
}

// radius such that the tangent length at corner a-v-b is d1.
func c17RadiusFor(a, v, b c17P, d1 float64) float64 {
	u0, u1 := a.sub(v).unit(), b.sub(v).unit()
	th := math.Atan2(math.Abs(u0.cross(u1)), u0.dot(u1))
	if th < math.Pi/180 || th > 179*math.Pi/180 {
		return 0 // outside the 1..179 degree domain: leave the vertex alone
	}
	return d1 * math.Tan(th/2)
}

// single corner with a chosen interior angle, turning direction and fit.
func c17GenCorner(r *Rng) c17Poly {
	fr := c17NewFrame(r)
	band := pickOne(r, c17AngleBands)
	th := r.R(band[0], band[1]) * math.Pi / 180
	if r.P(0.15) {
		th = math.Round(th*180/math.Pi) * math.Pi / 180 // whole degrees incl. 1, 90, 179
	}
	turn := r.Sign()
	chamfer := r.P(0.25)
	d1 := r.LogR(0.01, 1) * fr.s
	la, lb := d1*r.LogR(1.03, 20), d1*r.LogR(1.03, 20)
	switch r.I(6) { // 0..2 fits, 3 prev edge too short, 4 next edge too short, 5 both
	case 3:
		la = d1 * r.R(0.05, 0.97)
	case 4:
		lb = d1 * r.R(0.05, 0.97)
	case 5:
		la, lb = d1*r.R(0.05, 0.97), d1*r.R(0.05, 0.97)
	}
	v := fr.o
	a := v.add(c17Polar(la, fr.rot))
	b := v.add(c17Polar(lb, fr.rot+turn*th))
	rad := c17RadiusFor(a, v, b, d1)
	cv := c17PV{X: v.X, Y: v.Y, Kind: "smooth", Radius: rad, Facets: c17Facets(r)}
	if chamfer {
		cv.Kind, cv.Radius, cv.Facets = "chamfer", rad*math.Sqrt2, 0
	}
	pa, pb := c17PV{X: a.X, Y: a.Y}, c17PV{X: b.X, Y: b.Y}
	s := c17Poly{Gen: "corner", Closed: r.P(0.6), Reverse: r.P(0.15)}
	switch {
	case !s.Closed:
		s.V = []c17PV{pa, cv, pb}
		if r.P(0.3) { // a longer open path
			far := a.add(c17Polar(la, fr.rot+1))
			s.V = append([]c17PV{{X: far.X, Y: far.Y}}, s.V...)
		}
	case r.P(0.34): // smoothed vertex is the first / the last one of the closed list (cyclic neighbours)
		s.V = []c17PV{cv, pb, pa}
	case r.P(0.5):
		s.V = []c17PV{pb, pa, cv}
	default:
		s.V = []c17PV{pa, cv, pb}
	}
	return s
}

// star-shaped polygon, CCW or CW, several smoothed / chamfered vertices.
func c17GenMulti(r *Rng) c17Poly {
	fr := c17NewFrame(r)
	n := r.IR(3, 10)
	pts := make([]c17P, n)
	a0 := r.R(0, 2*math.Pi)
	for i := range pts {
		ang := a0 + (float64(i)+r.R(0.1, 0.9))*2*math.Pi/float64(n)
		pts[i] = fr.o.add(c17Polar(fr.s*r.R(0.3, 1.5), ang))
	}
	if r.Bool() { // clockwise
		for i, j := 0, n-1; i < j; i, j = i+1, j-1 {
			pts[i], pts[j] = pts[j], pts[i]
		}
	}
	s := c17Poly{Gen: "multi", Closed: r.P(0.75), Reverse: r.P(0.15)}
	pSmooth := r.R(0.3, 1)
	for i, p := range pts {
		v := c17PV{X: p.X, Y: p.Y}
		if r.P(pSmooth) {
			a, b := pts[(i+n-1)%n], pts[(i+1)%n]
			lmin := math.Min(c17Dist(a, p), c17Dist(b, p))
			d1 := lmin * r.R(0.03, 0.45) // two neighbours together use < 0.9 of any edge
			if r.P(0.2) {
				d1 = lmin * r.R(1.05, 3) // does not fit
			}
			v.Kind, v.Radius, v.Facets = "smooth", c17RadiusFor(a, p, b, d1), c17Facets(r)
			if v.Radius == 0 {
				v = c17PV{X: p.X, Y: p.Y}
			} else if r.P(0.25) {
				v.Kind, v.Radius, v.Facets = "chamfer", v.Radius*math.Sqrt2, 0
			}
		}
		s.V = append(s.V, v)
	}
	return s
}

// encode absolute points as a mix of absolute / relative / polar vertices.
func c17Encode(r *Rng, pts []c17P, pRel, pPolar float64) []c17PV {
	out := make([]c17PV, len(pts))
	for i, p := range pts {
		v := c17PV{X: p.X, Y: p.Y}
		if i > 0 && r.P(pRel) {
			d := p.sub(pts[i-1])
			v = c17PV{X: d.X, Y: d.Y, Rel: true}
		}
		if r.P(pPolar) {
			v.X, v.Y, v.Polar = math.Hypot(v.X, v.Y), math.Atan2(v.Y, v.X), true
		}
		out[i] = v
	}
	return out
}

func c17Path(r *Rng, fr c17Frame, n int) []c17P {
	pts := make([]c17P, n)
	p, dir := fr.o, fr.rot
	for i := range pts {
		pts[i] = p
		dir += r.R(-2.5, 2.5)
		p = p.add(c17Polar(fr.s*r.LogR(0.05, 2), dir))
	}
	return pts
}

func c17GenRelPolar(r *Rng) c17Poly {
	fr := c17NewFrame(r)
	pts := c17Path(r, fr, r.IR(2, 12))
	s := c17Poly{Gen: "relpolar", Closed: r.Bool(), Reverse: r.P(0.15)}
	s.V = c17Encode(r, pts, pickOne(r, []float64{0.3, 0.7, 1}), pickOne(r, []float64{0, 0.5, 1}))
	// In a closed outline the vertex before the first one is the last one: a relative first vertex is an offset from the
	// last vertex (which then has to be absolute). Only Close() makes that reference exist, so these outlines are not
	// looked at while they are being built (c17CheckPoly).
	if n := len(pts); s.Closed && n >= 3 && !s.V[n-1].Rel && r.P(0.4) {
		d := pts[0].sub(pts[n-1])
		v := c17PV{X: d.X, Y: d.Y, Rel: true}
		if r.P(0.3) {
			v.X, v.Y, v.Polar = math.Hypot(d.X, d.Y), math.Atan2(d.Y, d.X), true
		}
		s.V[0] = v
	}
	return s
}

// c17GenPolarAxis: outlines drawn turtle-style with polar vertices whose headings are exact multiples of 90 and 45 degrees,
// positive and negative, up to several turns (a clockwise rectangle is 0, -90, -180, -270).
func c17GenPolarAxis(r *Rng) c17Poly {
	fr := c17NewFrame(r)
	n := r.IR(3, 9)
	s := c17Poly{Gen: "polar-axis", Closed: r.Bool()}
	s.V = append(s.V, c17PV{X: fr.o.X, Y: fr.o.Y})
	step := pickOne(r, []float64{90, 90, 45, 30})
	k := r.IR(-8, 8)
	turn := pickOne(r, []int{1, -1, 1, -1, 2, -3})
	for i := 1; i < n; i++ {
		deg := float64(k) * step
		th := deg * math.Pi / 180 // what sdf.DtoR computes
		v := c17PV{X: fr.s * r.LogR(0.2, 3), Y: th, Polar: true, Rel: true}
		if r.P(0.15) {
			v.Rel = false // an absolute polar vertex: heading and distance from the origin
		}
		s.V = append(s.V, v)
		k += turn
	}
	return s
}

func c17ArcRadius(r *Rng, half float64) float64 {
	k := r.LogR(1.0005, 1000)
	switch r.I(5) {
	case 0:
		k = r.LogR(1.0005, 1.05)
	case 1:
		k = r.R(1.05, 3)
	}
	return half * k * r.Sign()
}

func c17GenArc(r *Rng) c17Poly {
	fr := c17NewFrame(r)
	pts := c17Path(r, fr, r.IR(2, 7))
	s := c17Poly{Gen: "arc", Closed: r.P(0.4), Reverse: r.P(0.15)}
	s.V = c17Encode(r, pts, pickOne(r, []float64{0, 0, 0.5}), pickOne(r, []float64{0, 0, 0.5}))
	pArc := r.R(0.3, 1)
	for i := range s.V {
		if (i > 0 || s.Closed || r.P(0.1)) && r.P(pArc) {
			prev := pts[(i+len(pts)-1)%len(pts)]
			s.V[i].Kind, s.V[i].Radius, s.V[i].Facets = "arc", c17ArcRadius(r, c17Dist(prev, pts[i])/2), c17Facets(r)
		}
	}
	if r.P(0.08) { // exact semicircle on exactly representable numbers
		k := math.Ldexp(1, r.IR(-3, 6))
		o := c17P{float64(r.IR(-4, 4)) * k, float64(r.IR(-4, 4)) * k}
		d := pickOne(r, []c17P{{2 * k, 0}, {0, 2 * k}, {-2 * k, 0}, {0, -2 * k}})
		s = c17Poly{Gen: "arc", V: []c17PV{{X: o.X, Y: o.Y}, {X: o.X + d.X, Y: o.Y + d.Y, Kind: "arc", Radius: k * r.Sign(), Facets: c17Facets(r)}}}
	}
	return s
}

// everything together, like examples/flask and examples/challenge.
func c17GenMixed(r *Rng) c17Poly {
	fr := c17NewFrame(r)
	n := r.IR(4, 9)
	pts := c17Path(r, fr, n)
	s := c17Poly{Gen: "mixed", Closed: r.P(0.6), Reverse: r.P(0.15)}
	s.V = c17Encode(r, pts, 0.5, 0.4)
	isArc := make([]bool, n)
	for i := range s.V {
		if (i > 0 || s.Closed) && r.P(0.25) {
			isArc[i] = true
			prev := pts[(i+n-1)%n]
			s.V[i].Kind, s.V[i].Radius, s.V[i].Facets = "arc", c17ArcRadius(r, c17Dist(prev, pts[i])/2), c17Facets(r)
		}
	}
	for i := range s.V {
		if isArc[i] || r.P(0.4) {
			continue
		}
		a, b := pts[(i+n-1)%n], pts[(i+1)%n]
		if j := (i + 1) % n; isArc[j] {
			// the vertex where an arc segment starts: its outgoing edge is the first facet of that arc
			if !s.Closed && j == 0 {
				continue
			}
			if ap, _, ok := c17ArcPts(pts[i], pts[j], s.V[j].Radius, s.V[j].Facets); ok && len(ap) > 0 {
				b = ap[0]
			} else if !ok {
				continue
			}
		}
		lmin := math.Min(c17Dist(a, pts[i]), c17Dist(b, pts[i]))
		d1 := lmin * r.R(0.03, 0.45)
		if r.P(0.15) {
			d1 = lmin * r.R(1.05, 3)
		}
		if rad := c17RadiusFor(a, pts[i], b, d1); rad > 0 && !math.IsInf(rad, 0) {
			s.V[i].Kind, s.V[i].Radius, s.V[i].Facets = "smooth", rad, c17Facets(r)
			if r.P(0.2) {
				s.V[i].Kind, s.V[i].Radius, s.V[i].Facets = "chamfer", rad*math.Sqrt2, 0
			}
		}
	}
	return s
}

// c17CheckPoly runs one polygon case against the oracle.
func c17CheckPoly(c *Ctx, s *c17Poly, where any) {
	e := c17ExpectPoly(s)
	for _, cn := range e.Corners {
		if cn.Ambiguous {
			c.Count("poly_skipped_fit_not_clear", 1)
			return
		}
		if cn.ThetaDeg < 0.999 || cn.ThetaDeg > 179.001 {
			c.Count("poly_skipped_corner_angle_outside_1_179", 1)
			return
		}
	}
	if e.BadArc {
		c.Count("poly_skipped_bad_arc", 1)
		return
	}
	got, pan := c17RunPoly(s)
	c.Eval(1)
	c.Count("cases_"+s.Gen, 1)
	kind := "Polygon-" + s.Gen
	if pan != "" {
		c.Violate("", fmt.Sprintf("%s panic %q for %s", kind, pan, mustJSON(s)), map[string]any{"poly": s, "where": where})
		return
	}
	tol := c17Tol * e.Scale
	ok, worst, rot, detail := c17Compare(got, e.Pts, tol, s.Closed)
	if !ok {
		c.Violate("", fmt.Sprintf("%s %s; corners=%s input=%s", kind, detail, mustJSON(e.Corners), mustJSON(s)),
			map[string]any{"poly": s, "where": where, "got": got, "expected": e.Pts})
		return
	}
	c.MaxObs("worst_dev_over_scale_"+s.Gen, worst/e.Scale)
	// history: the same outline, looked at (Vertices()) while it is being built - after every vertex, and after a PRNG-chosen
	// subset of them. Looking at an unfinished outline must not change what the finished one is. (Reverse() is left out:
	// it is defined on the vertex list as it stands.)
	if !s.Reverse && !s.V[0].Rel {
		for _, look := range []int64{-1, int64(c.Rng("c17look", len(s.V), int(math.Float64bits(s.V[0].X)%1000)).IR(1, 1<<20))} {
			s2 := *s
			s2.Look = look & (1<<62 - 1)
			got2, pan2 := c17RunPoly(&s2)
			c.Eval(1)
			if pan2 != "" {
				c.Violate("", fmt.Sprintf("%s-looked-at panic %q for %s", kind, pan2, mustJSON(&s2)), map[string]any{"poly": &s2, "where": where})
				return
			}
			if ok2, _, _, d2 := c17Compare(got2, e.Pts, tol, s.Closed); !ok2 {
				c.Violate("", fmt.Sprintf("%s-looked-at: calling Vertices() while the outline was being built (after the vertices in mask %#x) changed the finished outline: %s; input=%s", kind, s2.Look, d2, mustJSON(&s2)),
					map[string]any{"poly": &s2, "where": where, "got": got2, "expected": e.Pts})
				return
			}
			c.Count("outlines_rebuilt_with_intermediate_looks", 1)
		}
	}
	if rot != 0 {
		c.Count("closed_polygons_starting_at_other_cycle_vertex", 1)
	}
	for _, cn := range e.Corners {
		c.Distinct(fmt.Sprintf("%s/angle%d/f%d/turn%+d/fits%v", cn.Kind, c17AngleClass(cn.ThetaDeg), c17FacetBucket(cn.Facets), cn.Turn, cn.Fits))
		c.Count(fmt.Sprintf("corners_%s_fits_%v", cn.Kind, cn.Fits), 1)
		if !cn.Fits {
			which := "prev"
			if cn.D1 > cn.LenP && cn.D1 > cn.LenN {
				which = "both"
			} else if cn.D1 > cn.LenN {
				which = "next"
			}
			c.Count("nofit_edge_too_short_"+which, 1)
		}
		if cn.Kind == "chamfer" && cn.Fits && math.Abs(cn.ThetaDeg-90) < 1e-6 {
			// documented meaning of size: length of the cut on a right-angle corner
			i, n := cn.OutIdx+rot, len(got)
			if cut := c17Dist(got[i%n], got[(i+1)%n]); math.Abs(cut-cn.Spec) > tol {
				c.Violate("", fmt.Sprintf("Chamfer-size cut length %g != size %g on a 90 degree corner", cut, cn.Spec), map[string]any{"poly": s})
			}
			c.Count("chamfer_90deg_cut_length_checked", 1)
		}
	}
	for _, k := range e.ArcKeys {
		c.Distinct(k)
		c.Count("arcs_checked", 1)
	}
	nr, np := 0, 0
	for _, v := range s.V {
		if v.Rel {
			nr++
		}
		if v.Polar {
			np++
		}
	}
	if s.V[0].Rel && s.Closed {
		c.Distinct(fmt.Sprintf("relpolar/first-vertex-relative-to-last/polar%v/n%d", s.V[0].Polar, min(len(s.V), 8)))
		c.Count("closed_outlines_whose_first_vertex_is_relative_to_the_last", 1)
	}
	if nr+np > 0 {
		c.Distinct(fmt.Sprintf("relpolar/rel%d/polar%d/closed%v/rev%v", min(nr, 4), min(np, 4), s.Closed, s.Reverse))
		c.Count("rel_vertices_checked", int64(nr))
		c.Count("polar_vertices_checked", int64(np))
	}
}

//-----------------------------------------------------------------------------
// Bezier

type c17BV struct {
	X, Y float64
	Mid  bool        `json:",omitempty"`
	Fwd  *[2]float64 `json:",omitempty"` // HandleFwd(theta, r)
	Rev  *[2]float64 `json:",omitempty"` // HandleRev(theta, r)
	Both *[3]float64 `json:",omitempty"` // Handle(theta, fwd, rev)
}

type c17Bz struct {
	Gen    string
	Closed bool `json:",omitempty"`
	Twice  bool `json:",omitempty"` // Polygon() is called twice, the second result is judged
	V      []c17BV
}

type c17BzOut struct {
	pts    []c17P
	err    string
	pan    string
	closed bool
}

func c17RunBezier(s *c17Bz) (o c17BzOut) {
	defer func() {
		if r := recover(); r != nil {
			o.pan = fmt.Sprint(r)
		}
	}()
	b := sdf.NewBezier()
	for _, v := range s.V {
		bv := b.Add(v.X, v.Y)
		if v.Mid {
			bv.Mid()
		}
		if v.Fwd != nil {
			bv.HandleFwd(v.Fwd[0], v.Fwd[1])
		}
		if v.Rev != nil {
			bv.HandleRev(v.Rev[0], v.Rev[1])
		}
		if v.Both != nil {
			bv.Handle(v.Both[0], v.Both[1], v.Both[2])
		}
	}
	if s.Closed {
		b.Close()
	}
	if s.Twice {
		b.Polygon() // the curve is asked for its polygon twice (e.g. once to size something, once to build the part)
	}
	p, err := b.Polygon()
	if err != nil {
		o.err = err.Error()
		return o
	}
	o.closed = p.Closed()
	for _, v := range p.Vertices() {
		o.pts = append(o.pts, c17P{v.X, v.Y})
	}
	return o
}

// c17Spans resolves handles and closure into the control polygons of the spans.
func c17Spans(s *c17Bz) (spans [][]c17P, hasHandles bool) {
	type cv struct {
		p   c17P
		mid bool
	}
	var l []cv
	for _, v := range s.V {
		p := c17P{v.X, v.Y}
		if v.Mid {
			l = append(l, cv{p, true})
			continue
		}
		var fwd, rev *[2]float64
		fwd, rev = v.Fwd, v.Rev
		if v.Both != nil {
			fwd, rev = &[2]float64{v.Both[0], v.Both[1]}, &[2]float64{v.Both[0] + math.Pi, v.Both[2]}
		}
		if rev != nil {
			l = append(l, cv{p.add(c17Polar(rev[1], rev[0])), true})
		}
		l = append(l, cv{p, false})
		if fwd != nil {
			l = append(l, cv{p.add(c17Polar(fwd[1], fwd[0])), true})
		}
		hasHandles = hasHandles || fwd != nil || rev != nil
	}
	k := 0
	for k < len(l) && l[k].mid {
		k++
	}
	l = append(l[k:], l[:k]...) // a reverse handle of the first vertex belongs to the closing span
	if s.Closed && (l[len(l)-1].mid || l[len(l)-1].p != l[0].p) {
		l = append(l, l[0])
	}
	var cur []c17P
	for i, v := range l {
		cur = append(cur, v.p)
		if !v.mid && i > 0 {
			spans = append(spans, cur)
			cur = []c17P{v.p}
		}
	}
	return spans, hasHandles
}

func c17CheckBezier(c *Ctx, s *c17Bz, o c17BzOut, where any) {
	c.Eval(1)
	c.Count("cases_bezier", 1)
	rp := map[string]any{"bezier": s, "where": where, "got": o.pts}
	if o.pan != "" || o.err != "" {
		c.Violate("", fmt.Sprintf("Bezier-error valid curve rejected: panic=%q err=%q input=%s", o.pan, o.err, mustJSON(s)), rp)
		return
	}
	spans, handles := c17Spans(s)
	scale := 0.0
	for _, sp := range spans {
		for _, p := range sp {
			scale = math.Max(scale, math.Max(math.Abs(p.X), math.Abs(p.Y)))
		}
	}
	tol, tolEnd := c17Tol*scale, c17TolEnd*scale
	fail := func(kind, msg string) {
		c.Violate("", fmt.Sprintf("Bezier-%s %s; spans=%s input=%s", kind, msg, mustJSON(spans), mustJSON(s)), rp)
	}
	got := o.pts
	if len(got) < 2 {
		fail("count", fmt.Sprintf("only %d vertices", len(got)))
		return
	}
	first, last := spans[0][0], spans[len(spans)-1][len(spans[len(spans)-1])-1]
	if d := c17Dist(got[0], first); !(d <= tolEnd) {
		fail("ends", fmt.Sprintf("first vertex %v is not the first end point %v", got[0], first))
		return
	}
	if d := c17Dist(got[len(got)-1], last); !(d <= tolEnd) {
		fail("ends", fmt.Sprintf("last vertex %v is not the last end point %v (closed=%v)", got[len(got)-1], last, s.Closed))
		return
	}
	c.MaxObs("bezier_worst_endpoint_dev_over_scale", math.Max(c17Dist(got[0], first), c17Dist(got[len(got)-1], last))/scale)
	// match every vertex to the smallest admissible global parameter u = span + t
	const g = 256
	grids := make([][]c17P, len(spans))
	for k, sp := range spans {
		grids[k] = make([]c17P, g+1)
		for j := range grids[k] {
			grids[k][j], _, _ = c17Bez(sp, float64(j)/g)
		}
	}
	const slack = 1e-7
	us := make([]float64, len(got))
	uPrev, span := 0.0, 0
	worst := 0.0
	for i, v := range got {
		found := false
		offCurve := math.Inf(1)
		for k := span; k < len(spans) && !found; k++ {
			ts, best := c17Closest(spans[k], grids[k], v, tol)
			offCurve = math.Min(offCurve, best)
			bu := math.Inf(1)
			for _, t := range ts {
				if u := float64(k) + t; u >= uPrev-slack && u < bu {
					bu = u
				}
			}
			if !math.IsInf(bu, 1) {
				found, span = true, k
				us[i] = bu
				b, _, _ := c17Bez(spans[k], bu-float64(k))
				worst = math.Max(worst, c17Dist(b, v))
			}
		}
		if !found {
			// on the curve at all (some earlier span / parameter)?
			on := false
			for k := 0; k < len(spans); k++ {
				if ts, _ := c17Closest(spans[k], grids[k], v, tol); len(ts) > 0 {
					on = true
				}
			}
			if on {
				fail("order", fmt.Sprintf("vertex %d %v lies on the curve only before the parameter %.9g of vertex %d", i, v, uPrev, i-1))
			} else {
				fail("offcurve", fmt.Sprintf("vertex %d %v is %.3g away from the curve (tol %.3g)", i, v, offCurve, tol))
			}
			return
		}
		if i > 0 && us[i] <= uPrev+1e-9 && c17Dist(v, got[i-1]) <= tol {
			fail("order", fmt.Sprintf("vertex %d repeats vertex %d (%v): parameter not strictly increasing (u=%.9g)", i, i-1, v, us[i]))
			return
		}
		uPrev = us[i]
	}
	c.MaxObs("bezier_worst_offcurve_over_scale", worst/scale)
	// every span's end point appears, each span has at least its two ends, a degree-1 span nothing else
	for k, sp := range spans {
		inside, end := 0, false
		for i, u := range us {
			if u > float64(k)+1e-6 && u < float64(k+1)-1e-6 {
				inside++
			}
			if math.Abs(u-float64(k+1)) <= 1e-6 && c17Dist(got[i], sp[len(sp)-1]) <= tolEnd {
				end = true
			}
		}
		if !end {
			fail("ends", fmt.Sprintf("end point %v of span %d is not a vertex of the polyline", sp[len(sp)-1], k))
			return
		}
		if len(sp) == 2 && inside != 0 {
			fail("line", fmt.Sprintf("straight span %d got %d interior vertices", k, inside))
			return
		}
		c.Distinct(fmt.Sprintf("bezier/deg%d/spans%d/closed%v/handles%v", len(sp)-1, min(len(spans), 4), s.Closed, handles))
		c.Count(fmt.Sprintf("bezier_spans_degree_%d", len(sp)-1), 1)
		c.MaxObs("bezier_max_vertices_in_one_span", float64(inside+2))
	}
	c.Count("bezier_vertices_matched", int64(len(got)))
	if s.Closed {
		c.Count("bezier_closed_curves", 1)
		if o.closed {
			c.Count("bezier_closed_polygon_flag_set", 1)
		}
	}
}

// c17GenBezier: 1..5 spans of degree 1..4 from Mid() points and/or handles.
func c17GenBezier(r *Rng) c17Bz {
	fr := c17NewFrame(r)
	ns := r.IR(1, 5)
	s := c17Bz{Gen: "bezier", Closed: r.P(0.4)}
	ends := c17Path(r, fr, ns+1)
	for i := 1; i < len(ends); i++ { // keep end points well separated
		for c17Dist(ends[i], ends[i-1]) < 0.2*fr.s {
			ends[i] = ends[i].add(c17Polar(fr.s, r.R(0, 7)))
		}
	}
	explicitClose := s.Closed && r.P(0.3) // the user repeats the first point as the last end point
	nv := len(ends)
	nspan := ns
	if s.Closed {
		nspan = ns + 1
	}
	type hs struct{ fwd, rev *[2]float64 }
	h := make([]hs, nv+1) // h[nv] = the repeated first point when closing explicitly
	mids := make([][]c17P, nspan)
	style := r.I(4) // 0 mids only, 1 handles only, 2 mixed, 3 all straight / low degree
	for k := 0; k < nspan; k++ {
		a, b := ends[k%nv], ends[(k+1)%nv]
		budget := r.IR(0, 3)
		if style == 3 {
			budget = r.I(2)
		}
		useF, useR := false, false
		if style == 1 || style == 2 && r.Bool() {
			useF, useR = budget >= 1 && r.P(0.7), budget >= 2 && r.P(0.7)
			if r.Bool() {
				useF, useR = useR, useF
			}
		}
		if useF {
			h[k%nv].fwd = &[2]float64{r.R(-math.Pi, math.Pi), fr.s * r.LogR(0.05, 2)}
			budget--
		}
		endIdx := (k + 1) % nv
		if explicitClose && k == nspan-1 {
			endIdx = nv
		}
		if useR {
			h[endIdx].rev = &[2]float64{r.R(-math.Pi, math.Pi), fr.s * r.LogR(0.05, 2)}
			budget--
		}
		if style == 1 {
			budget = 0
		}
		for j := 0; j < budget; j++ {
			t := (float64(j) + 1) / float64(budget+1)
			m := a.mul(1 - t).add(b.mul(t)).add(c17P{r.N(), r.N()}.mul(fr.s * r.LogR(0.01, 1)))
			if r.P(0.05) {
				m = a.mul(1 - t).add(b.mul(t)) // control point exactly on the chord: degree-elevated line
			}
			mids[k] = append(mids[k], m)
		}
	}
	emit := func(p c17P, x hs) {
		v := c17BV{X: p.X, Y: p.Y}
		switch {
		case x.fwd != nil && x.rev != nil && r.P(0.5):
			// smooth joint: Handle(theta, fwd, rev) puts the reverse handle at theta+pi
			v.Both = &[3]float64{x.fwd[0], x.fwd[1], x.rev[1]}
		default:
			v.Fwd, v.Rev = x.fwd, x.rev
		}
		s.V = append(s.V, v)
	}
	for k := 0; k < nv; k++ {
		emit(ends[k], h[k])
		if k < nspan {
			for _, m := range mids[k] {
				s.V = append(s.V, c17BV{X: m.X, Y: m.Y, Mid: true})
			}
		}
	}
	if explicitClose {
		emit(ends[0], h[nv])
	}
	return s
}

//-----------------------------------------------------------------------------

func c17CheckNagon(c *Ctx, n int, radius float64) {
	c.Eval(1)
	c.Count("cases_nagon", 1)
	vs := sdf.Nagon(n, radius)
	rp := map[string]any{"nagon": n, "radius": radius}
	if len(vs) != n {
		c.Violate("", fmt.Sprintf("Nagon-count Nagon(%d,%g) returned %d vertices", n, radius, len(vs)), rp)
		return
	}
	tol := c17Tol * radius
	side := 2 * radius * math.Sin(math.Pi/float64(n))
	worst := 0.0
	for i := range vs {
		p, q := c17P{vs[i].X, vs[i].Y}, c17P{vs[(i+1)%n].X, vs[(i+1)%n].Y}
		want := c17Polar(radius, 2*math.Pi*float64(i)/float64(n)) // first vertex on +x, counter-clockwise
		dr, ds, dp := math.Abs(p.len()-radius), math.Abs(c17Dist(p, q)-side), c17Dist(p, want)
		worst = math.Max(worst, math.Max(dr, math.Max(ds, dp)))
		if !(dr <= tol && ds <= tol && p.cross(q) > 0) {
			c.Violate("", fmt.Sprintf("Nagon-regular Nagon(%d,%g): vertex %d %v radius off %.3g, side to next off %.3g (side %g)", n, radius, i, p, dr, ds, side), rp)
			return
		}
		if !(dp <= tol) {
			c.Violate("", fmt.Sprintf("Nagon-position Nagon(%d,%g): vertex %d %v expected %v", n, radius, i, p, want), rp)
			return
		}
	}
	c.MaxObs("worst_dev_over_scale_nagon", worst/radius)
	c.Distinct(fmt.Sprintf("nagon/n%d", min(n, 40)))
}

// probes of regions the statement leaves open: observed and reported, never alarmed.
func c17Probes(c *Ctx) {
	r := c.Rng("probe")
	// (1) two adjacent smoothed vertices competing for one edge (each tangent length 0.7 of it)
	outcomes := map[string]int{}
	for it := 0; it < 200; it++ {
		L := r.LogR(0.1, 100)
		d1 := 0.7 * L
		s := c17Poly{Gen: "probe", Closed: true, V: []c17PV{{X: 0, Y: 0, Kind: "smooth", Radius: d1, Facets: 4},
			{X: L, Y: 0, Kind: "smooth", Radius: d1, Facets: 4}, {X: L, Y: 5 * L}, {X: 0, Y: 5 * L}}}
		got, pan := c17RunPoly(&s)
		outcomes[fmt.Sprintf("vertices=%d panic=%v", len(got), pan != "")]++
	}
	c.Obs("probe_adjacent_fillets_competing_for_an_edge", outcomes)
	// (2) first vertex relative
	for _, closed := range []bool{false, true} {
		s := c17Poly{Closed: closed, V: []c17PV{{X: 1, Y: 1, Rel: true}, {X: 2, Y: 0, Rel: true}, {X: 0, Y: 3}}}
		got, pan := c17RunPoly(&s)
		c.Obs(fmt.Sprintf("probe_first_vertex_relative_closed_%v", closed), fmt.Sprintf("panic=%q vertices=%v", pan, got))
	}
	// (3) semicircle arcs whose radius equals half the chord only up to rounding
	nan, tot := 0, 0
	for it := 0; it < 2000; it++ {
		a, b := c17P{r.R(-5, 5), r.R(-5, 5)}, c17P{r.R(-5, 5), r.R(-5, 5)}
		s := c17Poly{V: []c17PV{{X: a.X, Y: a.Y}, {X: b.X, Y: b.Y, Kind: "arc", Radius: c17Dist(a, b) / 2, Facets: 6}}}
		got, _ := c17RunPoly(&s)
		tot++
		for _, p := range got {
			if math.IsNaN(p.X) || math.IsNaN(p.Y) {
				nan++
				break
			}
		}
	}
	c.Obs("probe_semicircle_radius_eq_half_chord_inexact", fmt.Sprintf("%d of %d polygons contain NaN vertices", nan, tot))
	// (4) smoothing a straight (180 degree) vertex
	{
		s := c17Poly{V: []c17PV{{X: 0, Y: 0}, {X: 1, Y: 0, Kind: "smooth", Radius: 0.1, Facets: 3}, {X: 2, Y: 0}}}
		got, pan := c17RunPoly(&s)
		c.Obs("probe_smooth_180_degree_vertex", fmt.Sprintf("panic=%q vertices=%v", pan, got))
	}
	// (5) Bezier whose last span is a single repeated point
	{
		s := c17Bz{V: []c17BV{{X: 0, Y: 0}, {X: 1, Y: 1, Mid: true}, {X: 2, Y: 0}, {X: 2, Y: 0}}}
		o := c17RunBezier(&s)
		c.Obs("probe_bezier_trailing_point_span", fmt.Sprintf("err=%q panic=%q last=%v (end point is (2,0))", o.err, o.pan, o.pts[max(len(o.pts)-1, 0):]))
	}
}

func checkC17(c *Ctx) {
	c.Rule("polygons: single corners (interior angle 1..179 deg in 8 bands incl. exactly 90, both turning directions, fits / prev / next / both edges too short, " +
		"smoothed vertex also first/last of a closed list), star polygons CW/CCW with several fillets+chamfers, arcs (radius/half-chord 1.0005..1000 and exact semicircles, both signs, " +
		"facets 1..32), Rel/Polar chains, mixed profiles, Reverse; Nagon n=3..200; Bezier 1..5 spans of degree 1..4 from Mid() points, HandleFwd/HandleRev/Handle, open/closed " +
		"(implicit and explicit closure). Distinct non-trivial = (feature kind, angle band or degree or radius-ratio class, facets bucket, turning direction / sign, fits or not) " +
		"counted only when the library really produced the feature and it matched the independent construction.")
	c.Assume("fit/no-fit is only judged when clear by a 2% margin and adjacent fillets together use < 98% of their common edge; the competition region is probed and reported, not judged")
	c.Assume("arc sign convention (fixed by the code and examples/challenge/cc18.go, the doc comment only says the sign selects the side): radius>0 puts the centre on the right of previous->this vertex, the minor arc bulges left")
	c.Assume("Chamfer(size) = documented 1-facet fillet of radius size/sqrt(2) (cut length = size on a right angle); Bezier end points are demanded bit-exactly, handles r>0")
	if err := c17SelfTest(c); err != nil {
		c.Inconclusive("oracle self-test failed: " + err.Error())
		return
	}
	// polygons
	gens := []func(*Rng) c17Poly{c17GenCorner, c17GenCorner, c17GenCorner, c17GenMulti, c17GenMulti, c17GenArc, c17GenArc, c17GenRelPolar, c17GenMixed, c17GenMixed, c17GenPolarAxis}
	nPoly := c.Pick(2200, 44000)
	var sampleMu sync.Mutex
	sampled := map[string]bool{}
	parallelFor(nPoly, func(i int) {
		r := c.Rng("poly", i)
		s := gens[i%len(gens)](r)
		sampleMu.Lock()
		if !sampled[s.Gen] && len(sampled) < 4 {
			sampled[s.Gen] = true
			c.Sample(s)
		}
		sampleMu.Unlock()
		c17CheckPoly(c, &s, map[string]any{"stream": "poly", "index": i})
	})
	c17PinnedLookArc(c)
	// N-gons
	rn := c.Rng("nagon")
	for i := 0; i < c.Pick(150, 2000); i++ {
		n := 3 + i%38
		if i%5 == 4 {
			n = rn.IR(41, 200)
		}
		c17CheckNagon(c, n, rn.LogR(1e-3, 1e3))
	}
	if sdf.Nagon(2, 1) != nil {
		c.Violate("", "Nagon-count Nagon(2,1) is not nil", nil)
	}
	// Bezier: the library shares one unsynchronised rand.Rand between all samplers and prints
	// recursion warnings, so the library calls run sequentially with stdout captured.
	nBez := c.Pick(800, 16000)
	specs := make([]c17Bz, nBez)
	outs := make([]c17BzOut, nBez)
	for i := range specs {
		specs[i] = c17GenBezier(c.Rng("bezier", i))
		specs[i].Twice = i%3 == 2
	}
	warnings := c17CaptureStdout(func() {
		for i := range specs {
			outs[i] = c17RunBezier(&specs[i])
		}
		c17Probes(c)
	})
	c.Obs("bezier_recursion_limit_warnings_printed", warnings)
	c.Sample(specs[0])
	parallelFor(nBez, func(i int) {
		c17CheckBezier(c, &specs[i], outs[i], map[string]any{"stream": "bezier", "index": i})
	})
	c17Loops(c)
	c.Floor(c.Pick(250, 400))
}

// c17CaptureStdout runs fn with os.Stdout redirected and returns the number of warning lines.
func c17CaptureStdout(fn func()) int {
	old := os.Stdout
	pr, pw, err := os.Pipe()
	if err != nil {
		fn()
		return -1
	}
	os.Stdout = pw
	done := make(chan int)
	go func() {
		n := 0
		sc := bufio.NewScanner(pr)
		sc.Buffer(make([]byte, 1<<20), 1<<20)
		for sc.Scan() {
			if strings.HasPrefix(sc.Text(), "warn:") {
				n++
			}
		}
		done <- n
	}()
	defer func() { os.Stdout = old }()
	fn()
	pw.Close()
	os.Stdout = old
	return <-done
}

// c17PinnedLookArc: regression witness of the repaired defect polygon-arc-on-first-vertex-lost-after-look (the closing
// segment of a closed outline is an arc, and the outline is looked at before it is closed).
func c17PinnedLookArc(c *Ctx) {
	s := c17Poly{Gen: "arc", Closed: true, V: []c17PV{
		{X: 0, Y: 0, Kind: "arc", Radius: -8, Facets: 6},
		{X: 10, Y: 0},
		{X: 10, Y: 10},
	}}
	c17CheckPoly(c, &s, "pinned: arc on the first vertex, looked at before Close()")
}
