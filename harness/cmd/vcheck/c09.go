//go:build verif

// C09 - rendering is deterministic across runs, schedules and CPU counts.
package main

import (
	"archive/zip"
	"bytes"
	"crypto/sha256"
	"encoding/binary"
	"encoding/hex"
	"encoding/json"
	"fmt"
	"hash/fnv"
	"io"
	"math"
	"os"
	"path/filepath"
	"runtime"
	"sort"
	"strconv"
	"strings"
	"sync"
	"sync/atomic"
	"time"

	"github.com/deadsy/sdfx/obj"
	"github.com/deadsy/sdfx/render"
	"github.com/deadsy/sdfx/sdf"
	v2 "github.com/deadsy/sdfx/vec/v2"
	v3 "github.com/deadsy/sdfx/vec/v3"
	"github.com/hpinc/go3mf"
)

func init() {
	checks["C09"] = checkC09
	children["c09-run"] = childC09
}

// models ---------------------------------------------------------------------

var c09Models3 = map[string]sdf.SDF3{}
var c09Models2 = map[string]sdf.SDF2{}

// c09BuildModels constructs every model once, in a fixed order, before anything is rendered: model construction
// (text / Bezier sampling) draws from a process-wide seeded random source, so the constructed geometry depends on
// how many shapes were built before - that is construction, not rendering, and is kept identical in every process.
func c09BuildModels() {
	for _, m := range []string{"sphere", "csg", "text", "bolt", "stl", "twist", "graze"} {
		c09Models3[m] = c09Make3(m)
	}
	for _, m := range []string{"circlebox", "text2", "gear"} {
		c09Models2[m] = c09Make2(m)
	}
}

func c09Model3(name string) sdf.SDF3 { return c09Models3[name] }
func c09Model2(name string) sdf.SDF2 { return c09Models2[name] }

func c09Make3(name string) sdf.SDF3 {
	switch name {
	case "sphere":
		s, _ := sdf.Sphere3D(1.3)
		return sdf.Transform3D(s, sdf.Translate3d(v3.Vec{X: 0.37, Y: -0.21, Z: 0.11}))
	case "csg":
		a, _ := sdf.Box3D(v3.Vec{X: 3, Y: 2, Z: 1.5}, 0.2)
		b, _ := sdf.Cylinder3D(3, 0.6, 0.1)
		c, _ := sdf.Sphere3D(1.1)
		u := sdf.Union3D(a, sdf.Transform3D(c, sdf.Translate3d(v3.Vec{X: 1.2, Z: 0.6})))
		u.(*sdf.UnionSDF3).SetMin(sdf.PolyMin(0.3))
		return sdf.Difference3D(u, sdf.Transform3D(b, sdf.RotateX(0.4)))
	case "text":
		f, err := sdf.LoadFont("/repo/files/cmr10.ttf")
		if err != nil {
			return nil
		}
		t, err := sdf.Text2D(f, sdf.NewText("sdf"), 10)
		if err != nil {
			return nil
		}
		return sdf.Extrude3D(t, 2)
	case "bolt":
		s, err := obj.Bolt(&obj.BoltParms{Thread: "M8x1.25", Style: "hex", TotalLength: 12, ShankLength: 3})
		if err != nil {
			return nil
		}
		return s
	case "twist": // a field that overestimates distances (gradient > 1): nothing may rely on it being a true distance
		l := sdf.NewPolygon()
		l.Add(0, 0)
		l.Add(3, 0)
		l.Add(3, 1)
		l.Add(1, 1)
		l.Add(1, 3)
		l.Add(0, 3)
		p, err := sdf.Polygon2D(l.Vertices())
		if err != nil {
			return nil
		}
		return sdf.TwistExtrude3D(p, 4, 2.5)
	case "graze": // a surface that passes 1e-9 from dozens of lattice nodes (20 cells over a 20 unit box):
		// slivers whose vertices coincide once rounded to float32 - anything a writer does about them has to be deterministic
		b, _ := sdf.Box3D(v3.Vec{X: 20, Y: 20, Z: 20}, 0)
		// the uniform renderer samples this box at half-integer coordinates; 62.75 is a sum of three squared half-integers in 168 ways
		sp, _ := sdf.Sphere3D(math.Sqrt(62.75) + 1e-9)
		return sdf.Intersect3D(b, sp)
	case "stl":
		s, err := obj.ImportSTL("/repo/files/teapot.stl", 20, 3, 5)
		if err != nil {
			return nil
		}
		return s
	}
	return nil
}

func c09Make2(name string) sdf.SDF2 {
	switch name {
	case "circlebox":
		a, _ := sdf.Circle2D(1)
		return sdf.Union2D(a, sdf.Transform2D(sdf.Box2D(v2.Vec{X: 1.5, Y: 0.7}, 0.1), sdf.Translate2d(v2.Vec{X: 0.8, Y: 0.3})))
	case "text2":
		f, err := sdf.LoadFont("/repo/files/cmr10.ttf")
		if err != nil {
			return nil
		}
		t, _ := sdf.Text2D(f, sdf.NewText("go"), 10)
		return t
	case "gear":
		s, err := obj.InvoluteGear(&obj.InvoluteGearParms{NumberTeeth: 12, Module: 1, PressureAngle: sdf.DtoR(20), RingWidth: 0.5, Facets: 5})
		if err != nil {
			return nil
		}
		return s
	}
	return nil
}

// perturbing wrapper -----------------------------------------------------------

type perturb struct {
	policy string
	seed   uint64
	calls  int64
	mu     sync.Mutex
	fp     uint64 // order-sensitive fingerprint of (goroutine, point) arrival order
	gids   map[uint64]int
}

func goid() uint64 {
	var b [64]byte
	n := runtime.Stack(b[:], false)
	s := strings.TrimPrefix(string(b[:n]), "goroutine ")
	if i := strings.IndexByte(s, ' '); i > 0 {
		id, _ := strconv.ParseUint(s[:i], 10, 64)
		return id
	}
	return 0
}

func (p *perturb) hit(key uint64) {
	n := atomic.AddInt64(&p.calls, 1)
	switch p.policy {
	case "light": // high-volume renders: count only
		return
	case "halfbusy": // value-preserving, but evaluations in one half of space are slow
		if key&1 == 0 && n%7 == 0 {
			spin(2 * time.Microsecond)
		}
		return
	case "block": // stall the worker that picked up this batch (every batch of the blocker render)
		if n%100 == 1 {
			time.Sleep(15 * time.Millisecond)
		}
		return
	}
	g := goid()
	p.mu.Lock()
	gi, ok := p.gids[g]
	if !ok {
		gi = len(p.gids)
		p.gids[g] = gi
	}
	h := fnv.New64a()
	var buf [24]byte
	binary.LittleEndian.PutUint64(buf[0:], p.fp)
	binary.LittleEndian.PutUint64(buf[8:], uint64(gi))
	binary.LittleEndian.PutUint64(buf[16:], key)
	h.Write(buf[:])
	p.fp = h.Sum64()
	p.mu.Unlock()
	// splitmix on (seed, n): which delay, decided per call
	z := (p.seed + uint64(n)) * 0x9E3779B97F4A7C15
	z = (z ^ (z >> 30)) * 0xBF58476D1CE4E5B9
	z ^= z >> 27
	switch p.policy {
	case "gosched":
		if z%3 == 0 {
			runtime.Gosched()
		}
	case "spin":
		if z%4 == 0 {
			spin(time.Duration(1+z%50) * time.Microsecond)
		}
	case "sleep":
		if z%64 == 0 {
			time.Sleep(time.Duration(1+z%200) * time.Microsecond)
		}
	case "starve": // one worker is made much slower than the others
		if gi == 0 {
			spin(time.Duration(20+z%80) * time.Microsecond)
		}
	}
}

func spin(d time.Duration) {
	t0 := time.Now()
	for time.Since(t0) < d {
	}
}

type pertSDF3 struct {
	s sdf.SDF3
	p *perturb
}

func (w *pertSDF3) Evaluate(p v3.Vec) float64 {
	w.p.hit(math.Float64bits(p.X)*31 ^ math.Float64bits(p.Y)*17 ^ math.Float64bits(p.Z))
	return w.s.Evaluate(p)
}
func (w *pertSDF3) BoundingBox() sdf.Box3 { return w.s.BoundingBox() }

type pertSDF2 struct {
	s sdf.SDF2
	p *perturb
}

func (w *pertSDF2) Evaluate(p v2.Vec) float64 {
	w.p.hit(math.Float64bits(p.X)*31 ^ math.Float64bits(p.Y))
	return w.s.Evaluate(p)
}
func (w *pertSDF2) BoundingBox() sdf.Box2 { return w.s.BoundingBox() }

// one render -> digest -----------------------------------------------------------

type c09Spec struct {
	Model    string `json:"model"`
	Renderer string `json:"renderer"`
	Cells    int    `json:"cells"`
	Sink     string `json:"sink"`
}

func (s c09Spec) key() string {
	return fmt.Sprintf("%s/%s/%d/%s", s.Model, s.Renderer, s.Cells, s.Sink)
}

type c09Result struct {
	Spec        c09Spec `json:"spec"`
	Digest      string  `json:"digest"`
	Items       int     `json:"items"`
	Fingerprint string  `json:"fingerprint"`
	Evals       int64   `json:"evals"`
	Workers     int     `json:"workers_seen"`
	Config      string  `json:"config"`
}

func c09Render(spec c09Spec, policy string, seed uint64, dir string, tag string) c09Result {
	if strings.HasPrefix(tag, "reuse-") && spec.Sink != "mem" {
		// history: an earlier, larger render went to the same output path
		big := spec
		big.Cells = spec.Cells * 2
		tag = tag[len("reuse-"):]
		c09Render(big, "light", seed, dir, "pre-"+tag)
	}
	pt := &perturb{policy: policy, seed: seed, gids: map[uint64]int{}}
	res := c09Result{Spec: spec}
	h := sha256.New()
	path := filepath.Join(dir, fmt.Sprintf("c09-%s.%s", strings.TrimPrefix(tag, "pre-"), spec.Sink))
	is2D := spec.Renderer == "ms-uniform" || spec.Renderer == "ms-quadtree"
	if is2D {
		m := c09Model2(spec.Model)
		if m == nil {
			res.Digest = "model-unavailable"
			return res
		}
		w := &pertSDF2{m, pt}
		var rd render.Render2
		if spec.Renderer == "ms-uniform" {
			rd = render.NewMarchingSquaresUniform(spec.Cells)
		} else {
			rd = render.NewMarchingSquaresQuadtree(spec.Cells)
		}
		switch spec.Sink {
		case "mem":
			ls := collectLines(rd, w)
			res.Items = len(ls)
			for _, l := range ls {
				binary.Write(h, binary.LittleEndian, []float64{l[0].X, l[0].Y, l[1].X, l[1].Y})
			}
		case "dxf":
			render.ToDXF(w, path, rd)
		case "svg":
			render.ToSVG(w, path, rd)
		}
	} else {
		m := c09Model3(spec.Model)
		if m == nil {
			res.Digest = "model-unavailable"
			return res
		}
		w := &pertSDF3{m, pt}
		var rd render.Render3
		if spec.Renderer == "mc-uniform" {
			rd = render.NewMarchingCubesUniform(spec.Cells)
		} else {
			rd = render.NewMarchingCubesOctree(spec.Cells)
		}
		switch spec.Sink {
		case "mem":
			ts := render.ToTriangles(w, rd)
			res.Items = len(ts)
			for _, t := range ts {
				binary.Write(h, binary.LittleEndian, []float64{t[0].X, t[0].Y, t[0].Z, t[1].X, t[1].Y, t[1].Z, t[2].X, t[2].Y, t[2].Z})
			}
		case "stl":
			render.ToSTL(w, path, rd)
		case "3mf":
			render.To3MF(w, path, rd)
		}
	}
	switch spec.Sink {
	case "stl", "dxf", "svg":
		b, err := os.ReadFile(path)
		if err != nil {
			h.Write([]byte("unreadable:" + err.Error()))
		}
		h.Write(b)
		res.Items = len(b)
	case "3mf": // the zip container (entry timestamps, compression) may legitimately differ between runs: compare decoded content
		// every part of the package, decompressed, in name order (model XML incl. metadata, relationships, content types)
		if zr, err := zip.OpenReader(path); err == nil {
			names := make([]string, 0, len(zr.File))
			byName := map[string]*zip.File{}
			for _, f := range zr.File {
				names = append(names, f.Name)
				byName[f.Name] = f
			}
			sort.Strings(names)
			for _, nm := range names {
				h.Write([]byte("part:" + nm + "\n"))
				if rc, err := byName[nm].Open(); err == nil {
					if nm == "[Content_Types].xml" || strings.HasSuffix(nm, ".rels") {
						// package manifests are sets: the writer emits their entries in map order (observed: the two Default
						// elements of [Content_Types].xml swap between processes), which is not content
						b, _ := io.ReadAll(rc)
						lines := strings.Split(string(b), "\n")
						sort.Strings(lines)
						h.Write([]byte(strings.Join(lines, "\n")))
					} else {
						io.Copy(h, rc)
					}
					rc.Close()
				}
			}
			zr.Close()
		}
		if r, err := go3mf.OpenReader(path); err == nil {
			var mdl go3mf.Model
			if err := r.Decode(&mdl); err == nil {
				fmt.Fprintf(h, "units=%v lang=%q metadata=%+v build=%d\n", mdl.Units, mdl.Language, mdl.Metadata, len(mdl.Build.Items))
				for _, o := range mdl.Resources.Objects {
					if o.Mesh != nil {
						for _, v := range o.Mesh.Vertices.Vertex {
							binary.Write(h, binary.LittleEndian, []float32{v.X(), v.Y(), v.Z()})
						}
						for _, t := range o.Mesh.Triangles.Triangle {
							binary.Write(h, binary.LittleEndian, []uint32{t.V1, t.V2, t.V3})
						}
						res.Items += len(o.Mesh.Triangles.Triangle)
					}
				}
			} else {
				h.Write([]byte("undecodable:" + err.Error()))
			}
			r.Close()
		} else {
			h.Write([]byte("unreadable:" + err.Error()))
		}
	}
	if policy != "light" || !strings.HasPrefix(tag, "pre-") { // the "earlier render" of a reuse history leaves its file in place
		os.Remove(path)
	}
	res.Digest = hex.EncodeToString(h.Sum(nil)[:12])
	res.Fingerprint = fmt.Sprintf("%016x", pt.fp)
	res.Evals = pt.calls
	res.Workers = len(pt.gids)
	return res
}

// child: args = policy seed history concurrency specJSON...
func childC09(args []string) {
	if v := os.Getenv("C12_PIN"); v != "" { // a process that may use n CPUs only: NumCPU() == n in the re-executed image
		n, _ := strconv.Atoi(v)
		c12PinToCPUs(n)
	}
	policy := args[0]
	seed, _ := strconv.ParseUint(args[1], 10, 64)
	history, _ := strconv.Atoi(args[2])
	conc, _ := strconv.Atoi(args[3])
	var specs []c09Spec
	for _, a := range args[4:] {
		var s c09Spec
		json.Unmarshal([]byte(a), &s)
		specs = append(specs, s)
	}
	dir := scratch()
	if history >= 2 {
		// a longer history also has file renders of unrelated parts BEFORE the models are constructed: a render must not
		// leave anything behind that changes what is built afterwards (text and Bezier models draw on library-global state)
		sph, _ := sdf.Sphere3D(1)
		cir, _ := sdf.Circle2D(1)
		render.ToSTL(sph, filepath.Join(dir, "early.stl"), render.NewMarchingCubesUniform(8))
		render.To3MF(sph, filepath.Join(dir, "early.3mf"), render.NewMarchingCubesOctree(8))
		render.ToDXF(cir, filepath.Join(dir, "early.dxf"), render.NewMarchingSquaresUniform(8))
		render.ToSVG(cir, filepath.Join(dir, "early.svg"), render.NewMarchingSquaresQuadtree(8))
		render.ToTriangles(sph, render.NewMarchingCubesUniform(8))
	}
	c09BuildModels()
	// preceding render history (other models / renderers first)
	for k := 0; k < history; k++ {
		o := specs[(k+1)%len(specs)]
		c09Render(c09Spec{o.Model, o.Renderer, 8 + k%5, "mem"}, "none", seed, dir, "hist")
	}
	cfg := fmt.Sprintf("GOMAXPROCS=%d NumCPU=%d policy=%s history=%d concurrent=%d", runtime.GOMAXPROCS(0), runtime.NumCPU(), policy, history, conc)
	var out []c09Result
	if policy == "pressure" {
		// all specs at once, unperturbed but many, next to a render whose evaluations stall every worker: the shared
		// evaluation queue fills up
		out = make([]c09Result, len(specs))
		var wg sync.WaitGroup
		wg.Add(1)
		go func() {
			defer wg.Done()
			c09Render(c09Spec{"sphere", "mc-uniform", 40, "mem"}, "block", seed, dir, "blocker")
		}()
		for i, s := range specs {
			wg.Add(1)
			go func(i int, s c09Spec) {
				defer wg.Done()
				r := c09Render(s, "light", seed+uint64(i), dir, strconv.Itoa(i))
				r.Config = cfg + " (queue pressure)"
				out[i] = r
			}(i, s)
		}
		wg.Wait()
	} else if conc <= 1 {
		for i, s := range specs {
			tag := strconv.Itoa(i)
			if history > 0 {
				tag = "reuse-" + tag
			}
			r := c09Render(s, policy, seed+uint64(i), dir, tag)
			r.Config = cfg
			out = append(out, r)
		}
	} else {
		// the specs run simultaneously in this process (sharing the evaluation worker pool)
		out = make([]c09Result, len(specs))
		var wg sync.WaitGroup
		for i, s := range specs {
			wg.Add(1)
			go func(i int, s c09Spec) {
				defer wg.Done()
				r := c09Render(s, policy, seed+uint64(i), dir, strconv.Itoa(i))
				r.Config = cfg
				out[i] = r
			}(i, s)
		}
		wg.Wait()
	}
	for _, r := range out {
		b, _ := json.Marshal(r)
		fmt.Printf("\nRESULT:%s\n", b)
	}
}

func checkC09(c *Ctx) {
	c.Rule("models (sphere, blended CSG part, text extrusion, M8 bolt, imported teapot STL; 2D circle+box, text, involute gear) x renderers " +
		"(uniform/octree marching cubes, uniform/quadtree marching squares) x sinks (triangle/segment slice, STL, 3MF decoded, DXF, SVG) are " +
		"rendered in race-instrumented child processes under GOMAXPROCS in {1,2,3,5,8,16}, perturbing Evaluate wrappers (none/Gosched/spin/" +
		"sleep/starve-one-worker), preceding render histories of length 0..6 and 2..6 simultaneous renders in one process; all executions of " +
		"one (model, renderer, cells, sink) must produce the identical digest (run-vs-run, no golden values). Distinct non-trivial = distinct " +
		"observed evaluation-order fingerprints (hash of the (goroutine, lattice point) arrival sequence) per spec.")
	c.Assume("3MF zip containers legitimately differ, decoded content is compared; a race report in render/ or in the Triangle3Buffer/Line2Buffer code fails this check, reports inside a shape's Evaluate belong to C10 and are only logged")
	bin := raceBin()
	if bin == "" {
		c.Inconclusive("race-instrumented binary not available")
		return
	}
	var specs []c09Spec
	for _, m := range []string{"sphere", "csg", "text", "bolt", "stl"} {
		cells := 24
		if m == "stl" || m == "bolt" {
			cells = 14
		}
		specs = append(specs, c09Spec{m, "mc-uniform", cells, "mem"}, c09Spec{m, "mc-octree", cells, "mem"})
	}
	specs = append(specs, c09Spec{"csg", "mc-uniform", 20, "stl"}, c09Spec{"csg", "mc-octree", 20, "stl"}, c09Spec{"sphere", "mc-uniform", 16, "3mf"}, c09Spec{"graze", "mc-uniform", 20, "3mf"}, c09Spec{"graze", "mc-uniform", 20, "stl"},
		c09Spec{"csg", "mc-uniform", 33, "mem"}, c09Spec{"twist", "mc-uniform", 40, "mem"}, c09Spec{"twist", "mc-octree", 40, "mem"})
	for _, m := range []string{"circlebox", "text2", "gear"} {
		specs = append(specs, c09Spec{m, "ms-uniform", 40, "mem"}, c09Spec{m, "ms-quadtree", 40, "mem"})
	}
	specs = append(specs, c09Spec{"circlebox", "ms-uniform", 30, "dxf"}, c09Spec{"gear", "ms-quadtree", 30, "svg"}, c09Spec{"circlebox", "ms-quadtree", 30, "svg"})
	if c.Quick { // quick: drop the slowest model x renderer pairs
		var keep []c09Spec
		for _, s := range specs {
			if s.Model == "stl" && s.Renderer == "mc-uniform" {
				continue
			}
			keep = append(keep, s)
		}
		specs = keep
	}
	type cfg struct {
		procs, history, conc int
		policy               string
	}
	var cfgs []cfg
	policies := []string{"none", "gosched", "spin", "sleep", "starve"}
	r := c.Rng("cfg")
	for i, p := range []int{1, 2, 3, 5, 8, 16} {
		cfgs = append(cfgs, cfg{p, 0, 1, policies[i%5]})
	}
	cfgs = append(cfgs, cfg{16, 3, 1, "none"}, cfg{4, 6, 1, "gosched"}, cfg{16, 0, 4, "spin"}, cfg{2, 2, 3, "starve"}, cfg{16, 1, 6, "none"})
	extra := c.Pick(3, 60)
	for k := 0; k < extra; k++ {
		cfgs = append(cfgs, cfg{pickOne(r, []int{1, 2, 3, 5, 8, 16}), r.I(7), pickOne(r, []int{1, 1, 2, 4, 6}), pickOne(r, policies)})
	}
	type job struct {
		cf    cfg
		specs []c09Spec
		seed  uint64
	}
	var jobs []job
	// each configuration renders every spec (grouped so that children stay short; concurrent configs run a group at once)
	for ci, cf := range cfgs {
		group := 4
		if cf.conc > 1 {
			group = cf.conc
		}
		for i := 0; i < len(specs); i += group {
			j := i + group
			if j > len(specs) {
				j = len(specs)
			}
			jobs = append(jobs, job{cf, specs[i:j], uint64(ci*1000 + i)})
		}
	}
	// queue pressure (non-race binary, light wrappers): a reference render alone, then 8 of the same at once under stalled workers
	heavy := c09Spec{"sphere", "mc-uniform", c.Pick(150, 260), "mem"}
	jobs = append(jobs, job{cfg{16, 0, 1, "light"}, []c09Spec{heavy}, 900001})
	// the same render in processes that may use 1, 3 and 5 CPUs only (taskset, a cpuset, a smaller machine): NumCPU() differs
	for k, n := range []int{1, 3, 5} {
		jobs = append(jobs, job{cfg{n, 0, 1, fmt.Sprintf("light@cpus=%d", n)}, []c09Spec{heavy}, uint64(900010 + k)})
	}
	jobs = append(jobs, job{cfg{16, 0, 8, "pressure"}, []c09Spec{heavy, heavy, heavy, heavy, heavy, heavy, heavy, heavy}, 900002})
	jobs = append(jobs, job{cfg{4, 0, 8, "pressure"}, []c09Spec{heavy, heavy, heavy, heavy, heavy, heavy, heavy, heavy}, 900003})
	// large meshes (hundreds of thousands of triangles: chunked / parallel collection paths), non-race, several schedules
	big := c09Spec{"sphere", "mc-octree", c.Pick(200, 300), "mem"}
	for k, p := range []int{1, 2, 5, 16, 16, 3} {
		pol := "light"
		if k >= 2 {
			pol = "halfbusy"
		}
		jobs = append(jobs, job{cfg{p, 0, 1, pol}, []c09Spec{big}, uint64(910000 + k)})
	}
	var mu sync.Mutex
	digests := map[string]map[string]c09Result{} // spec -> digest -> first result
	fps := map[string]map[string]bool{}
	c.raceJudge = func(rr raceReport) {
		inPipeline := strings.Contains(rr.Key, "sdfx/render.") || strings.Contains(rr.Key, "Triangle3Buffer") || strings.Contains(rr.Key, "Line2Buffer") || strings.Contains(rr.Key, "WriteTriangles")
		if inPipeline {
			c.Violate("", fmt.Sprintf("data-race in the render pipeline: %s (%d reports)", rr.Key, rr.Count), map[string]any{"report": rr.Block})
		} else if rr.Sdfx {
			c.Count("race_reports_inside_shape_evaluate_left_to_C10", int64(rr.Count))
		}
	}
	parallelFor(len(jobs), func(i int) {
		j := jobs[i]
		policy, pin := j.cf.policy, ""
		if k := strings.Index(policy, "@cpus="); k >= 0 {
			policy, pin = policy[:k], policy[k+6:]
		}
		args := []string{policy, strconv.FormatUint(c.Seed*7919+j.seed, 10), strconv.Itoa(j.cf.history), strconv.Itoa(j.cf.conc)}
		for _, s := range j.specs {
			b, _ := json.Marshal(s)
			args = append(args, string(b))
		}
		useBin := bin
		if policy == "light" || policy == "pressure" || policy == "halfbusy" {
			useBin = "" // volume, not race detection
		}
		env := []string{fmt.Sprintf("GOMAXPROCS=%d", j.cf.procs), "GORACE=halt_on_error=0"}
		if pin != "" {
			env = []string{"C12_PIN=" + pin, "GORACE=halt_on_error=0"}
		}
		res := runChild(useBin, "c09-run", args, env, 20*time.Minute)
		if pin != "" {
			if strings.Contains(res.Out, "PIN-FAILED") {
				c.Count("cpu_count_variants_skipped_affinity_not_settable", 1)
				return
			}
			c.Count("cpu_count_variants_run", 1)
		}
		for _, rr := range parseRaces(res.Out) {
			c.Count("race_reports", int64(rr.Count))
			c.raceJudge(rr)
		}
		n := 0
		jsonLines(res.Out, "RESULT:", func(raw []byte) {
			var r c09Result
			if json.Unmarshal(bytes.TrimSpace(raw), &r) != nil {
				return
			}
			n++
			if r.Digest == "model-unavailable" {
				return
			}
			k := r.Spec.key()
			mu.Lock()
			if digests[k] == nil {
				digests[k] = map[string]c09Result{}
				fps[k] = map[string]bool{}
			}
			if _, ok := digests[k][r.Digest]; !ok {
				digests[k][r.Digest] = r
			}
			fps[k][r.Fingerprint] = true
			mu.Unlock()
			c.Eval(1)
			c.Count("evaluations_observed_by_perturbing_wrappers", r.Evals)
		})
		if n != len(j.specs) {
			if res.TimedOut {
				c.Inconclusive(fmt.Sprintf("watchdog: %v", j.cf))
			} else {
				c.Violate("", fmt.Sprintf("render-crash config=%+v: %s", j.cf, lastLines(res.Out, 8)), map[string]any{"config": j.cf, "specs": j.specs, "tail": tailStr(res.Out, 4000)})
			}
		}
	})
	nfp := 0
	fpPerSpec := map[string]int{}
	for k, ds := range digests {
		fpPerSpec[k] = len(fps[k])
		nfp += len(fps[k])
		for f := range fps[k] {
			c.Distinct(k + "/" + f)
		}
		if len(ds) > 1 {
			var rs []c09Result
			for _, r := range ds {
				rs = append(rs, r)
			}
			c.Violate("", fmt.Sprintf("nondeterministic %s: %d different outputs, e.g. digest %s (%d items) under [%s] vs %s (%d items) under [%s]",
				k, len(ds), rs[0].Digest, rs[0].Items, rs[0].Config, rs[1].Digest, rs[1].Items, rs[1].Config), map[string]any{"spec": k, "results": rs})
		}
	}
	c.Obs("distinct_evaluation_order_fingerprints_per_spec", fpPerSpec)
	c.Obs("configurations", len(cfgs))
	for k, ds := range digests {
		for _, r := range ds {
			c.Sample(map[string]any{"spec": k, "digest": r.Digest, "items": r.Items, "config": r.Config, "fingerprint": r.Fingerprint})
			break
		}
		break
	}
	c.Floor(c.Pick(40, 300))
}
