//go:build verif

// C02 - combinators denote the set / geometric operation they name.
package main

import (
	"fmt"
	"math"
	"sort"

	"github.com/deadsy/sdfx/sdf"
	v2 "github.com/deadsy/sdfx/vec/v2"
	v3 "github.com/deadsy/sdfx/vec/v3"
)

func init() { checks["C02"] = checkC02 }

func matchAny(got float64, want []float64, tol float64) (bool, float64) {
	if isAmbiguous(want) {
		return true, 0 // reference not tracked at this point (see ambiguousSet)
	}
	best := math.Inf(1)
	for _, w := range want {
		if d := math.Abs(got - w); d < best {
			best = d
		}
		if got == w {
			return true, 0
		}
	}
	return best <= tol, best
}

func kindsOf(n *node, m map[string]bool) {
	if len(n.kids) > 0 {
		m[n.kind] = true
	}
	for _, k := range n.kids {
		kindsOf(k, m)
	}
}

// hostile sample points for a 3D tree
func samplePoint3(r *Rng, bb sdf.Box3, thetas []float64) v3.Vec {
	c, s := bb.Center(), bb.Size()
	L := s.Length()
	switch r.I(9) {
	case 0, 1, 2: // inside the box
		return v3.Vec{X: r.R(bb.Min.X, bb.Max.X), Y: r.R(bb.Min.Y, bb.Max.Y), Z: r.R(bb.Min.Z, bb.Max.Z)}
	case 3: // around the box
		return c.Add(v3.Vec{X: r.R(-1.5, 1.5) * s.X, Y: r.R(-1.5, 1.5) * s.Y, Z: r.R(-1.5, 1.5) * s.Z})
	case 4: // on a coordinate plane / axis
		p := v3.Vec{X: r.R(-1, 1) * L, Y: r.R(-1, 1) * L, Z: r.R(-1, 1) * L}
		p.Set(r.I(3), 0)
		if r.Bool() {
			p.Set(r.I(3), 0)
		}
		return p
	case 5: // on / next to a sector boundary of a rotate-copy or a wedge face of a partial revolve
		if len(thetas) > 0 {
			th := pickOne(r, thetas)
			a := th * float64(r.IR(-4, 4))
			if r.Bool() {
				a = th/2 + th*float64(r.IR(-4, 4))
			}
			a += pickOne(r, []float64{0, 0, 1e-12, -1e-12, 1e-6, -1e-6, 1e-3, -1e-3})
			rho := r.R(0, 1) * L
			return v3.Vec{X: rho * math.Cos(a), Y: rho * math.Sin(a), Z: r.R(bb.Min.Z, bb.Max.Z)}
		}
		fallthrough
	case 6: // near the origin / rotation axis
		return v3.Vec{X: r.N() * 1e-3 * L, Y: r.N() * 1e-3 * L, Z: r.R(bb.Min.Z, bb.Max.Z)}
	case 7: // far away
		return v3.Vec{X: r.N(), Y: r.N(), Z: r.N()}.Normalize().MulScalar(L * r.LogR(3, 1000))
	default:
		return c.Add(v3.Vec{X: r.N(), Y: r.N(), Z: r.N()}.MulScalar(0.3 * L))
	}
}

func samplePoint2(r *Rng, bb sdf.Box2, thetas []float64) v2.Vec {
	c, s := bb.Center(), bb.Size()
	L := s.Length()
	switch r.I(8) {
	case 0, 1, 2:
		return v2.Vec{X: r.R(bb.Min.X, bb.Max.X), Y: r.R(bb.Min.Y, bb.Max.Y)}
	case 3:
		return c.Add(v2.Vec{X: r.R(-1.5, 1.5) * s.X, Y: r.R(-1.5, 1.5) * s.Y})
	case 4:
		if r.Bool() {
			return v2.Vec{X: 0, Y: r.R(-1, 1) * L}
		}
		return v2.Vec{X: r.R(-1, 1) * L, Y: 0}
	case 5:
		if len(thetas) > 0 {
			th := pickOne(r, thetas)
			a := th/2 + th*float64(r.IR(-4, 4)) + pickOne(r, []float64{0, 1e-12, -1e-12, 1e-6, -1e-6, 1e-3})
			rho := r.R(0, 1) * L
			return v2.Vec{X: rho * math.Cos(a), Y: rho * math.Sin(a)}
		}
		fallthrough
	case 6:
		return v2.Vec{X: r.N(), Y: r.N()}.Normalize().MulScalar(L * r.LogR(3, 1000))
	default:
		return c.Add(v2.Vec{X: r.N(), Y: r.N()}.MulScalar(0.3 * L))
	}
}

func collectThetas(n *node, out *[]float64) {
	switch n.kind {
	case "rotatecopy":
		var k int
		fmt.Sscanf(n.desc[len("RotateCopy3D["):], "%d", &k)
		if k > 0 {
			*out = append(*out, 2*math.Pi/float64(k))
		}
	case "revolve":
		if len(n.p) > 0 && n.p[0] != 0 {
			*out = append(*out, n.p[0])
		}
	}
	for _, k := range n.kids {
		collectThetas(k, out)
	}
}

func checkC02(c *Ctx) {
	c.Rule("random expression trees over all combinators (rigid transforms incl. mirrors and rotations about arbitrary axes, non-uniform " +
		"scale, uniform scale, union/difference/intersection, cut, elongate, array, rotate-union, rotate-copy, offset, shell, the five " +
		"extrusions, loft, (partial) revolve, screw, slice, multi/line-of/orient, center, cache) evaluated at hostile points (inside, " +
		"outside, coordinate planes, sector boundaries +-delta, rotation axis, far field) against a reference interpreter that calls real " +
		"code only on leaves; blend laws on the blend functions and on root-blended shapes; cache query histories; voxel corner / cell " +
		"range. Non-trivial tree = both signs seen and >= 2 distinct combinator kinds; distinct = tree description.")
	c.Assume("tolerance 1e-9*(tree size + |p| + |value|); at points within 1e-9 rad of a rotate-copy sector boundary either fold is accepted; orientation of Slice2D's in-plane axes is an implementation choice (learned with a probe leaf, then checked to be a right-handed isometric frame of the plane)")
	nTrees := c.Pick(6000, 60000)
	nPts := c.Pick(400, 1500)
	maxDepth := c.Pick(3, 5)
	kindSeen := map[string]int{}
	parallelFor(nTrees, func(i int) {
		r := c.Rng("tree", i)
		scale := r.LogR(0.05, 100)
		depth := r.IR(1, maxDepth)
		var n *node
		if i%3 == 2 {
			n = gen2(r, depth, scale, genOpts{noBlend: true})
		} else {
			n = gen3(r, depth, scale, genOpts{noBlend: true})
		}
		if n == nil || len(n.kids) == 0 {
			return
		}
		var thetas []float64
		collectThetas(n, &thetas)
		L := n.size()
		neg, pos, worst := 0, 0, 0.0
		bad := 0
		for q := 0; q < nPts; q++ {
			var got float64
			var want []float64
			var pl float64
			var pdesc any
			if n.dim == 3 {
				p := samplePoint3(r, n.s3.BoundingBox(), thetas)
				got, want, pl, pdesc = n.s3.Evaluate(p), n.ref3(p), p.Length(), p
			} else {
				p := samplePoint2(r, n.s2.BoundingBox(), thetas)
				got, want, pl, pdesc = n.s2.Evaluate(p), n.ref2(p), p.Length(), p
			}
			if got < 0 {
				neg++
			} else {
				pos++
			}
			tol := 1e-9 * (L + pl + math.Abs(got)) // far-field twist/scale maps amplify coordinates (and their rounding) by |value|/size
			ok, d := matchAny(got, want, tol)
			if d/(L+pl) > worst && !math.IsInf(d, 0) {
				worst = d / (L + pl)
			}
			if !ok || math.IsNaN(got) {
				bad++
				if bad == 1 {
					c.Violate("", fmt.Sprintf("combinator-semantics %s at p=%v: Evaluate=%.17g reference=%v (tol %.3g)", n.desc, pdesc, got, want, tol),
						map[string]any{"tree_index": i, "tree": n.desc, "p": pdesc, "got": got, "want": want})
				}
			}
		}
		c.Eval(nPts)
		c.MaxObs("worst_relative_deviation_from_reference", worst)
		ks := map[string]bool{}
		kindsOf(n, ks)
		c.mu.Lock()
		for k := range ks {
			kindSeen[fmt.Sprintf("%dd/%s", n.dim, k)]++
		}
		c.mu.Unlock()
		if neg > 0 && pos > 0 && len(ks) >= 2 {
			c.Distinct(n.desc)
		}
		if i < 3 {
			c.Sample(map[string]any{"tree": n.desc, "points": nPts, "negative": neg, "positive": pos})
		}
	})
	c.Obs("combinator_kinds_exercised", kindSeen)

	c02Blends(c)
	c02Fold(c)
	c02Alias(c)
	c02LateBlend(c)
	c02Cache(c)
	c02Voxel(c)
	c02Slice(c)
	c.Floor(c.Pick(2500, 25000))
}

// blend laws
func c02Blends(c *Ctx) {
	r := c.Rng("blend")
	n := c.Pick(200000, 5000000)
	type bf struct {
		name string
		mk   func(k float64) sdf.MinFunc
	}
	fns := []bf{{"RoundMin", sdf.RoundMin}, {"ChamferMin", sdf.ChamferMin}, {"ExpMin", sdf.ExpMin}, {"PolyMin", sdf.PolyMin}}
	for i := 0; i < n; i++ {
		f := fns[i%4]
		k := r.LogR(1e-3, 10)
		var a, b float64
		switch r.I(4) {
		case 0:
			a, b = r.R(-3, 3)*k, r.R(-3, 3)*k
		case 1:
			a = r.R(-3, 3) * k
			b = a + pickOne(r, []float64{0, k, -k, 0.999 * k, 1.001 * k, 2 * k, 1e-9 * k})
		case 2:
			a, b = r.R(-20, 20), r.R(-20, 20)
		default:
			a, b = r.N()*k, r.N()*k
		}
		if f.name == "ExpMin" && (math.Abs(k*a) > 300 || math.Abs(k*b) > 300) {
			continue
		}
		m := f.mk(k)
		x, y := m(a, b), m(b, a)
		mn := math.Min(a, b)
		tol := 1e-9 * (math.Abs(a) + math.Abs(b) + k)
		c.Eval(1)
		if !(x <= mn+tol) || math.IsNaN(x) {
			c.Violate("", fmt.Sprintf("blend-removes-material %s(k=%g)(%g,%g)=%g > min=%g", f.name, k, a, b, x, mn), map[string]any{"fn": f.name, "k": k, "a": a, "b": b})
		}
		if math.Abs(x-y) > tol {
			c.Violate("", fmt.Sprintf("blend-asymmetric %s(k=%g): f(%g,%g)=%g but f(b,a)=%g", f.name, k, a, b, x, y), map[string]any{"fn": f.name, "k": k, "a": a, "b": b})
		}
		if f.name == "PolyMin" {
			if x < mn-k/4-tol {
				c.Violate("", fmt.Sprintf("polymin-fillet-bound PolyMin(k=%g)(%g,%g)=%g < min-k/4=%g", k, a, b, x, mn-k/4), map[string]any{"k": k, "a": a, "b": b})
			}
			if math.Abs(a-b) >= k && math.Abs(x-mn) > tol {
				c.Violate("", fmt.Sprintf("polymin-far-operands PolyMin(k=%g)(%g,%g)=%g != min=%g though |a-b|>=k", k, a, b, x, mn), map[string]any{"k": k, "a": a, "b": b})
			}
			// PolyMax is the mirror image
			px := sdf.PolyMax(k)(a, b)
			mx := math.Max(a, b)
			if px < mx-tol || px > mx+k/4+tol || (math.Abs(a-b) >= k && math.Abs(px-mx) > tol) || math.Abs(px+m(-a, -b)) > tol {
				c.Violate("", fmt.Sprintf("polymax-law PolyMax(k=%g)(%g,%g)=%g, max=%g", k, a, b, px, mx), map[string]any{"k": k, "a": a, "b": b})
			}
			d := mn - x
			c.MaxObs("polymin_largest_fillet_over_k", d/k)
		}
		c.Distinct(fmt.Sprintf("blendfn/%s/%d", f.name, int(math.Min(9, math.Abs(a-b)/k*3))))
	}
	// root-blended real shapes: the installed blend must be what Evaluate uses, on every combinator that accepts one
	nt := c.Pick(300, 6000)
	parallelFor(nt, func(i int) {
		r := c.Rng("blendtree", i)
		scale := r.LogR(0.1, 50)
		k := scale * r.LogR(0.01, 0.6)
		o := genOpts{noBlend: true}
		f := fns[i%4]
		kk := k
		if f.name == "ExpMin" {
			kk = 32 / scale
		}
		var eval func(q int) (got float64, as, bs []float64, p any)
		var desc string
		mode := i % 5
		if i%2 == 0 {
			A, B := gen3(r, r.IR(0, 2), scale, o), gen3(r, r.IR(0, 2), scale, o)
			bbx := A.s3.BoundingBox().Extend(B.s3.BoundingBox())
			var s sdf.SDF3
			switch mode {
			case 0, 1, 2:
				u := sdf.Union3D(A.s3, B.s3).(*sdf.UnionSDF3)
				u.SetMin(f.mk(kk))
				s, desc = u, "Union3D+"+f.name
			case 3:
				u := sdf.Intersect3D(A.s3, B.s3).(*sdf.IntersectionSDF3)
				u.SetMax(sdf.PolyMax(k))
				s, desc = u, "Intersect3D+PolyMax"
			default:
				u := sdf.Difference3D(A.s3, B.s3).(*sdf.DifferenceSDF3)
				u.SetMax(sdf.PolyMax(k))
				s, desc = u, "Difference3D+PolyMax"
			}
			desc += fmt.Sprintf("[k=%.4g](%s, %s)", kk, A.desc, B.desc)
			eval = func(q int) (float64, []float64, []float64, any) {
				p := samplePoint3(r, bbx, nil)
				return s.Evaluate(p), A.ref3(p), B.ref3(p), p
			}
		} else {
			A, B := gen2(r, r.IR(0, 2), scale, o), gen2(r, r.IR(0, 2), scale, o)
			bbx := A.s2.BoundingBox().Extend(B.s2.BoundingBox())
			var s sdf.SDF2
			switch mode {
			case 0, 1, 2:
				u := sdf.Union2D(A.s2, B.s2).(*sdf.UnionSDF2)
				u.SetMin(f.mk(kk))
				s, desc = u, "Union2D+"+f.name
			case 3:
				u := sdf.Intersect2D(A.s2, B.s2).(*sdf.IntersectionSDF2)
				u.SetMax(sdf.PolyMax(k))
				s, desc = u, "Intersect2D+PolyMax"
			default:
				u := sdf.Difference2D(A.s2, B.s2).(*sdf.DifferenceSDF2)
				u.SetMax(sdf.PolyMax(k))
				s, desc = u, "Difference2D+PolyMax"
			}
			desc += fmt.Sprintf("[k=%.4g](%s, %s)", kk, A.desc, B.desc)
			eval = func(q int) (float64, []float64, []float64, any) {
				p := samplePoint2(r, bbx, nil)
				return s.Evaluate(p), A.ref2(p), B.ref2(p), p
			}
		}
		filleted := false
		for q := 0; q < 300; q++ {
			got, as, bs, p := eval(q)
			if isAmbiguous(as) || isAmbiguous(bs) {
				continue
			}
			// operands may have two acceptable values on a fold boundary: the law must hold for one combination
			var bad string
			var a, b float64
			for _, a = range as {
				for _, b = range bs {
					bad = blendLaw(mode, f.name, got, a, b, k, kk, scale, &filleted)
					if bad == "" {
						break
					}
				}
				if bad == "" {
					break
				}
			}
			if bad != "" {
				c.Violate("", fmt.Sprintf("blended-shape %s at p=%v: a=%g b=%g: %s", desc, p, a, b, bad), map[string]any{"shape": desc, "p": p, "a": as, "b": bs, "got": got})
				break
			}
		}
		c.Eval(300)
		if filleted {
			c.Distinct("blendshape/" + desc)
		}
	})
}

// blendLaw judges one evaluation of a root-blended shape against its operand values.
func blendLaw(mode int, fname string, got, a, b, k, kk, scale float64, filleted *bool) string {
	{
		{
			tol := 1e-9 * (scale + math.Abs(a) + math.Abs(b))
			var bad string
			switch mode {
			case 0, 1, 2:
				mn := math.Min(a, b)
				if fname == "ExpMin" && (math.Abs(kk*a) > 300 || math.Abs(kk*b) > 300) {
					return ""
				}
				if !(got <= mn+tol) {
					bad = fmt.Sprintf("result %g > min(a,b)=%g: the blend removed material", got, mn)
				}
				if fname == "PolyMin" {
					if got < mn-k/4-tol {
						bad = fmt.Sprintf("result %g below min-k/4=%g", got, mn-k/4)
					}
					if math.Abs(a-b) >= k && math.Abs(got-mn) > tol {
						bad = fmt.Sprintf("result %g != min %g with operands %g apart (k=%g)", got, mn, math.Abs(a-b), k)
					}
				}
				if got < mn-tol {
					*filleted = true
				}
			default:
				if mode == 4 {
					b = -b
				}
				mx := math.Max(a, b)
				if got < mx-tol || got > mx+k/4+tol || (math.Abs(a-b) >= k && math.Abs(got-mx) > tol) {
					bad = fmt.Sprintf("result %g outside [max, max+k/4]=[%g,%g]", got, mx, mx+k/4)
				}
				if got > mx+tol {
					*filleted = true
				}
			}
			return bad
		}
	}
}

// cache wrapper: random query histories with repeats
func c02Cache(c *Ctx) {
	n := c.Pick(200, 4000)
	parallelFor(n, func(i int) {
		r := c.Rng("cache", i)
		inner := gen2(r, r.IR(0, 2), r.LogR(0.1, 10), genOpts{noBlend: true})
		cnt := &countSDF2{s: inner.s2}
		ch := sdf.Cache2D(cnt)
		bb := inner.s2.BoundingBox()
		pool := make([]v2.Vec, r.IR(1, 60))
		for j := range pool {
			pool[j] = samplePoint2(r, bb, nil)
			if j > 0 && r.P(0.2) { // near-duplicates: same x, different y / one ulp apart - distinct keys
				pool[j] = pool[j-1]
				if r.Bool() {
					pool[j].Y = math.Nextafter(pool[j].Y, math.Inf(1))
				} else if pool[j].Y != 0 { // (x,+0) and (x,-0) are one map key; only a discontinuous wrapped shape tells them apart
					pool[j].Y = -pool[j].Y
				}
			}
		}
		hist := r.IR(20, 400)
		repeats := 0
		seen := map[v2.Vec]bool{}
		for q := 0; q < hist; q++ {
			p := pool[r.I(len(pool))]
			if seen[p] {
				repeats++
			}
			seen[p] = true
			got, want := ch.Evaluate(p), inner.s2.Evaluate(p)
			if got != want && !(math.IsNaN(got) && math.IsNaN(want)) {
				c.Violate("", fmt.Sprintf("cache-value Cache2D(%s) query %d of history at p=%v returned %g, wrapped shape says %g", inner.desc, q, p, got, want),
					map[string]any{"shape": inner.desc, "p": p, "query": q, "cache_index": i})
				return
			}
		}
		if ch.BoundingBox() != bb {
			c.Violate("", fmt.Sprintf("cache-box Cache2D(%s) box %v != %v", inner.desc, ch.BoundingBox(), bb), map[string]any{"shape": inner.desc})
		}
		c.Eval(hist)
		c.Count("cache_underlying_calls", int64(cnt.n))
		c.Count("cache_queries", int64(hist))
		if repeats > 0 {
			c.Distinct(fmt.Sprintf("cache/%s/%d", inner.desc, hist))
		}
	})
}

// voxel wrapper: equality at lattice corners, corner range inside a cell
func c02Voxel(c *Ctx) {
	n := c.Pick(60, 1200)
	parallelFor(n, func(i int) {
		r := c.Rng("voxel", i)
		scale := r.LogR(0.1, 50)
		inner := gen3(r, r.IR(0, 2), scale, genOpts{noBlend: true})
		cells := r.IR(2, 14)
		rec := &recSDF3{s: inner.s3}
		vx := sdf.NewVoxelSDF3(rec, cells, nil)
		L := inner.size()
		var xs, ys, zs []float64
		vals := rec.valueMap()
		for p := range vals {
			xs, ys, zs = append(xs, p.X), append(ys, p.Y), append(zs, p.Z)
		}
		xs, ys, zs = uniqSorted(xs), uniqSorted(ys), uniqSorted(zs)
		if len(vals) != len(xs)*len(ys)*len(zs) || len(xs) < 2 || len(ys) < 2 || len(zs) < 2 {
			return // the voxel grid is not a full lattice of >= 1 cell per axis: nothing to compare against
		}
		tol := 1e-9 * (L + scale)
		for p, v := range vals {
			if got := vx.Evaluate(p); math.Abs(got-v) > tol {
				c.Violate("", fmt.Sprintf("voxel-corner NewVoxelSDF3(%s, %d) at lattice corner %v returns %g, wrapped shape %g", inner.desc, cells, p, got, v),
					map[string]any{"shape": inner.desc, "cells": cells, "p": p})
				return
			}
		}
		c.Eval(len(vals))
		bb := inner.s3.BoundingBox()
		for q := 0; q < 400; q++ {
			p := v3.Vec{X: r.R(bb.Min.X, bb.Max.X), Y: r.R(bb.Min.Y, bb.Max.Y), Z: r.R(bb.Min.Z, bb.Max.Z)}
			ix, iy, iz := sort.SearchFloat64s(xs, p.X)-1, sort.SearchFloat64s(ys, p.Y)-1, sort.SearchFloat64s(zs, p.Z)-1
			if ix < 0 || iy < 0 || iz < 0 || ix+1 >= len(xs) || iy+1 >= len(ys) || iz+1 >= len(zs) {
				continue
			}
			// stay clear of cell faces: which cell owns a face point is an implementation choice
			m := 1e-6
			if p.X-xs[ix] < m*(xs[ix+1]-xs[ix]) || xs[ix+1]-p.X < m*(xs[ix+1]-xs[ix]) || p.Y-ys[iy] < m*(ys[iy+1]-ys[iy]) || ys[iy+1]-p.Y < m*(ys[iy+1]-ys[iy]) || p.Z-zs[iz] < m*(zs[iz+1]-zs[iz]) || zs[iz+1]-p.Z < m*(zs[iz+1]-zs[iz]) {
				continue
			}
			lo, hi := math.Inf(1), math.Inf(-1)
			for k := 0; k < 8; k++ {
				v := vals[v3.Vec{X: xs[ix+k&1], Y: ys[iy+(k>>1)&1], Z: zs[iz+(k>>2)&1]}]
				lo, hi = math.Min(lo, v), math.Max(hi, v)
			}
			got := vx.Evaluate(p)
			if got < lo-tol || got > hi+tol || math.IsNaN(got) {
				c.Violate("", fmt.Sprintf("voxel-cell-range NewVoxelSDF3(%s, %d) at %v returns %g outside the corner range [%g,%g] of its cell", inner.desc, cells, p, got, lo, hi),
					map[string]any{"shape": inner.desc, "cells": cells, "p": p})
				return
			}
		}
		c.Eval(400)
		c.Distinct(fmt.Sprintf("voxel/%s/%d", inner.desc, cells))
	})
}

// Slice2D: choice-free facts about the slicing frame, observed with a probe leaf
func c02Slice(c *Ctx) {
	n := c.Pick(2000, 50000)
	r := c.Rng("slice")
	for i := 0; i < n; i++ {
		scale := r.LogR(0.1, 100)
		a := v3.Vec{X: r.R(-3, 3) * scale, Y: r.R(-3, 3) * scale, Z: r.R(-3, 3) * scale}
		nv := v3.Vec{X: r.N(), Y: r.N(), Z: r.N()}.MulScalar(r.LogR(0.1, 10))
		switch r.I(6) {
		case 0:
			nv = pickOne(r, []v3.Vec{{X: 1}, {Y: 1}, {Z: 1}, {X: -1}, {Y: -2}, {Z: -3}})
		case 1:
			nv.Set(r.I(3), 0)
		}
		pr := &probeSDF3{bb: sdf.Box3{Min: a.SubScalar(scale), Max: a.AddScalar(scale)}}
		sl := sdf.Slice2D(pr, a, nv)
		nh := nv.Normalize()
		at := func(p v2.Vec) v3.Vec { sl.Evaluate(p); return pr.last }
		o0 := at(v2.Vec{})
		ux, uy := at(v2.Vec{X: 1}).Sub(o0), at(v2.Vec{Y: 1}).Sub(o0)
		q := v2.Vec{X: r.R(-5, 5) * scale, Y: r.R(-5, 5) * scale}
		pq := at(q)
		tol := 1e-9
		var bad string
		switch {
		case o0.Sub(a).Length() > tol*scale*10:
			bad = fmt.Sprintf("2D origin maps to %v, not to the plane point a=%v", o0, a)
		case math.Abs(ux.Length()-1) > tol || math.Abs(uy.Length()-1) > tol || math.Abs(ux.Dot(uy)) > tol:
			bad = fmt.Sprintf("in-plane axes are not orthonormal: u=%v v=%v", ux, uy)
		case math.Abs(ux.Dot(nh)) > tol || math.Abs(uy.Dot(nh)) > tol:
			bad = fmt.Sprintf("in-plane axes leave the plane: u.n=%g v.n=%g", ux.Dot(nh), uy.Dot(nh))
		case ux.Cross(uy).Sub(nh).Length() > 1e-6:
			bad = fmt.Sprintf("u x v = %v is not the plane normal %v (mirrored slice)", ux.Cross(uy), nh)
		case pq.Sub(o0.Add(ux.MulScalar(q.X)).Add(uy.MulScalar(q.Y))).Length() > tol*scale*100:
			bad = "the map is not affine"
		}
		c.Eval(1)
		if bad != "" {
			c.Violate("", fmt.Sprintf("slice-frame Slice2D(a=%v, n=%v): %s", a, nv, bad), map[string]any{"a": a, "n": nv})
		}
		zero := 0
		for k := 0; k < 3; k++ {
			if nv.Get(k) == 0 {
				zero++
			}
		}
		c.Distinct(fmt.Sprintf("slice/zero-components=%d/%d", zero, i%40))
	}
}
