//go:build verif

// vcheck: runtime monitors for the sdfx properties C01..C20.
//
//	vcheck Cxx --tier quick|thorough     run the check (parent)
//	vcheck Cxx --replay <file>           re-run one recorded case
//	vcheck --child <mode> args...        worker process (crash isolation)
package main

import (
	"encoding/json"
	"fmt"
	"os"
	"runtime/debug"
	"runtime/pprof"
	"sort"
	"strconv"
	"time"
)

var profStop = func() {}

var checks = map[string]func(c *Ctx){}
var replays = map[string]func(c *Ctx, path string){}
var children = map[string]func(args []string){}

func toStr(p any) string { return fmt.Sprint(p) }

func main() {
	debug.SetGCPercent(400)
	if len(os.Args) >= 3 && os.Args[1] == "--child" {
		fn, ok := children[os.Args[2]]
		if !ok {
			fmt.Fprintf(os.Stderr, "unknown child mode %q\n", os.Args[2])
			os.Exit(3)
		}
		fn(os.Args[3:])
		cleanupScratch()
		os.Exit(0)
	}
	if len(os.Args) < 2 {
		ids := []string{}
		for k := range checks {
			ids = append(ids, k)
		}
		sort.Strings(ids)
		fmt.Fprintf(os.Stderr, "usage: vcheck <%v> --tier quick|thorough | --replay file\n", ids)
		os.Exit(2)
	}
	prop := os.Args[1]
	tier := os.Getenv("VERIF_TIER")
	replay := ""
	for i := 2; i < len(os.Args); i++ {
		switch os.Args[i] {
		case "--tier":
			i++
			tier = os.Args[i]
		case "--replay":
			i++
			replay = os.Args[i]
		}
	}
	if tier != "quick" && tier != "thorough" {
		tier = "quick"
	}
	seed := uint64(1)
	if s := os.Getenv("VERIF_SEED"); s != "" {
		if v, err := strconv.ParseInt(s, 10, 64); err == nil {
			seed = uint64(v)
		}
	}
	if replay != "" { // a replay file records the seed and tier of the run that wrote it
		if b, err := os.ReadFile(replay); err == nil {
			var rec struct {
				Seed uint64 `json:"seed"`
				Tier string `json:"tier"`
			}
			if json.Unmarshal(b, &rec) == nil {
				if rec.Seed != 0 {
					seed = rec.Seed
				}
				if rec.Tier == "quick" || rec.Tier == "thorough" {
					tier = rec.Tier
				}
			}
		}
	}
	fn, ok := checks[prop]
	if !ok {
		fmt.Fprintf(os.Stderr, "no check for %s\n", prop)
		os.Exit(2)
	}
	if pf := os.Getenv("VCHECK_PROF"); pf != "" {
		f, _ := os.Create(pf)
		pprof.StartCPUProfile(f)
		profStop = func() { pprof.StopCPUProfile(); f.Close() }
	}
	debug.SetMemoryLimit(20 << 30)                // soft: the collector works harder instead of the process growing towards the machine's memory
	if hp := os.Getenv("VCHECK_HEAP"); hp != "" { // debugging aid: heap profile every 30 s
		go func() {
			for {
				time.Sleep(30 * time.Second)
				if f, err := os.Create(hp); err == nil {
					pprof.WriteHeapProfile(f)
					f.Close()
				}
			}
		}()
	}
	c := newCtx(prop, tier, seed)
	theCtx = c
	if replay != "" {
		c.replayOnly = replay
		rf, ok := replays[prop]
		if !ok {
			fmt.Fprintf(os.Stderr, "%s: no dedicated replay; re-running the tier with the recorded seed reproduces the case (case lists are a function of seed and tier)\n", prop)
			fn(c)
		} else {
			rf(c, replay)
		}
		c.Finish()
	}
	func() {
		defer libraryPanic("")
		fn(c)
	}()
	c.Finish()
}
