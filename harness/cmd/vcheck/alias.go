//go:build verif

// Argument-aliasing histories: a shape is built from a caller-owned slice (operands, positions, vertices, segments,
// triangles) which the caller then reuses - overwrites, truncates and appends to - as a program does that builds one row
// of a part after the other from one scratch slice. What was built must keep denoting what it was built from, and the
// constructor must leave the caller's slice as it found it.
package main

import (
	"fmt"
	"math"

	"github.com/deadsy/sdfx/sdf"
	v2 "github.com/deadsy/sdfx/vec/v2"
	v3 "github.com/deadsy/sdfx/vec/v3"
)

type aliasCase struct {
	desc     string
	s2       sdf.SDF2
	s3       sdf.SDF3
	want2    func(p v2.Vec) float64 // the value the shape had to have, from operands the harness kept for itself (nil: use recorded values)
	want3    func(p v3.Vec) float64
	callerOK bool // the constructor left the caller's slice untouched
	scribble func()
}

// aliasUnion3 builds Union3D(ops...) from a slice with spare capacity and (sometimes) nil entries.
func aliasUnion3(r *Rng, scale float64) *aliasCase {
	n := r.IR(2, 6)
	var keep []sdf.SDF3
	args := make([]sdf.SDF3, 0, n+8)
	withNil := r.P(0.4)
	for i := 0; i < n; i++ {
		l := leaf3(r, scale)
		s := sdf.Transform3D(l.s3, sdf.Translate3d(v3.Vec{X: r.R(-2, 2) * scale, Y: r.R(-2, 2) * scale, Z: r.R(-1, 1) * scale}))
		keep = append(keep, s)
		if withNil && r.P(0.4) {
			args = append(args, nil)
		}
		args = append(args, s)
	}
	before := append([]sdf.SDF3(nil), args...)
	u := sdf.Union3D(args...)
	ok := len(args) == len(before)
	for i := range before {
		ok = ok && args[i] == before[i]
	}
	far, _ := sdf.Sphere3D(scale * 0.3)
	return &aliasCase{desc: fmt.Sprintf("Union3D(slice of %d operands, nil entries=%v)", n, withNil), s3: u, callerOK: ok,
		want3: func(p v3.Vec) float64 {
			d := math.Inf(1)
			for _, k := range keep {
				d = math.Min(d, k.Evaluate(p))
			}
			return d
		},
		scribble: func() {
			for i := range args {
				args[i] = sdf.Transform3D(far, sdf.Translate3d(v3.Vec{X: scale * (40 + float64(i)), Y: scale * 35, Z: -scale * 30}))
			}
			args = args[:0]
			for i := 0; i < cap(args); i++ {
				args = append(args, sdf.Transform3D(far, sdf.Translate3d(v3.Vec{X: -scale * (50 + float64(i)), Y: scale * 45})))
			}
		}}
}

func aliasUnion2(r *Rng, scale float64) *aliasCase {
	n := r.IR(2, 8)
	var keep []sdf.SDF2
	args := make([]sdf.SDF2, 0, n+8)
	withNil := r.P(0.4)
	for i := 0; i < n; i++ {
		l := leaf2(r, scale)
		s := sdf.Transform2D(l.s2, sdf.Translate2d(v2.Vec{X: r.R(-2, 2) * scale, Y: r.R(-2, 2) * scale}))
		keep = append(keep, s)
		if withNil && r.P(0.4) {
			args = append(args, nil)
		}
		args = append(args, s)
	}
	before := append([]sdf.SDF2(nil), args...)
	u := sdf.Union2D(args...)
	ok := len(args) == len(before)
	for i := range before {
		ok = ok && args[i] == before[i]
	}
	far, _ := sdf.Circle2D(scale * 0.3)
	return &aliasCase{desc: fmt.Sprintf("Union2D(slice of %d operands, nil entries=%v)", n, withNil), s2: u, callerOK: ok,
		want2: func(p v2.Vec) float64 {
			d := math.Inf(1)
			for _, k := range keep {
				d = math.Min(d, k.Evaluate(p))
			}
			return d
		},
		scribble: func() {
			for i := range args {
				args[i] = sdf.Transform2D(far, sdf.Translate2d(v2.Vec{X: scale * (40 + float64(i)), Y: scale * 35}))
			}
			args = args[:0]
			for i := 0; i < cap(args); i++ {
				args = append(args, sdf.Transform2D(far, sdf.Translate2d(v2.Vec{X: -scale * (50 + float64(i)), Y: scale * 45})))
			}
		}}
}

// aliasOther: constructors taking slices of positions / vertices / segments / triangles.
func aliasOther(r *Rng, scale float64, kind int) *aliasCase {
	switch kind % 4 {
	case 0: // Multi2D positions
		leaf := leaf2(r, scale)
		ps := make(v2.VecSet, r.IR(2, 9), 20)
		for i := range ps {
			ps[i] = v2.Vec{X: r.R(-3, 3) * scale, Y: r.R(-3, 3) * scale}
		}
		before := append(v2.VecSet(nil), ps...)
		s := sdf.Multi2D(leaf.s2, ps)
		ok := len(ps) == len(before)
		for i := range before {
			ok = ok && ps[i] == before[i]
		}
		return &aliasCase{desc: fmt.Sprintf("Multi2D(%s, %d positions)", leaf.desc, len(before)), s2: s, callerOK: ok,
			want2: func(p v2.Vec) float64 {
				d := math.Inf(1)
				for _, q := range before {
					d = math.Min(d, leaf.s2.Evaluate(p.Sub(q)))
				}
				return d
			},
			scribble: func() {
				for i := range ps {
					ps[i] = v2.Vec{X: 1e3 * scale, Y: -1e3 * scale}
				}
				ps = append(ps[:0], v2.Vec{X: 7e2 * scale}, v2.Vec{Y: 9e2 * scale})
			}}
	case 1: // Polygon2D vertices
		n := r.IR(3, 12)
		vs := make([]v2.Vec, 0, n+6)
		for i := 0; i < n; i++ {
			a := 2 * math.Pi * (float64(i) + r.R(0.1, 0.9)) / float64(n)
			vs = append(vs, v2.Vec{X: scale * r.R(0.5, 1.5) * math.Cos(a), Y: scale * r.R(0.5, 1.5) * math.Sin(a)})
		}
		before := append([]v2.Vec(nil), vs...)
		s, err := sdf.Polygon2D(vs)
		if err != nil {
			return nil
		}
		ok := len(vs) == len(before)
		for i := range before {
			ok = ok && vs[i] == before[i]
		}
		return &aliasCase{desc: fmt.Sprintf("Polygon2D(%d vertices)", n), s2: s, callerOK: ok,
			scribble: func() {
				for i := range vs {
					vs[i] = v2.Vec{X: float64(i) * scale * 100, Y: -scale * 77}
				}
				vs = append(vs[:0], v2.Vec{X: 1}, v2.Vec{Y: 1}, v2.Vec{X: -1}, v2.Vec{Y: -5}, v2.Vec{X: 3, Y: 3})
			}}
	case 2: // Mesh2D segments
		n := r.IR(3, 10)
		var vs []v2.Vec
		for i := 0; i < n; i++ {
			a := 2 * math.Pi * (float64(i) + r.R(0.1, 0.9)) / float64(n)
			vs = append(vs, v2.Vec{X: scale * r.R(0.5, 1.5) * math.Cos(a), Y: scale * r.R(0.5, 1.5) * math.Sin(a)})
		}
		ls := make([]*sdf.Line2, 0, n+6)
		for i := range vs {
			ls = append(ls, &sdf.Line2{vs[i], vs[(i+1)%n]})
		}
		s, err := sdf.Mesh2D(ls)
		if err != nil {
			return nil
		}
		return &aliasCase{desc: fmt.Sprintf("Mesh2D(%d segments)", n), s2: s, callerOK: true,
			scribble: func() { // the slice is the caller's; the segments it points to were handed over with it
				junk := &sdf.Line2{v2.Vec{X: 1e3 * scale}, v2.Vec{X: 1e3 * scale, Y: scale}}
				for i := range ls {
					ls[i] = junk
				}
				ls = append(ls[:0], junk, junk)
			}}
	default: // Mesh3D triangles
		// a tetrahedron is enough: four outward faces
		p0, p1, p2, p3 := v3.Vec{X: scale}, v3.Vec{Y: scale}, v3.Vec{Z: scale}, v3.Vec{X: -scale, Y: -scale, Z: -scale}
		ts := make([]*sdf.Triangle3, 0, 10)
		ts = append(ts, &sdf.Triangle3{p0, p1, p2}, &sdf.Triangle3{p0, p3, p1}, &sdf.Triangle3{p1, p3, p2}, &sdf.Triangle3{p2, p3, p0})
		s, err := sdf.Mesh3D(ts)
		if err != nil {
			return nil
		}
		return &aliasCase{desc: "Mesh3D(tetrahedron, 4 triangles)", s3: s, callerOK: true,
			scribble: func() {
				junk := &sdf.Triangle3{v3.Vec{X: 1e3 * scale}, v3.Vec{X: 1e3 * scale, Y: scale}, v3.Vec{X: 1e3 * scale, Z: scale}}
				for i := range ts {
					ts[i] = junk
				}
				ts = append(ts[:0], junk, junk, junk)
			}}
	}
}

// c02Alias: values before and after the caller reuses its slice.
func c02Alias(c *Ctx) {
	n := c.Pick(600, 6000)
	parallelFor(n, func(i int) {
		r := c.Rng("alias", i)
		scale := r.LogR(0.1, 50)
		var a *aliasCase
		switch i % 4 {
		case 0:
			a = aliasUnion3(r, scale)
		case 1:
			a = aliasUnion2(r, scale)
		default:
			a = aliasOther(r, scale, i/4)
		}
		if a == nil {
			return
		}
		c.Eval(1)
		if !a.callerOK {
			c.Violate("", fmt.Sprintf("argument-modified %s: the constructor changed the caller's slice", a.desc), map[string]any{"shape": a.desc, "index": i})
			return
		}
		const m = 60
		var p2s []v2.Vec
		var p3s []v3.Vec
		var rec []float64
		if a.s3 != nil {
			bb := a.s3.BoundingBox()
			for q := 0; q < m; q++ {
				p := samplePoint3(r, bb, nil)
				p3s = append(p3s, p)
				rec = append(rec, a.s3.Evaluate(p))
			}
		} else {
			bb := a.s2.BoundingBox()
			for q := 0; q < m; q++ {
				p := samplePoint2(r, bb, nil)
				p2s = append(p2s, p)
				rec = append(rec, a.s2.Evaluate(p))
			}
		}
		a.scribble()
		for q := 0; q < m; q++ {
			var got, want float64
			var p any
			if a.s3 != nil {
				got, want, p = a.s3.Evaluate(p3s[q]), rec[q], p3s[q]
				if a.want3 != nil {
					want = a.want3(p3s[q])
				}
			} else {
				got, want, p = a.s2.Evaluate(p2s[q]), rec[q], p2s[q]
				if a.want2 != nil {
					want = a.want2(p2s[q])
				}
			}
			if math.Float64bits(got) != math.Float64bits(rec[q]) || math.Abs(got-want) > 1e-9*(scale+math.Abs(want)) {
				c.Violate("", fmt.Sprintf("argument-aliased %s at p=%v: %g after the caller reused its slice, %g before, %g from the operands as supplied", a.desc, p, got, rec[q], want),
					map[string]any{"shape": a.desc, "index": i, "p": p})
				return
			}
		}
		c.Distinct("alias/" + a.desc)
	})
}
