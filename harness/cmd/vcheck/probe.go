//go:build verif

// Probes used at the public boundary: field shapes with prescribed values,
// recording wrappers, lattice learning, lattice-lookup fields, collectors.
package main

import (
	"fmt"
	"math"
	"sort"
	"sync"
	"sync/atomic"

	"github.com/deadsy/sdfx/render"
	"github.com/deadsy/sdfx/sdf"
	v2 "github.com/deadsy/sdfx/vec/v2"
	v3 "github.com/deadsy/sdfx/vec/v3"
)

// fieldSDF3 is an SDF3 whose values are prescribed by the harness.
type fieldSDF3 struct {
	bb sdf.Box3
	fn func(p v3.Vec) float64
}

func (f *fieldSDF3) Evaluate(p v3.Vec) float64 { return f.fn(p) }
func (f *fieldSDF3) BoundingBox() sdf.Box3     { return f.bb }

type fieldSDF2 struct {
	bb sdf.Box2
	fn func(p v2.Vec) float64
}

func (f *fieldSDF2) Evaluate(p v2.Vec) float64 { return f.fn(p) }
func (f *fieldSDF2) BoundingBox() sdf.Box2     { return f.bb }

// evalEvent is one observed renderer sample.
type evalEvent struct {
	P v3.Vec
	V float64
}

// recSDF3 records every (p, f(p)) a consumer asks for.
type recSDF3 struct {
	s      sdf.SDF3
	mu     sync.Mutex
	events []evalEvent
	n      int64
}

func (r *recSDF3) Evaluate(p v3.Vec) float64 {
	v := r.s.Evaluate(p)
	atomic.AddInt64(&r.n, 1)
	r.mu.Lock()
	r.events = append(r.events, evalEvent{p, v})
	r.mu.Unlock()
	return v
}
func (r *recSDF3) BoundingBox() sdf.Box3 { return r.s.BoundingBox() }

// valueMap returns point -> value of everything recorded.
func (r *recSDF3) valueMap() map[v3.Vec]float64 {
	m := make(map[v3.Vec]float64, len(r.events))
	for _, e := range r.events {
		m[e.P] = e.V
	}
	return m
}

type recSDF2 struct {
	s      sdf.SDF2
	mu     sync.Mutex
	events map[v2.Vec]float64
	order  []v2.Vec
	n      int64
}

func newRecSDF2(s sdf.SDF2) *recSDF2 { return &recSDF2{s: s, events: map[v2.Vec]float64{}} }
func (r *recSDF2) Evaluate(p v2.Vec) float64 {
	v := r.s.Evaluate(p)
	r.mu.Lock()
	r.n++
	if _, ok := r.events[p]; !ok {
		r.order = append(r.order, p)
	}
	r.events[p] = v
	r.mu.Unlock()
	return v
}
func (r *recSDF2) BoundingBox() sdf.Box2 { return r.s.BoundingBox() }

//-----------------------------------------------------------------------------
// lattice learning

// lattice3 is the sampling lattice of a renderer for one bounding box,
// learned by observation: a render of a field that is +1e-30 everywhere (no
// surface, nothing can be pruned) - the recorded points ARE the lattice.
type lattice3 struct {
	xs, ys, zs []float64
	stride     int // index steps between the corners of one finest cell (1 uniform, 2 octree)
	nodes      int
	complete   bool // every corner node of the lattice was sampled by the surface-free learning render
}

func uniqSorted(v []float64) []float64 {
	sort.Float64s(v)
	out := v[:0]
	for i, x := range v {
		if i == 0 || x != v[i-1] {
			out = append(out, x)
		}
	}
	return out
}

func learnLattice3(r render.Render3, bb sdf.Box3) (*lattice3, error) {
	var mu sync.Mutex
	pts := make([]v3.Vec, 0, 1024)
	rec := &fieldSDF3{bb: bb, fn: func(p v3.Vec) float64 {
		mu.Lock()
		pts = append(pts, p)
		mu.Unlock()
		return 1e-30
	}}
	ts := render.ToTriangles(rec, r)
	if len(ts) != 0 {
		return nil, fmt.Errorf("learn: surface-free field produced %d triangles", len(ts))
	}
	xs, ys, zs := make([]float64, len(pts)), make([]float64, len(pts)), make([]float64, len(pts))
	for i, p := range pts {
		xs[i], ys[i], zs[i] = p.X, p.Y, p.Z
	}
	// distinct sample points (renderers normally ask each node once; fall back to a set if not)
	set := map[v3.Vec]struct{}{}
	distinct := len(pts)
	{
		sorted := append([]v3.Vec(nil), pts...)
		sort.Slice(sorted, func(i, j int) bool {
			a, b := sorted[i], sorted[j]
			if a.X != b.X {
				return a.X < b.X
			}
			if a.Y != b.Y {
				return a.Y < b.Y
			}
			return a.Z < b.Z
		})
		distinct = 0
		for i := range sorted {
			if i == 0 || sorted[i] != sorted[i-1] {
				distinct++
			}
		}
	}
	_ = set
	l := &lattice3{xs: uniqSorted(xs), ys: uniqSorted(ys), zs: uniqSorted(zs), nodes: distinct}
	nx, ny, nz := len(l.xs), len(l.ys), len(l.zs)
	if nx < 2 || ny < 2 || nz < 2 {
		return nil, fmt.Errorf("learn: degenerate lattice %dx%dx%d", nx, ny, nz)
	}
	if distinct == nx*ny*nz {
		l.stride = 1
		l.complete = true
		return l, nil
	}
	// octree-like: samples are cell corners (all indices even) and cell centres (all odd)
	even, odd, other := 0, 0, 0
	seenEven := map[[3]int]struct{}{}
	for _, p := range pts {
		i, j, k := l.index(p)
		if i < 0 {
			return nil, fmt.Errorf("learn: point %v not on the coordinate grid", p)
		}
		switch {
		case i%2 == 0 && j%2 == 0 && k%2 == 0:
			if distinct != len(pts) {
				seenEven[[3]int{i, j, k}] = struct{}{}
			} else {
				even++
			}
		case i%2 == 1 && j%2 == 1 && k%2 == 1:
			odd++
		default:
			other++
		}
	}
	if distinct != len(pts) {
		even = len(seenEven)
	}
	if other == 0 && odd > 0 && nx%2 == 1 && ny%2 == 1 && nz%2 == 1 {
		l.stride = 2
		// a hierarchical renderer that skipped part of a surface-free volume leaves holes in the
		// corner lattice; that is for the mesh checks to judge, the lattice itself is still usable
		l.complete = even == ((nx+1)/2)*((ny+1)/2)*((nz+1)/2)
		return l, nil
	}
	l.stride = 1
	l.complete = false
	return l, nil
}

func findCoord(xs []float64, x float64) int {
	i := sort.SearchFloat64s(xs, x)
	if i < len(xs) && xs[i] == x {
		return i
	}
	// tolerate last-bit differences between runs of the same arithmetic
	best, bd := -1, math.Inf(1)
	for _, j := range []int{i - 1, i} {
		if j >= 0 && j < len(xs) {
			if d := math.Abs(xs[j] - x); d < bd {
				best, bd = j, d
			}
		}
	}
	if best >= 0 {
		sp := math.Abs(xs[len(xs)-1]-xs[0]) / float64(len(xs))
		if bd <= 1e-9*sp {
			return best
		}
	}
	return -1
}

func (l *lattice3) index(p v3.Vec) (int, int, int) {
	i, j, k := findCoord(l.xs, p.X), findCoord(l.ys, p.Y), findCoord(l.zs, p.Z)
	if i < 0 || j < 0 || k < 0 {
		return -1, -1, -1
	}
	return i, j, k
}

// cells returns the number of finest cells per axis.
func (l *lattice3) cells() (int, int, int) {
	return (len(l.xs) - 1) / l.stride, (len(l.ys) - 1) / l.stride, (len(l.zs) - 1) / l.stride
}

// corner returns the coordinates of cell-corner (ci,cj,ck) (cell units).
func (l *lattice3) corner(ci, cj, ck int) v3.Vec {
	return v3.Vec{X: l.xs[ci*l.stride], Y: l.ys[cj*l.stride], Z: l.zs[ck*l.stride]}
}

func (l *lattice3) cellSize() v3.Vec {
	return v3.Vec{X: l.xs[l.stride] - l.xs[0], Y: l.ys[l.stride] - l.ys[0], Z: l.zs[l.stride] - l.zs[0]}
}

// lookupField3 returns prescribed values at cell corners. Corner values live in
// vals[(ci*(ncy+1)+cj)*(ncz+1)+ck]; non-corner samples (octree cube centres)
// and off-lattice queries get `other`.
type lookupField3 struct {
	l          *lattice3
	bb         sdf.Box3
	vals       []float64
	other      float64
	offLattice int64
	ncy1, ncz1 int
}

func newLookupField3(l *lattice3, bb sdf.Box3, other float64) *lookupField3 {
	cx, cy, cz := l.cells()
	return &lookupField3{l: l, bb: bb, vals: make([]float64, (cx+1)*(cy+1)*(cz+1)), other: other, ncy1: cy + 1, ncz1: cz + 1}
}

func (f *lookupField3) at(ci, cj, ck int) *float64 { return &f.vals[(ci*f.ncy1+cj)*f.ncz1+ck] }
func (f *lookupField3) fill(v float64) {
	for i := range f.vals {
		f.vals[i] = v
	}
}
func (f *lookupField3) BoundingBox() sdf.Box3 { return f.bb }
func (f *lookupField3) Evaluate(p v3.Vec) float64 {
	i, j, k := f.l.index(p)
	if i < 0 {
		atomic.AddInt64(&f.offLattice, 1)
		return f.other
	}
	s := f.l.stride
	if i%s != 0 || j%s != 0 || k%s != 0 {
		return f.other
	}
	return *f.at(i/s, j/s, k/s)
}

//-----------------------------------------------------------------------------
// 2D lattice

type lattice2 struct {
	xs, ys   []float64
	stride   int
	complete bool
}

func learnLattice2(r render.Render2, bb sdf.Box2) (*lattice2, error) {
	rec := newRecSDF2(&fieldSDF2{bb: bb, fn: func(v2.Vec) float64 { return 1e-30 }})
	ls := collectLines(r, rec)
	if len(ls) != 0 {
		return nil, fmt.Errorf("learn2: surface-free field produced %d segments", len(ls))
	}
	var xs, ys []float64
	for p := range rec.events {
		xs, ys = append(xs, p.X), append(ys, p.Y)
	}
	l := &lattice2{xs: uniqSorted(xs), ys: uniqSorted(ys)}
	nx, ny := len(l.xs), len(l.ys)
	if nx < 2 || ny < 2 {
		return nil, fmt.Errorf("learn2: degenerate lattice %dx%d", nx, ny)
	}
	if len(rec.events) == nx*ny {
		l.stride = 1
		l.complete = true
		return l, nil
	}
	even, odd, other := 0, 0, 0
	for p := range rec.events {
		i, j := findCoord(l.xs, p.X), findCoord(l.ys, p.Y)
		switch {
		case i%2 == 0 && j%2 == 0:
			even++
		case i%2 == 1 && j%2 == 1:
			odd++
		default:
			other++
		}
	}
	if other == 0 && odd > 0 && nx%2 == 1 && ny%2 == 1 {
		l.stride = 2
		l.complete = even == ((nx+1)/2)*((ny+1)/2)
		return l, nil
	}
	l.stride = 1
	l.complete = false
	return l, nil
}

func (l *lattice2) cells() (int, int) { return (len(l.xs) - 1) / l.stride, (len(l.ys) - 1) / l.stride }
func (l *lattice2) corner(ci, cj int) v2.Vec {
	return v2.Vec{X: l.xs[ci*l.stride], Y: l.ys[cj*l.stride]}
}
func (l *lattice2) cellSize() v2.Vec {
	return v2.Vec{X: l.xs[l.stride] - l.xs[0], Y: l.ys[l.stride] - l.ys[0]}
}

type lookupField2 struct {
	l          *lattice2
	bb         sdf.Box2
	vals       []float64
	other      float64
	offLattice int64
	ncy1       int
}

func newLookupField2(l *lattice2, bb sdf.Box2, other float64) *lookupField2 {
	cx, cy := l.cells()
	return &lookupField2{l: l, bb: bb, vals: make([]float64, (cx+1)*(cy+1)), other: other, ncy1: cy + 1}
}
func (f *lookupField2) at(ci, cj int) *float64 { return &f.vals[ci*f.ncy1+cj] }
func (f *lookupField2) fill(v float64) {
	for i := range f.vals {
		f.vals[i] = v
	}
}
func (f *lookupField2) BoundingBox() sdf.Box2 { return f.bb }
func (f *lookupField2) Evaluate(p v2.Vec) float64 {
	i, j := findCoord(f.l.xs, p.X), findCoord(f.l.ys, p.Y)
	if i < 0 || j < 0 {
		atomic.AddInt64(&f.offLattice, 1)
		return f.other
	}
	s := f.l.stride
	if i%s != 0 || j%s != 0 {
		return f.other
	}
	return *f.at(i/s, j/s)
}

//-----------------------------------------------------------------------------
// collectors

// collectLines runs a 2D renderer with a caller-owned channel and returns
// the segments in delivery order.
func collectLines(r render.Render2, s sdf.SDF2) []*sdf.Line2 {
	ch := make(chan []*sdf.Line2)
	done := make(chan struct{})
	var out []*sdf.Line2
	go func() {
		for ls := range ch {
			out = append(out, ls...)
		}
		close(done)
	}()
	r.Render(s, sdf.NewLine2Buffer(ch))
	close(ch)
	<-done
	return out
}

// octreeNodes: lattice nodes the octree marching-cubes renderer can touch for a given cell count (it pads the box by 1 %
// and rounds the cube count up to a power of two).
func octreeNodes(cells int) int64 {
	w := int64(1)
	for float64(w) < 1.01*float64(cells) {
		w *= 2
	}
	return (w + 1) * (w + 1) * (w + 1)
}
