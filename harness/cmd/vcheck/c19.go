//go:build verif

// C19 - dual-contouring meshes are closed, oriented and near the surface.
package main

import (
	"fmt"
	"io"
	"log"
	"math"
	"os"
	"time"

	"github.com/deadsy/sdfx/render/dc"
	"github.com/deadsy/sdfx/sdf"
	v3 "github.com/deadsy/sdfx/vec/v3"
)

func init() {
	checks["C19"] = checkC19
	shardFns["c19"] = shardC19
}

func checkC19(c *Ctx) {
	c.Rule("exact shapes (sphere, rounded and sharp boxes axis-aligned and rotated, cylinder, cone, union, difference), each wrapped with a " +
		"bounding box enlarged by 10-30% so the surface is strictly inside the sampled volume, cubic and 2:1:1 / 1:1:2.5 aspect, rendered by " +
		"DualContouringV1 (no simplification, LockVertices on) and DualContouringV2 (defaults, clamping on) at resolutions 8..28 (quick) / 8..56, " +
		"never fewer than 4 cells across the shape's thinnest extent; " +
		"triangles are collected from the channel handed to Render. Oracle: welded directed-edge balance, positive signed volume (its error against " +
		"the analytic / densely sampled volume is reported, not judged), |f(v)| <= one cell diagonal, vertices inside the sampled box, identical output when rendered " +
		"twice. Non-trivial = render emitted >= 8 triangles; distinct = (renderer, shape, aspect, cells).")
	c.Assume("volume reference for CSG shapes is a 60^3 midpoint sampling of the field's sign (accurate to ~2%); welding tolerance 1e-6 of a cell")
	c.runSharded("c19", c.Pick(16, 64), 16, false, 30*time.Minute)
	c.Floor(c.Pick(300, 3000))
}

type c19Case struct {
	Index    int    `json:"index"`
	Renderer string `json:"renderer"`
	Cells    int    `json:"mesh_cells"`
	Shape    string `json:"shape"`
	Box      any    `json:"sampled_box"`
}

func c19Render(name string, s sdf.SDF3, cells int) []*sdf.Triangle3 {
	var out []*sdf.Triangle3
	done := make(chan struct{})
	if name == "v1" {
		ch := make(chan *sdf.Triangle3)
		go func() {
			for t := range ch {
				out = append(out, t)
			}
			close(done)
		}()
		dc.NewDualContouringV1(-1, 0, true).Render(s, cells, ch)
		close(ch)
	} else {
		ch := make(chan []*sdf.Triangle3)
		go func() {
			for ts := range ch {
				out = append(out, ts...)
			}
			close(done)
		}()
		dc.NewDualContouringDefault(cells).Render(s, ch)
		close(ch)
	}
	<-done
	return out
}

// c19ValueSDF is an SDF3 implemented on a value (not a pointer) with a slice field.
type c19ValueSDF struct {
	bb  sdf.Box3
	fns []func(v3.Vec) float64
}

func (s c19ValueSDF) Evaluate(p v3.Vec) float64 { return s.fns[0](p) }
func (s c19ValueSDF) BoundingBox() sdf.Box3     { return s.bb }

func shardC19(c *Ctx, shard, nshards int) {
	log.SetOutput(io.Discard) // the renderers log warnings
	n := c.Pick(480, 4000)
	maxCells := c.Pick(28, 56)
	for i := 0; i < c.Pick(16, 200); i++ {
		if i%nshards == shard {
			c19Reuse(c, i)
		}
	}
	c19Special(c, shard, nshards)
	if shard == 0 {
		c19PinnedSmall(c)
		c19PinnedSmallVertex(c)
	}
	for i := 0; i < n; i++ {
		if i%nshards != shard {
			continue
		}
		if only := os.Getenv("VCHECK_ONLY"); only != "" && only != fmt.Sprint(i) { // debugging aid
			continue
		}
		r := c.Rng("case", i)
		scale := r.LogR(0.3, 30)
		smallUnits := false
		if r.P(0.25) { // the same part in other units
			k := pickOne(r, []float64{1e-5, 1e-4, 1e-3, 1e3, 1e5})
			smallUnits = k < 1
			scale *= k
		}
		var s sdf.SDF3
		var desc string
		vol := 0.0
		minFactor := 1.0
		switch i % 8 {
		case 0:
			rad := scale * r.R(0.6, 1)
			s, _ = sdf.Sphere3D(rad)
			desc, vol = fmt.Sprintf("sphere(%.4g)", rad), 4.0/3*math.Pi*rad*rad*rad
		case 1, 2:
			sz := v3.Vec{X: scale * r.R(0.8, 2), Y: scale * r.R(0.8, 2), Z: scale * r.R(0.8, 2)}
			rd := 0.0
			if i%8 == 2 {
				rd = 0.3 * sz.MinComponent() * r.R(0.3, 1)
			} else {
				vol = sz.X * sz.Y * sz.Z
			}
			s, _ = sdf.Box3D(sz, rd)
			desc = fmt.Sprintf("box(%.4g,%.4g,%.4g;r=%.4g)", sz.X, sz.Y, sz.Z, rd)
		case 3:
			h, rad := scale*r.R(1, 2.5), scale*r.R(0.5, 1)
			s, _ = sdf.Cylinder3D(h, rad, 0)
			desc, vol = fmt.Sprintf("cylinder(%.4g,%.4g)", h, rad), math.Pi*rad*rad*h
		case 4:
			h, r0, r1 := scale*r.R(1, 2), scale*r.R(0.6, 1), scale*r.R(0.2, 0.6)
			s, _ = sdf.Cone3D(h, r0, r1, 0)
			desc, vol = fmt.Sprintf("cone(%.4g,%.4g,%.4g)", h, r0, r1), math.Pi*h/3*(r0*r0+r0*r1+r1*r1)
		case 5:
			a, _ := sdf.Sphere3D(scale)
			b, _ := sdf.Box3D(v3.Vec{X: scale * 1.4, Y: scale * 1.4, Z: scale * 1.4}, 0)
			s = sdf.Union3D(a, sdf.Transform3D(b, sdf.Translate3d(v3.Vec{X: scale * 0.8})))
			desc = "union(sphere,box)"
		case 6:
			a, _ := sdf.Box3D(v3.Vec{X: scale * 2, Y: scale * 2, Z: scale * 2}, 0)
			b, _ := sdf.Sphere3D(scale * 0.9)
			s = sdf.Difference3D(a, sdf.Transform3D(b, sdf.Translate3d(v3.Vec{X: scale, Y: scale, Z: scale})))
			desc = "difference(box,sphere at corner)"
		default:
			sz := v3.Vec{X: scale * r.R(1, 2), Y: scale * r.R(1, 2), Z: scale * r.R(1, 2)}
			s, _ = sdf.Box3D(sz, 0)
			desc, vol = fmt.Sprintf("box(%.4g,%.4g,%.4g)", sz.X, sz.Y, sz.Z), sz.X*sz.Y*sz.Z
		}
		if r.P(0.25) {
			// squashed / stretched: the field is no longer a distance (it over- or underestimates by the factors)
			f := v3.Vec{X: r.LogR(0.25, 2.5), Y: r.LogR(0.25, 2.5), Z: r.LogR(0.25, 2.5)}
			s = sdf.Transform3D(s, sdf.Scale3d(f))
			desc += fmt.Sprintf(" scaled(%.3g,%.3g,%.3g)", f.X, f.Y, f.Z)
			vol *= f.X * f.Y * f.Z
			minFactor = math.Min(1, f.MinComponent())
		}
		if r.P(0.5) && i%8 != 0 {
			ax := v3.Vec{X: r.N(), Y: r.N(), Z: r.N()}.Normalize()
			a := r.R(0, 2*math.Pi)
			s = sdf.Transform3D(s, sdf.Rotate3d(ax, a))
			desc += fmt.Sprintf(" rot(%.3g)", a)
		}
		t := v3.Vec{X: r.R(-2, 2) * scale, Y: r.R(-2, 2) * scale, Z: r.R(-2, 2) * scale}
		if r.P(0.3) { // far from the origin relative to its size
			t = t.MulScalar(pickOne(r, []float64{1e2, 1e4, 1e5}))
			desc += fmt.Sprintf(" at %v", t)
		}
		s = sdf.Transform3D(s, sdf.Translate3d(t))
		// enlarged, possibly non-cubic sampled box
		bb := s.BoundingBox()
		grow := bb.Size().MulScalar(r.R(0.1, 0.3))
		switch r.I(3) {
		case 1:
			grow.X += bb.Size().MaxComponent()
		case 2:
			grow.Z += 1.5 * bb.Size().MaxComponent()
		}
		box := bb.Enlarge(grow)
		// the shape has to be resolvable: at least 4 cells across its thinnest extent (a grid cannot mesh what it cannot see)
		need := int(math.Ceil(4 * box.Size().MaxComponent() / bb.Size().MinComponent()))
		if need > maxCells {
			box = bb.Enlarge(bb.Size().MulScalar(r.R(0.1, 0.3)))
			need = int(math.Ceil(4 * box.Size().MaxComponent() / bb.Size().MinComponent()))
		}
		if need > maxCells {
			continue
		}
		fs := s
		var wrapped sdf.SDF3 = &fieldSDF3{bb: box, fn: fs.Evaluate}
		if r.P(0.15) {
			// a user shape passed by value whose struct holds a slice (not comparable with ==): a renderer may call it, not compare it
			wrapped = c19ValueSDF{bb: box, fns: []func(v3.Vec) float64{fs.Evaluate}}
			desc += " [value-type shape]"
		}
		cells := r.IR(maxInt2(8, need), maxCells)
		name := []string{"v1", "v2"}[(i/8)%2]
		cs := c19Case{i, name, cells, desc, box}
		fmt.Printf("CASE %d %s cells=%d %s\n", i, name, cells, desc)
		ts := c19Render(name, wrapped, cells)
		c.Eval(1)
		if len(ts) < 8 {
			key := ""
			if smallUnits && name == "v2" {
				key = c19KeySmallVertex // the same limitation: V2's absolute step sizes against a part of a few thousandths of a unit
			}
			c.Violate(key, fmt.Sprintf("dc-empty %s cells=%d %s: only %d triangles for a solid strictly inside the sampled box", name, cells, desc, len(ts)), cs)
			continue
		}
		c.Distinct(fmt.Sprintf("%s/%s/%d/%d", name, desc, cells, i))
		if i < 16 && i%8 == 1 {
			c.Sample(cs)
		}
		cell := box.Size().MaxComponent() / float64(cells)
		diag := cell * math.Sqrt(3)
		rep := checkClosed3(ts, 1e-6*cell)
		c.Count("triangles_checked", int64(rep.Triangles))
		tag := fmt.Sprintf("%s cells=%d %s", name, cells, desc)
		if rep.NaN > 0 {
			c.Violate("", fmt.Sprintf("dc-nan %s: %d non-finite coordinates", tag, rep.NaN), cs)
			continue
		}
		if dbg := os.Getenv("VCHECK_DEBUG_FILE"); rep.Unbalanced > 0 && dbg != "" {
			if f, err := os.OpenFile(dbg, os.O_APPEND|os.O_CREATE|os.O_WRONLY, 0644); err == nil {
				fmt.Fprintf(f, "case %d box=%v cell=%g\n", i, box, cell)
				for _, e := range rep.BadEdges {
					fmt.Fprintf(f, "bad edge %v\n", e)
				}
				for _, tr := range ts {
					for _, e := range rep.BadEdges {
						for k := 0; k < 3; k++ {
							if tr[k].Sub(e[0]).Length() < 1e-6*cell || tr[k].Sub(e[1]).Length() < 1e-6*cell {
								fmt.Fprintf(f, "  tri %v\n", *tr)
								k = 3
							}
						}
					}
				}
				f.Close()
			}
		}
		if rep.Unbalanced > 0 {
			c.Violate("", fmt.Sprintf("dc-open %s: %d unmatched directed edges (first %v) in %d triangles", tag, rep.Unbalanced, rep.FirstBadEdge, rep.Triangles), cs)
		}
		// volume (translate to the shape's centre for conditioning)
		ctr := bb.Center()
		mv := 0.0
		for _, tr := range ts {
			mv += tr[0].Sub(ctr).Dot(tr[1].Sub(ctr).Cross(tr[2].Sub(ctr))) / 6
		}
		if vol == 0 {
			vol = sampledVolume(fs, bb, 60)
		}
		c.MaxObs("worst_relative_volume_error", math.Abs(mv-vol)/vol)
		if rep.Unbalanced == 0 && !(mv > 0) {
			c.Violate("", fmt.Sprintf("dc-orientation %s: enclosed signed volume %g is not positive (true volume %g)", tag, mv, vol), cs)
		}
		worstF, outside := 0.0, 0
		tol := 1e-9 * box.Size().MaxComponent()
		for _, tr := range ts {
			for k := 0; k < 3; k++ {
				v := tr[k]
				if f := math.Abs(fs.Evaluate(v)); f > worstF {
					worstF = f
				}
				if v.X < box.Min.X-tol || v.Y < box.Min.Y-tol || v.Z < box.Min.Z-tol || v.X > box.Max.X+tol || v.Y > box.Max.Y+tol || v.Z > box.Max.Z+tol {
					outside++
				}
			}
		}
		c.MaxObs("worst_vertex_distance_over_cell_diagonal", worstF/diag)
		// DualContouringV2 estimates normals with an absolute step of 1e-3: for parts of a few thousandths of a unit its vertices
		// drift from ~0.1 to ~1 cell diagonal off the surface (pinned known finding c19KeySmallVertex); generated small-unit
		// V2 cases are judged on closure, orientation, box and determinism only
		if worstF*minFactor > diag && !(smallUnits && name == "v2") { // a squashed field reports up to 1/minFactor times the true distance
			c.Violate("", fmt.Sprintf("dc-far-vertex %s: a vertex is %g from the surface, cell diagonal %g", tag, worstF, diag), cs)
		}
		if outside > 0 {
			c.Violate("", fmt.Sprintf("dc-outside-box %s: %d vertices outside the sampled box", tag, outside), cs)
		}
		// identical on a repeated run
		ts2 := c19Render(name, wrapped, cells)
		same := len(ts) == len(ts2)
		for k := 0; same && k < len(ts); k++ {
			same = *ts[k] == *ts2[k]
		}
		if !same {
			c.Violate("", fmt.Sprintf("dc-nondeterministic %s: two runs produced different triangle sequences (%d vs %d triangles)", tag, len(ts), len(ts2)), cs)
		}
	}
}

// c19Reuse renders a sequence of different shapes over one fixed sampled box with ONE renderer value and compares each
// result with a fresh renderer's: a renderer must not carry state from one render into the next.
func c19Reuse(c *Ctx, idx int) {
	r := c.Rng("reuse", idx)
	cells := r.IR(10, 20)
	box := sdf.Box3{Min: v3.Vec{X: -2, Y: -2, Z: -2}, Max: v3.Vec{X: 2, Y: 2, Z: 2}}
	mk := func(k int) (sdf.SDF3, string) {
		switch k % 6 {
		case 4: // a squashed sphere next to an exact one: its field overestimates distances (ray marches towards it may fail)
			a, _ := sdf.Sphere3D(0.9)
			b, _ := sdf.Sphere3D(1)
			f := v3.Vec{X: r.R(0.3, 0.7), Y: 1, Z: r.R(0.6, 0.9)}
			return sdf.Union3D(sdf.Transform3D(a, sdf.Translate3d(v3.Vec{X: -0.5})), sdf.Transform3D(b, sdf.Translate3d(v3.Vec{X: 0.6}).Mul(sdf.Scale3d(f)))), fmt.Sprintf("sphere + sphere scaled %v", f)
		case 5: // a stretched box: the field underestimates
			b, _ := sdf.Box3D(v3.Vec{X: 1, Y: 1, Z: 1}, 0.1)
			f := v3.Vec{X: r.R(1.2, 2.4), Y: r.R(0.8, 1.5), Z: 1}
			return sdf.Transform3D(b, sdf.Scale3d(f)), fmt.Sprintf("rounded box scaled %v", f)
		case 0:
			s, _ := sdf.Sphere3D(1)
			return s, "sphere(1)"
		case 1:
			s, _ := sdf.Sphere3D(1)
			t := v3.Vec{X: r.R(0.2, 0.6), Y: r.R(-0.3, 0.3)}
			return sdf.Transform3D(s, sdf.Translate3d(t)), fmt.Sprintf("sphere(1) at %v", t)
		case 2:
			b, _ := sdf.Box3D(v3.Vec{X: 2, Y: 2, Z: 2}, 0)
			a := r.R(0.2, 1.2)
			return sdf.Transform3D(b, sdf.Rotate3d(v3.Vec{X: 1, Y: 1}.Normalize(), a)), fmt.Sprintf("cube(2) rot %.3g", a)
		}
		cy, _ := sdf.Cylinder3D(2.4, 0.8, 0.2)
		return cy, "cylinder(2.4,0.8,0.2)"
	}
	sharedV2 := dc.NewDualContouringDefault(cells)
	sharedV1 := dc.NewDualContouringV1(-1, 0, true)
	collectV2 := func(rd *dc.DualContouringV2, s sdf.SDF3) []*sdf.Triangle3 {
		var out []*sdf.Triangle3
		ch := make(chan []*sdf.Triangle3)
		done := make(chan struct{})
		go func() {
			for ts := range ch {
				out = append(out, ts...)
			}
			close(done)
		}()
		rd.Render(s, ch)
		close(ch)
		<-done
		return out
	}
	collectV1 := func(rd *dc.DualContouringV1, s sdf.SDF3) []*sdf.Triangle3 {
		var out []*sdf.Triangle3
		ch := make(chan *sdf.Triangle3)
		done := make(chan struct{})
		go func() {
			for t := range ch {
				out = append(out, t)
			}
			close(done)
		}()
		rd.Render(s, cells, ch)
		close(ch)
		<-done
		return out
	}
	same := func(a, b []*sdf.Triangle3) bool {
		if len(a) != len(b) {
			return false
		}
		for i := range a {
			if *a[i] != *b[i] {
				return false
			}
		}
		return true
	}
	for step := 0; step < 5; step++ {
		s, desc := mk(step + idx)
		w := &fieldSDF3{bb: box, fn: s.Evaluate}
		a2, b2 := collectV2(sharedV2, w), collectV2(dc.NewDualContouringDefault(cells), w)
		a1, b1 := collectV1(sharedV1, w), collectV1(dc.NewDualContouringV1(-1, 0, true), w)
		c.Eval(2)
		cs := c19Case{idx, "reused", cells, fmt.Sprintf("step %d: %s", step, desc), box}
		if !same(a2, b2) {
			c.Violate("", fmt.Sprintf("dc-history-dependent v2 cells=%d step %d (%s): a renderer that rendered other shapes before gives %d triangles, a fresh one %d (or different coordinates)", cells, step, desc, len(a2), len(b2)), cs)
		}
		if !same(a1, b1) {
			c.Violate("", fmt.Sprintf("dc-history-dependent v1 cells=%d step %d (%s): reused renderer %d triangles, fresh %d", cells, step, desc, len(a1), len(b1)), cs)
		}
		if step > 0 {
			c.Distinct(fmt.Sprintf("reuse/%d/%d/%s", idx, step, desc))
		}
	}
}

func sampledVolume(s sdf.SDF3, bb sdf.Box3, n int) float64 {
	sz := bb.Size()
	in := 0
	for i := 0; i < n; i++ {
		for j := 0; j < n; j++ {
			for k := 0; k < n; k++ {
				p := v3.Vec{X: bb.Min.X + (float64(i)+0.5)/float64(n)*sz.X, Y: bb.Min.Y + (float64(j)+0.5)/float64(n)*sz.Y, Z: bb.Min.Z + (float64(k)+0.5)/float64(n)*sz.Z}
				if s.Evaluate(p) < 0 {
					in++
				}
			}
		}
	}
	return float64(in) / float64(n*n*n) * sz.X * sz.Y * sz.Z
}

func maxInt2(a, b int) int {
	if a > b {
		return a
	}
	return b
}

// c19PinnedSmall: pinned regressions of a repaired defect (sdfx 8f41c8a): DualContouringV2 dropped a whole quad when one of
// its two triangles had coincident vertices, which left triangular holes - frequent for parts of a few thousandths of a unit.
func c19PinnedSmall(c *Ctx) {
	for _, k := range []float64{1e-3, 1} {
		b, _ := sdf.Box3D(v3.Vec{X: k, Y: 2 * k, Z: k}, 0)
		box := b.BoundingBox().Enlarge(v3.Vec{X: 0.4 * k, Y: 0.4 * k, Z: 0.4 * k})
		ts := c19Render("v2", &fieldSDF3{bb: box, fn: b.Evaluate}, 26)
		c.Eval(1)
		cell := box.Size().MaxComponent() / 26
		rep := checkClosed3(ts, 1e-6*cell)
		if rep.Unbalanced > 0 || len(ts) < 8 {
			c.Violate("", fmt.Sprintf("dc-open v2 cells=26 pinned Box3D(%g,%g,%g) in a box %g larger: %d unmatched directed edges in %d triangles", k, 2*k, k, 0.4*k, rep.Unbalanced, len(ts)),
				map[string]any{"renderer": "v2", "cells": 26, "box": box})
		}
	}
}

// c19PinnedSmallVertex: known finding, identified by this input.
const c19KeySmallVertex = "dcv2-cone-7e-4-units-28-cells-vertex-off-surface"

func c19PinnedSmallVertex(c *Ctx) {
	worstOver := func(k float64) float64 {
		s, _ := sdf.Cone3D(7*k, 5*k, 2*k, 0)
		bb := s.BoundingBox()
		box := bb.Enlarge(bb.Size().MulScalar(0.2))
		ts := c19Render("v2", &fieldSDF3{bb: box, fn: s.Evaluate}, 28)
		c.Eval(1)
		diag := box.Size().MaxComponent() / 28 * math.Sqrt(3)
		worst := 0.0
		for _, tr := range ts {
			for q := 0; q < 3; q++ {
				worst = math.Max(worst, math.Abs(s.Evaluate(tr[q])))
			}
		}
		return worst / diag
	}
	small, unit := worstOver(1e-4), worstOver(1)
	c.Obs("v2_cone_28_cells_worst_vertex_over_diagonal_at_1e-4_units", small)
	c.Obs("v2_cone_28_cells_worst_vertex_over_diagonal_at_unit_size", unit)
	if unit > 1 {
		c.Violate("", fmt.Sprintf("dc-far-vertex v2 cells=28 pinned Cone3D(7,5,2): a vertex is %.3f cell diagonals from the surface", unit), map[string]any{"renderer": "v2", "cells": 28})
	}
	if small > 1 {
		c.Violate(c19KeySmallVertex, fmt.Sprintf("dc-far-vertex-small-units v2 cells=28 Cone3D(0.0007,0.0005,0.0002): a vertex is %.3f cell diagonals from the surface (the same cone 10000x larger: %.3f)", small, unit),
			map[string]any{"renderer": "v2", "cells": 28})
	}
}

// c19Special: (a) surfaces passing exactly through grid vertices (sampled box exactly 2x / 4x the shape, power-of-two cells),
// (b) very high resolutions along one axis (cell indices beyond 1024).
func c19Special(c *Ctx, shard, nshards int) {
	type sp struct {
		name  string
		s     sdf.SDF3
		box   sdf.Box3
		cells int
		rd    string
		vol   float64
	}
	var cases []sp
	for _, sz := range []float64{0.6, 1.4, 0.3, 0.7, 1.0} {
		for _, f := range []float64{2, 4} {
			for _, cells := range []int{16, 32} {
				b, _ := sdf.Box3D(v3.Vec{X: sz, Y: sz, Z: sz}, 0)
				h := sz * f / 2
				box := sdf.Box3{Min: v3.Vec{X: -h, Y: -h, Z: -h}, Max: v3.Vec{X: h, Y: h, Z: h}}
				for _, rd := range []string{"v1", "v2"} {
					cases = append(cases, sp{fmt.Sprintf("cube %g in a box exactly %gx its size", sz, f), b, box, cells, rd, sz * sz * sz})
				}
			}
		}
	}
	for _, rad := range []float64{0.3, 1.0} {
		sph, _ := sdf.Sphere3D(rad)
		box := sdf.Box3{Min: v3.Vec{X: -2 * rad, Y: -2 * rad, Z: -2 * rad}, Max: v3.Vec{X: 2 * rad, Y: 2 * rad, Z: 2 * rad}}
		for _, rd := range []string{"v1", "v2"} {
			cases = append(cases, sp{fmt.Sprintf("sphere %g in a box exactly 2x its size", rad), sph, box, 16, rd, 4.0 / 3 * math.Pi * rad * rad * rad})
		}
	}
	for _, n := range []int{1100, 1300} {
		for axis := 1; axis < 3; axis++ {
			sz := v3.Vec{X: 0.5, Y: 0.5, Z: 0.5}
			sz.Set(axis, 100)
			rod, _ := sdf.Box3D(sz, 0)
			bb := rod.BoundingBox()
			box := bb.ScaleAboutCenter(1.3)
			cases = append(cases, sp{fmt.Sprintf("rod 0.5x0.5x100 along axis %d", axis), rod, box, n, "v2", 25})
		}
	}
	// parts drawn in world coordinates (a site plan in UTM metres, a part at 4.2e6 on one axis): the lattice spacing is below
	// the float32 spacing of the coordinates, so anything that keys, hashes or stores sample points in single precision shows
	for _, t := range []v3.Vec{{X: 4.2e6}, {X: 300000, Y: 5100000, Z: 250}, {X: -1.7e7, Y: 1.7e7, Z: -1.7e7}} {
		sph, _ := sdf.Sphere3D(5)
		far := sdf.Transform3D(sph, sdf.Translate3d(t))
		for _, rd := range []string{"v1", "v2"} {
			cases = append(cases, sp{fmt.Sprintf("sphere 5 at %v", t), far, far.BoundingBox().ScaleAboutCenter(1.3), 40, rd, 4.0 / 3 * math.Pi * 125})
		}
	}
	for i, k := range cases {
		if i%nshards != shard {
			continue
		}
		fmt.Printf("SPECIAL %s %s cells=%d\n", k.rd, k.name, k.cells)
		w := &fieldSDF3{bb: k.box, fn: k.s.Evaluate}
		ts := c19Render(k.rd, w, k.cells)
		c.Eval(1)
		cs := c19Case{i, k.rd, k.cells, k.name, k.box}
		if len(ts) < 8 {
			c.Violate("", fmt.Sprintf("dc-empty %s cells=%d %s: only %d triangles", k.rd, k.cells, k.name, len(ts)), cs)
			continue
		}
		cell := k.box.Size().MaxComponent() / float64(k.cells)
		rep := checkClosed3(ts, 1e-6*cell)
		if rep.Unbalanced > 0 {
			c.Violate("", fmt.Sprintf("dc-open %s cells=%d %s: %d unmatched directed edges (first %v) in %d triangles", k.rd, k.cells, k.name, rep.Unbalanced, rep.FirstBadEdge, rep.Triangles), cs)
			continue
		}
		if !(rep.Volume > 0) {
			c.Violate("", fmt.Sprintf("dc-orientation %s cells=%d %s: enclosed signed volume %g is not positive (true volume %g)", k.rd, k.cells, k.name, rep.Volume, k.vol), cs)
			continue
		}
		worst := 0.0
		for _, t := range ts {
			for q := 0; q < 3; q++ {
				if f := math.Abs(k.s.Evaluate(t[q])); f > worst {
					worst = f
				}
			}
		}
		if worst > cell*math.Sqrt(3) {
			c.Violate("", fmt.Sprintf("dc-far-vertex %s cells=%d %s: a vertex is %g from the surface, cell diagonal %g", k.rd, k.cells, k.name, worst, cell*math.Sqrt(3)), cs)
			continue
		}
		c.Distinct(fmt.Sprintf("special/%s/%s/%d", k.rd, k.name, k.cells))
	}
}
