//go:build verif

// Expression-tree generator with metric classes and a reference interpreter
// (used by C01, C02, C03, C10). Every node is a real sdfx constructor call; the
// reference semantics call real code only on the leaves.
package main

import (
	"fmt"
	"math"
	"strings"

	"github.com/deadsy/sdfx/sdf"
	v2 "github.com/deadsy/sdfx/vec/v2"
	"github.com/deadsy/sdfx/vec/v2i"
	v3 "github.com/deadsy/sdfx/vec/v3"
	"github.com/deadsy/sdfx/vec/v3i"
)

type node struct {
	kind  string
	dim   int
	kids  []*node
	desc  string
	s2    sdf.SDF2
	s3    sdf.SDF3
	ref2  func(p v2.Vec) []float64 // acceptable reference values (more than one only at fold boundaries)
	ref3  func(p v3.Vec) []float64
	exact bool // Euclidean signed distance
	lip1  bool // 1-Lipschitz
	boxlb bool // value >= per-axis outside distance to the node's box
	symY  bool // mirror symmetric under y -> -y (needed below rotate-copy for continuity)
	blend bool // a blend function is installed somewhere below (values are bounded, not equal, see C02)
	ops   int  // number of operator nodes below (incl. this)
	p     []float64
	rot   bool    // transform node with a rotation that is not a multiple of 90 degrees about an axis
	off   float64 // offset nodes: the offset
}

func (n *node) String() string { return n.desc }

func (n *node) size() float64 {
	if n.dim == 2 {
		return n.s2.BoundingBox().Size().Length()
	}
	return n.s3.BoundingBox().Size().Length()
}

func allKids(n *node, f func(*node) bool) bool {
	for _, k := range n.kids {
		if !f(k) {
			return false
		}
	}
	return true
}

// lb2: outside its box the value is at least the Euclidean distance to the box (what Union2D's box pruning and
// rotated boxes need). Derived from the node kinds, bottom-up.
func (n *node) lb2() bool {
	if len(n.kids) == 0 {
		return n.exact
	}
	k0 := n.kids[0]
	switch n.kind {
	case "transform", "scaleuniform", "center", "centerandscale", "cache", "orient", "rotateunion", "rotatecopy", "shell", "extruderounded":
		return k0.lb2()
	case "union", "multi", "lineof", "array", "elongate":
		return !(n.kind == "union" && len(n.p) > 0) && allKids(n, (*node).lb2)
	case "difference", "intersect", "cut":
		return len(n.p) == 0 && k0.lb2()
	case "offset":
		return n.off > 0 && k0.lb2()
	case "revolve":
		return (len(n.p) == 0 || n.p[0] == 0) && k0.lb2()
	}
	return false
}

// lbInf: outside its box the value is at least the per-axis outside distance (what makes an Offset/Shell box meaningful).
func (n *node) lbInf() bool {
	if n.lb2() {
		return true
	}
	if len(n.kids) == 0 {
		return false
	}
	k0 := n.kids[0]
	switch n.kind {
	case "transform":
		return !n.rot && k0.lbInf()
	case "scaleuniform", "center", "centerandscale", "cache", "shell", "extrude", "extruderounded":
		return k0.lbInf()
	case "union", "multi", "lineof", "array", "elongate", "loft":
		return !(n.kind == "union" && len(n.p) > 0) && allKids(n, (*node).lbInf)
	case "difference", "intersect", "cut":
		return len(n.p) == 0 && k0.lbInf()
	case "offset":
		return n.off > 0 && k0.lbInf()
	case "revolve":
		return (len(n.p) == 0 || n.p[0] == 0) && k0.lbInf()
	}
	return false
}

// mayBeEmpty: the shape can have no material at all (or none in parts of its box).
func (n *node) mayBeEmpty() bool {
	switch n.kind {
	case "difference", "intersect", "cut":
		return true
	case "offset":
		if n.off < 0 {
			return true
		}
	}
	for _, k := range n.kids {
		if k.mayBeEmpty() {
			return true
		}
	}
	return false
}

type genOpts struct {
	lip1Only  bool // only operators that keep 1-Lipschitz (C03)
	noBlend   bool
	exactOnly bool // only distance-preserving operators over exact leaves
}

func one(v float64) []float64 { return []float64{v} }

func minAll(xs ...[]float64) []float64 {
	// The set of achievable minima when each operand may take any value of its set: v (from any operand) is achievable iff
	// every operand can take a value >= v, i.e. v <= the smallest of the operands' largest values. Exact, and the size is
	// the sum (not the product) of the operand set sizes.
	cap := math.Inf(1)
	for _, x := range xs {
		if isAmbiguous(x) {
			return ambiguousSet
		}
		hi := math.Inf(-1)
		for _, v := range x {
			hi = math.Max(hi, v)
		}
		cap = math.Min(cap, hi)
	}
	var out []float64
	for _, x := range xs {
		for _, v := range x {
			if v <= cap {
				out = append(out, v)
			}
		}
	}
	return dedupF(out)
}

// ambiguousSet marks a reference set that grew beyond what is tracked (many nested either-or choices at one point):
// the comparison at that point is skipped, never judged against a truncated list.
var ambiguousSet = []float64{math.NaN()}

func isAmbiguous(x []float64) bool {
	for _, v := range x {
		if math.IsNaN(v) {
			return true
		}
	}
	return false
}

func dedupF(x []float64) []float64 {
	if len(x) <= 1 {
		return x
	}
	if isAmbiguous(x) {
		return ambiguousSet
	}
	out := x[:0:0]
	for _, v := range x {
		dup := false
		for _, o := range out {
			if o == v {
				dup = true
			}
		}
		if !dup {
			out = append(out, v)
		}
	}
	if len(out) > 64 {
		return ambiguousSet
	}
	return out
}

func mapF(x []float64, f func(float64) float64) []float64 {
	out := make([]float64, len(x))
	for i, v := range x {
		out[i] = f(v)
	}
	return out
}

func comb2(a, b []float64, f func(x, y float64) float64) []float64 {
	var out []float64
	for _, x := range a {
		for _, y := range b {
			out = append(out, f(x, y))
		}
	}
	return dedupF(out)
}

//-----------------------------------------------------------------------------
// independent linear algebra for the reference interpreter

type mat4 [16]float64
type mat3 [9]float64

func (m mat4) mulPos(p v3.Vec) v3.Vec {
	return v3.Vec{
		X: m[0]*p.X + m[1]*p.Y + m[2]*p.Z + m[3],
		Y: m[4]*p.X + m[5]*p.Y + m[6]*p.Z + m[7],
		Z: m[8]*p.X + m[9]*p.Y + m[10]*p.Z + m[11]}
}
func (m mat3) mulPos(p v2.Vec) v2.Vec {
	return v2.Vec{X: m[0]*p.X + m[1]*p.Y + m[2], Y: m[3]*p.X + m[4]*p.Y + m[5]}
}

// gaussInverse inverts an n x n matrix (row major) by Gauss-Jordan with partial pivoting.
func gaussInverse(a []float64, n int) []float64 {
	w := 2 * n
	m := make([]float64, n*w)
	for i := 0; i < n; i++ {
		for j := 0; j < n; j++ {
			m[i*w+j] = a[i*n+j]
		}
		m[i*w+n+i] = 1
	}
	for c := 0; c < n; c++ {
		piv := c
		for r := c + 1; r < n; r++ {
			if math.Abs(m[r*w+c]) > math.Abs(m[piv*w+c]) {
				piv = r
			}
		}
		if piv != c {
			for j := 0; j < w; j++ {
				m[c*w+j], m[piv*w+j] = m[piv*w+j], m[c*w+j]
			}
		}
		d := m[c*w+c]
		for j := 0; j < w; j++ {
			m[c*w+j] /= d
		}
		for r := 0; r < n; r++ {
			if r != c {
				f := m[r*w+c]
				if f != 0 {
					for j := 0; j < w; j++ {
						m[r*w+j] -= f * m[c*w+j]
					}
				}
			}
		}
	}
	out := make([]float64, n*n)
	for i := 0; i < n; i++ {
		for j := 0; j < n; j++ {
			out[i*n+j] = m[i*w+n+j]
		}
	}
	return out
}

func inv4(m sdf.M44) mat4 {
	v := m.Values()
	var o mat4
	copy(o[:], gaussInverse(v[:], 4))
	return o
}
func inv3(m sdf.M33) mat3 {
	v := m.Values()
	var o mat3
	copy(o[:], gaussInverse(v[:], 3))
	return o
}
func (a mat4) mul(b mat4) mat4 {
	var o mat4
	for i := 0; i < 4; i++ {
		for j := 0; j < 4; j++ {
			for k := 0; k < 4; k++ {
				o[i*4+j] += a[i*4+k] * b[k*4+j]
			}
		}
	}
	return o
}
func (a mat3) mul(b mat3) mat3 {
	var o mat3
	for i := 0; i < 3; i++ {
		for j := 0; j < 3; j++ {
			for k := 0; k < 3; k++ {
				o[i*3+j] += a[i*3+k] * b[k*3+j]
			}
		}
	}
	return o
}

var id4 = mat4{1, 0, 0, 0, 0, 1, 0, 0, 0, 0, 1, 0, 0, 0, 0, 1}
var id3 = mat3{1, 0, 0, 0, 1, 0, 0, 0, 1}

//-----------------------------------------------------------------------------
// leaves

func leaf2(r *Rng, scale float64) *node {
	n := &node{dim: 2, exact: true, lip1: true, boxlb: true}
	switch r.I(5) {
	case 0:
		rad := scale * r.R(0.3, 1)
		n.s2, _ = sdf.Circle2D(rad)
		n.kind, n.desc, n.symY = "circle", fmt.Sprintf("Circle2D(%.4g)", rad), true
	case 1:
		sz := v2.Vec{X: scale * r.R(0.3, 2), Y: scale * r.R(0.3, 2)}
		rd := 0.0
		switch r.I(4) {
		case 0:
			rd = 0.5 * math.Min(sz.X, sz.Y) * r.F()
		case 1:
			rd = 0.5 * math.Min(sz.X, sz.Y) // admissible maximum
		case 2:
			rd = 1e-6 * scale
		}
		n.s2 = sdf.Box2D(sz, rd)
		n.kind, n.desc, n.symY = "box2", fmt.Sprintf("Box2D(%.4g,%.4g;r=%.4g)", sz.X, sz.Y, rd), true
	case 2:
		l, rd := scale*r.R(0.3, 2), scale*r.R(0.05, 0.5)
		n.s2 = sdf.Line2D(l, rd)
		n.kind, n.desc, n.symY = "line2", fmt.Sprintf("Line2D(%.4g,%.4g)", l, rd), true
	case 3: // star-shaped polygon (always simple)
		k := r.IR(3, 9)
		vs := make([]v2.Vec, k)
		for i := range vs {
			a := 2 * math.Pi * (float64(i) + r.R(0.1, 0.9)) / float64(k)
			rad := scale * r.R(0.3, 1)
			vs[i] = v2.Vec{X: rad * math.Cos(a), Y: rad * math.Sin(a)}
		}
		s, err := sdf.Polygon2D(vs)
		if err != nil {
			return leaf2(r, scale)
		}
		n.s2 = s
		n.kind, n.desc = "polygon", fmt.Sprintf("Polygon2D(star,%d)", k)
	default:
		k := r.IR(3, 8)
		rad := scale * r.R(0.3, 1)
		s, err := sdf.Polygon2D(sdf.Nagon(k, rad))
		if err != nil {
			return leaf2(r, scale)
		}
		n.s2 = s
		n.kind, n.desc = "nagon", fmt.Sprintf("Polygon2D(Nagon(%d,%.4g))", k, rad)
	}
	s := n.s2
	n.ref2 = func(p v2.Vec) []float64 { return one(s.Evaluate(p)) }
	return n
}

func leaf3(r *Rng, scale float64) *node {
	n := &node{dim: 3, exact: true, lip1: true, boxlb: true, symY: true}
	switch r.I(5) {
	case 0:
		rad := scale * r.R(0.3, 1)
		n.s3, _ = sdf.Sphere3D(rad)
		n.kind, n.desc = "sphere", fmt.Sprintf("Sphere3D(%.4g)", rad)
	case 1:
		sz := v3.Vec{X: scale * r.R(0.3, 2), Y: scale * r.R(0.3, 2), Z: scale * r.R(0.3, 2)}
		rd := 0.0
		switch r.I(4) {
		case 0:
			rd = 0.5 * sz.MinComponent() * r.F()
		case 1:
			rd = 0.5 * sz.MinComponent()
		case 2:
			rd = 1e-6 * scale
		}
		n.s3, _ = sdf.Box3D(sz, rd)
		n.kind, n.desc = "box3", fmt.Sprintf("Box3D(%.4g,%.4g,%.4g;r=%.4g)", sz.X, sz.Y, sz.Z, rd)
	case 2:
		h, rad := scale*r.R(0.3, 2), scale*r.R(0.2, 1)
		rd := 0.0
		switch r.I(3) {
		case 0:
			rd = math.Min(rad, h/2) * r.F()
		case 1:
			rd = math.Min(rad, h/2)
		}
		n.s3, _ = sdf.Cylinder3D(h, rad, rd)
		n.kind, n.desc = "cylinder", fmt.Sprintf("Cylinder3D(h=%.4g,r=%.4g,round=%.4g)", h, rad, rd)
	case 3:
		rad := scale * r.R(0.2, 0.6)
		h := 2*rad + scale*r.R(0, 1.5)
		n.s3, _ = sdf.Capsule3D(h, rad)
		n.kind, n.desc = "capsule", fmt.Sprintf("Capsule3D(h=%.4g,r=%.4g)", h, rad)
	default:
		h, r0, r1 := scale*r.R(0.5, 2), scale*r.R(0.3, 1), scale*r.R(0.1, 1)
		rd := 0.0
		if r.Bool() {
			rd = 0.3 * math.Min(h/2, math.Min(r0, r1)) * r.F()
		}
		s, err := sdf.Cone3D(h, r0, r1, rd)
		if err != nil {
			return leaf3(r, scale)
		}
		n.s3 = s
		n.kind, n.desc = "cone", fmt.Sprintf("Cone3D(h=%.4g,r0=%.4g,r1=%.4g,round=%.4g)", h, r0, r1, rd)
	}
	if n.s3 == nil {
		return leaf3(r, scale)
	}
	s := n.s3
	n.ref3 = func(p v3.Vec) []float64 { return one(s.Evaluate(p)) }
	return n
}

//-----------------------------------------------------------------------------
// random rigid / general matrices

func rigid3(r *Rng, scale float64) (sdf.M44, string) {
	t := v3.Vec{X: r.R(-2, 2) * scale, Y: r.R(-2, 2) * scale, Z: r.R(-2, 2) * scale}
	m := sdf.Translate3d(t)
	d := fmt.Sprintf("T(%.3g,%.3g,%.3g)", t.X, t.Y, t.Z)
	switch r.I(6) {
	case 0:
	case 1:
		a := r.R(0, 2*math.Pi)
		m = m.Mul(pickOne(r, []func(float64) sdf.M44{sdf.RotateX, sdf.RotateY, sdf.RotateZ})(a))
		d += fmt.Sprintf("*Raxis(%.4g)", a)
	case 2:
		m = m.Mul(pickOne(r, []sdf.M44{sdf.MirrorXY(), sdf.MirrorXZ(), sdf.MirrorYZ(), sdf.MirrorXeqY()}))
		d += "*Mirror"
	case 3:
		a, b := v3.Vec{X: r.N(), Y: r.N(), Z: r.N()}, v3.Vec{X: r.N(), Y: r.N(), Z: r.N()}
		m = m.Mul(sdf.RotateToVector(a, b))
		d += "*RotateToVector"
	default:
		ax := v3.Vec{X: r.N(), Y: r.N(), Z: r.N()}.Normalize()
		a := r.R(0, 2*math.Pi)
		m = m.Mul(sdf.Rotate3d(ax, a))
		d += fmt.Sprintf("*R(%.3g,%.3g,%.3g;%.4g)", ax.X, ax.Y, ax.Z, a)
	}
	return m, d
}

func rigid2(r *Rng, scale float64) (sdf.M33, string) {
	t := v2.Vec{X: r.R(-2, 2) * scale, Y: r.R(-2, 2) * scale}
	m := sdf.Translate2d(t)
	d := fmt.Sprintf("T(%.3g,%.3g)", t.X, t.Y)
	switch r.I(4) {
	case 0:
	case 1:
		m = m.Mul(pickOne(r, []sdf.M33{sdf.MirrorX(), sdf.MirrorY()}))
		d += "*Mirror"
	default:
		a := r.R(0, 2*math.Pi)
		m = m.Mul(sdf.Rotate2d(a))
		d += fmt.Sprintf("*R(%.4g)", a)
	}
	return m, d
}

//-----------------------------------------------------------------------------
// 3D operators

func wrap3(kind, desc string, s sdf.SDF3, ref func(p v3.Vec) []float64, kids ...*node) *node {
	n := &node{kind: kind, dim: 3, s3: s, ref3: ref, kids: kids, ops: 1}
	ds := make([]string, len(kids))
	for i, k := range kids {
		ds[i] = k.desc
		n.ops += k.ops
		n.blend = n.blend || k.blend
	}
	n.desc = desc + "(" + strings.Join(ds, ", ") + ")"
	return n
}

func wrap2(kind, desc string, s sdf.SDF2, ref func(p v2.Vec) []float64, kids ...*node) *node {
	n := &node{kind: kind, dim: 2, s2: s, ref2: ref, kids: kids, ops: 1}
	ds := make([]string, len(kids))
	for i, k := range kids {
		ds[i] = k.desc
		n.ops += k.ops
		n.blend = n.blend || k.blend
	}
	n.desc = desc + "(" + strings.Join(ds, ", ") + ")"
	return n
}

func allOf(kids []*node, f func(*node) bool) bool {
	for _, k := range kids {
		if !f(k) {
			return false
		}
	}
	return true
}

var ops3All = []string{"transform", "scaleuniform", "union", "difference", "intersect", "cut", "elongate", "array", "rotateunion",
	"rotatecopy", "offset", "shell", "extrude", "extruderounded", "revolve", "revolvetheta", "multi", "lineof", "orient",
	"twistextrude", "scaleextrude", "scaletwistextrude", "loft", "transform-nonuniform", "screw", "slice-extrude"}
var ops3Lip = []string{"transform", "scaleuniform", "union", "difference", "intersect", "cut", "elongate", "array", "rotateunion",
	"rotatecopy", "offset", "shell", "extrude", "extruderounded", "revolve", "revolvetheta", "multi", "lineof", "orient"}
var ops3Exact = []string{"transform", "scaleuniform", "offset+", "revolve-ring"}

func gen3(r *Rng, depth int, scale float64, o genOpts) *node {
	if depth <= 0 {
		return leaf3(r, scale)
	}
	list := ops3All
	if o.lip1Only {
		list = ops3Lip
	}
	if o.exactOnly {
		list = ops3Exact
	}
	for try := 0; try < 20; try++ {
		if n := mk3(r, pickOne(r, list), depth, scale, o); n != nil {
			return n
		}
	}
	return leaf3(r, scale)
}

func mk3(r *Rng, op string, depth int, scale float64, o genOpts) *node {
	kid := func() *node { return gen3(r, depth-1-r.I(2), scale, o) }
	kid2 := func() *node { return gen2(r, depth-1-r.I(2), scale, o) }
	switch op {
	case "transform":
		k := kid()
		m, d := rigid3(r, scale)
		inv := inv4(m)
		n := wrap3(op, "Transform3D["+d+"]", sdf.Transform3D(k.s3, m), func(p v3.Vec) []float64 { return k.ref3(inv.mulPos(p)) }, k)
		n.exact, n.lip1, n.boxlb = k.exact, k.lip1, k.boxlb
		n.rot = strings.Contains(d, "*R")
		return n
	case "transform-nonuniform":
		k := kid()
		sc := v3.Vec{X: r.R(0.5, 2), Y: r.R(0.5, 2), Z: r.R(0.5, 2)}
		m0, d := rigid3(r, scale)
		lin := sdf.Scale3d(sc)
		ld := fmt.Sprintf("Scale(%.3g,%.3g,%.3g)", sc.X, sc.Y, sc.Z)
		switch r.I(4) {
		case 0: // volume preserving squeeze: determinant exactly 1, not a rotation
			f := pickOne(r, []float64{2, 4, 0.5, 1.25})
			lin, ld = sdf.Scale3d(v3.Vec{X: f, Y: 1 / f, Z: 1}), fmt.Sprintf("Squeeze(%g,%g,1)", f, 1/f)
			if r.Bool() {
				lin, ld = sdf.Scale3d(v3.Vec{X: 1, Y: f, Z: 1 / f}), fmt.Sprintf("Squeeze(1,%g,%g)", f, 1/f)
			}
		case 1: // shear: determinant exactly 1
			a, b := r.R(-1, 1), r.R(-1, 1)
			lin, ld = sdf.NewM44([16]float64{1, a, b, 0, 0, 1, 0, 0, 0, 0, 1, 0, 0, 0, 0, 1}), fmt.Sprintf("Shear(%.3g,%.3g)", a, b)
		}
		m := m0.Mul(lin)
		inv := inv4(m)
		return wrap3(op, fmt.Sprintf("Transform3D[%s*%s]", d, ld), sdf.Transform3D(k.s3, m),
			func(p v3.Vec) []float64 { return k.ref3(inv.mulPos(p)) }, k)
	case "scaleuniform":
		k := kid()
		f := r.LogR(0.3, 3)
		n := wrap3(op, fmt.Sprintf("ScaleUniform3D[%.4g]", f), sdf.ScaleUniform3D(k.s3, f),
			func(p v3.Vec) []float64 {
				return mapF(k.ref3(p.DivScalar(f)), func(v float64) float64 { return v * f })
			}, k)
		n.exact, n.lip1, n.boxlb = k.exact, k.lip1, k.boxlb
		return n
	case "union":
		nk := r.IR(2, 4)
		ks := make([]*node, nk)
		ss := make([]sdf.SDF3, nk)
		for i := range ks {
			ks[i] = kid()
			if i > 0 { // spread the operands a little
				m, _ := rigid3(r, scale*0.5)
				inv := inv4(m)
				ki := ks[i]
				t := wrap3("transform", "Transform3D[rigid]", sdf.Transform3D(ki.s3, m), func(p v3.Vec) []float64 { return ki.ref3(inv.mulPos(p)) }, ki)
				t.exact, t.lip1, t.boxlb, t.rot = ki.exact, ki.lip1, ki.boxlb, true
				ks[i] = t
			}
			ss[i] = ks[i].s3
		}
		u := sdf.Union3D(ss...)
		bl := 0.0
		if !o.noBlend && nk == 2 && r.P(0.3) {
			bl = scale * r.LogR(0.01, 0.5)
			u.(*sdf.UnionSDF3).SetMin(sdf.PolyMin(bl))
		}
		n := wrap3(op, fmt.Sprintf("Union3D[polymin=%.4g]", bl), u, func(p v3.Vec) []float64 {
			xs := make([][]float64, len(ks))
			for i, k := range ks {
				xs[i] = k.ref3(p)
			}
			return minAll(xs...)
		}, ks...)
		n.lip1, n.boxlb = allOf(ks, func(k *node) bool { return k.lip1 }), allOf(ks, func(k *node) bool { return k.boxlb }) && bl == 0
		if bl != 0 {
			n.blend = true
			n.p = []float64{bl}
		}
		return n
	case "difference", "intersect":
		a, b0 := kid(), kid()
		m, _ := rigid3(r, scale*0.3)
		inv := inv4(m)
		b := wrap3("transform", "Transform3D[rigid]", sdf.Transform3D(b0.s3, m), func(p v3.Vec) []float64 { return b0.ref3(inv.mulPos(p)) }, b0)
		b.exact, b.lip1, b.boxlb, b.rot = b0.exact, b0.lip1, b0.boxlb, true
		bl := 0.0
		blend := !o.noBlend && r.P(0.25)
		if blend {
			bl = scale * r.LogR(0.01, 0.5)
		}
		var s sdf.SDF3
		var ref func(p v3.Vec) []float64
		if op == "difference" {
			s = sdf.Difference3D(a.s3, b.s3)
			if blend {
				s.(*sdf.DifferenceSDF3).SetMax(sdf.PolyMax(bl))
			}
			ref = func(p v3.Vec) []float64 {
				return comb2(a.ref3(p), b.ref3(p), func(x, y float64) float64 { return math.Max(x, -y) })
			}
		} else {
			s = sdf.Intersect3D(a.s3, b.s3)
			if blend {
				s.(*sdf.IntersectionSDF3).SetMax(sdf.PolyMax(bl))
			}
			ref = func(p v3.Vec) []float64 { return comb2(a.ref3(p), b.ref3(p), math.Max) }
		}
		n := wrap3(op, fmt.Sprintf("%s3D[polymax=%.4g]", op, bl), s, ref, a, b)
		n.lip1, n.boxlb = a.lip1 && b.lip1, a.boxlb
		if blend {
			n.blend = true
			n.p = []float64{bl}
		}
		return n
	case "cut":
		k := kid()
		bb := k.s3.BoundingBox()
		a := bb.Center().Add(v3.Vec{X: r.R(-0.3, 0.3), Y: r.R(-0.3, 0.3), Z: r.R(-0.3, 0.3)}.Mul(bb.Size()))
		nv := v3.Vec{X: r.N(), Y: r.N(), Z: r.N()}.MulScalar(r.LogR(0.1, 10))
		nh := nv.Normalize()
		n := wrap3(op, fmt.Sprintf("Cut3D[a=%v n=%v]", a, nv), sdf.Cut3D(k.s3, a, nv),
			func(p v3.Vec) []float64 { // the material on the normal's side remains
				pl := -nh.Dot(p.Sub(a))
				return mapF(k.ref3(p), func(v float64) float64 { return math.Max(v, pl) })
			}, k)
		n.lip1, n.boxlb = k.lip1, k.boxlb
		return n
	case "elongate":
		k := kid()
		h := v3.Vec{X: scale * r.R(0, 1.5), Y: scale * r.R(0, 1.5), Z: scale * r.R(0, 1.5)}
		if r.Bool() {
			h.Set(r.I(3), 0)
		}
		if r.P(0.3) {
			h = h.Mul(v3.Vec{X: r.Sign(), Y: r.Sign(), Z: r.Sign()}) // the sign of h must not matter
		}
		ha := h.Abs().MulScalar(0.5)
		n := wrap3(op, fmt.Sprintf("Elongate3D[%v]", h), sdf.Elongate3D(k.s3, h),
			func(p v3.Vec) []float64 {
				q := v3.Vec{X: p.X - math.Max(-ha.X, math.Min(ha.X, p.X)), Y: p.Y - math.Max(-ha.Y, math.Min(ha.Y, p.Y)), Z: p.Z - math.Max(-ha.Z, math.Min(ha.Z, p.Z))}
				return k.ref3(q)
			}, k)
		n.lip1, n.boxlb = k.lip1, k.boxlb
		return n
	case "array":
		k := kid()
		num := v3i.Vec{X: r.IR(1, 3), Y: r.IR(1, 3), Z: r.IR(1, 2)}
		step := v3.Vec{X: scale * r.R(-3, 3), Y: scale * r.R(-3, 3), Z: scale * r.R(-3, 3)}
		switch r.I(5) {
		case 0: // many cells (large arrays take other code paths than small ones)
			num = pickOne(r, []v3i.Vec{{X: 5, Y: 5, Z: 3}, {X: 9, Y: 8, Z: 1}, {X: 3, Y: 7, Z: 5}, {X: 12, Y: 1, Z: 6}, {X: 1, Y: 70, Z: 1}})
		case 1: // a long row of strongly overlapping copies (pitch well below the operand size)
			ax := r.I(3)
			cnt := r.IR(4, 12)
			num = [3]v3i.Vec{{X: cnt, Y: 1, Z: 1}, {X: 1, Y: cnt, Z: 1}, {X: 1, Y: 1, Z: cnt}}[ax]
			sz := k.s3.BoundingBox().Size()
			step = v3.Vec{X: scale * r.R(-1, 1), Y: scale * r.R(-1, 1), Z: scale * r.R(-1, 1)}
			step.Set(ax, sz.Get(ax)*r.R(0.05, 0.45)*r.Sign())
		}
		s := sdf.Array3D(k.s3, num, step)
		if s == nil {
			return nil
		}
		n := wrap3(op, fmt.Sprintf("Array3D[%v step %v]", num, step), s, func(p v3.Vec) []float64 {
			var xs [][]float64
			for a := 0; a < num.X; a++ {
				for b := 0; b < num.Y; b++ {
					for e := 0; e < num.Z; e++ {
						xs = append(xs, k.ref3(p.Sub(v3.Vec{X: float64(a) * step.X, Y: float64(b) * step.Y, Z: float64(e) * step.Z})))
					}
				}
			}
			return minAll(xs...)
		}, k)
		n.lip1, n.boxlb = k.lip1, k.boxlb
		return n
	case "rotateunion":
		k0 := kid()
		k := offAxis3(r, k0, scale)
		num := r.IR(1, 7)
		ang := r.R(-1.5, 1.5)
		step := sdf.RotateZ(ang)
		stepDesc := fmt.Sprintf("RotateZ(%.4g)", ang)
		switch r.IR(0, 3) { // the step is any matrix: screw motions (spiral stairs), tilts about other axes, plain shifts
		case 0:
			h := scale * r.R(-1, 1)
			step = sdf.Translate3d(v3.Vec{Z: h}).Mul(sdf.RotateZ(ang))
			stepDesc = fmt.Sprintf("T(0,0,%.3g)*RotateZ(%.4g)", h, ang)
		case 1:
			ax := v3.Vec{X: r.N(), Y: r.N(), Z: r.N()}
			if ax.Length() > 1e-3 {
				ax = ax.Normalize()
				t := v3.Vec{X: scale * r.R(-1, 1), Y: scale * r.R(-1, 1), Z: scale * r.R(-1, 1)}
				if r.P(0.5) {
					t = v3.Vec{}
				}
				step = sdf.Translate3d(t).Mul(sdf.Rotate3d(ax, ang))
				stepDesc = fmt.Sprintf("T(%.3g,%.3g,%.3g)*Rotate3d(%.3g,%.3g,%.3g;%.4g)", t.X, t.Y, t.Z, ax.X, ax.Y, ax.Z, ang)
			}
		}
		s := sdf.RotateUnion3D(k.s3, num, step)
		si := inv4(step)
		n := wrap3(op, fmt.Sprintf("RotateUnion3D[%d x %s]", num, stepDesc), s, func(p v3.Vec) []float64 {
			var xs [][]float64
			m := id4
			for i := 0; i < num; i++ { // copy i is the operand moved by step^i
				xs = append(xs, k.ref3(m.mulPos(p)))
				m = m.mul(si)
			}
			return minAll(xs...)
		}, k)
		n.lip1, n.boxlb = k.lip1, k.boxlb
		return n
	case "rotatecopy":
		k0 := kid()
		if o.lip1Only && !k0.symY {
			k0 = leaf3(r, scale)
		}
		// move the operand out along +x (keeps mirror symmetry about y=0)
		t := v3.Vec{X: scale * r.R(0.5, 3), Z: scale * r.R(-1, 1)}
		if !o.lip1Only && r.P(0.6) { // anywhere, incl. negative quadrants (breaks the mirror symmetry)
			t = v3.Vec{X: scale * r.R(-3, 3), Y: scale * r.R(-3, 3), Z: scale * r.R(-1, 1)}
		}
		tm := sdf.Translate3d(t)
		k := wrap3("transform", fmt.Sprintf("Transform3D[T(%.3g,%.3g,%.3g)]", t.X, t.Y, t.Z), sdf.Transform3D(k0.s3, tm), func(p v3.Vec) []float64 { return k0.ref3(p.Sub(t)) }, k0)
		k.exact, k.lip1, k.boxlb, k.symY = k0.exact, k0.lip1, k0.boxlb, k0.symY && t.Y == 0
		num := r.IR(1, 9)
		s := sdf.RotateCopy3D(k.s3, num)
		th := 2 * math.Pi / float64(num)
		n := wrap3(op, fmt.Sprintf("RotateCopy3D[%d]", num), s, func(p v3.Vec) []float64 {
			rho, phi := math.Hypot(p.X, p.Y), math.Atan2(p.Y, p.X)
			kf := math.Round(phi / th)
			cands := []float64{phi - kf*th}
			if d := math.Abs(math.Abs(cands[0]) - th/2); d < 1e-9 { // on a sector boundary either fold is right
				cands = append(cands, -cands[0])
			}
			var out []float64
			for _, a := range cands {
				out = append(out, k.ref3(v3.Vec{X: rho * math.Cos(a), Y: rho * math.Sin(a), Z: p.Z})...)
			}
			return dedupF(out)
		}, k)
		n.lip1, n.boxlb = k.lip1 && k.symY, k.boxlb
		return n
	case "offset", "offset+":
		k := kid()
		if !k.lbInf() {
			return nil
		}
		sz := k.s3.BoundingBox().Size().MinComponent()
		off := sz * r.R(0.01, 0.4)
		if op == "offset" && k.lip1 && r.P(0.3) {
			off = -sz * r.R(0.01, 0.2)
		}
		n := wrap3("offset", fmt.Sprintf("Offset3D[%.4g]", off), sdf.Offset3D(k.s3, off),
			func(p v3.Vec) []float64 { return mapF(k.ref3(p), func(v float64) float64 { return v - off }) }, k)
		n.off = off
		n.exact, n.lip1, n.boxlb = k.exact && off > 0 && convexKind(k), k.lip1, k.boxlb && off > 0
		return n
	case "shell":
		k := kid()
		if !k.lbInf() {
			return nil
		}
		th := k.s3.BoundingBox().Size().MinComponent() * r.R(0.02, 0.3)
		s, err := sdf.Shell3D(k.s3, th)
		if err != nil {
			return nil
		}
		n := wrap3(op, fmt.Sprintf("Shell3D[%.4g]", th), s, func(p v3.Vec) []float64 {
			return mapF(k.ref3(p), func(v float64) float64 { return math.Abs(v) - th/2 })
		}, k)
		n.lip1, n.boxlb = k.lip1, true
		return n
	case "extrude":
		k := kid2()
		h := scale * r.R(0.2, 3)
		n := wrap3(op, fmt.Sprintf("Extrude3D[h=%.4g]", h), sdf.Extrude3D(k.s2, h), func(p v3.Vec) []float64 {
			return mapF(k.ref2(v2.Vec{X: p.X, Y: p.Y}), func(v float64) float64 { return math.Max(v, math.Abs(p.Z)-h/2) })
		}, k)
		n.lip1, n.boxlb, n.symY = k.lip1, k.boxlb, k.symY
		return n
	case "extruderounded":
		k := kid2()
		h := scale * r.R(0.4, 3)
		rd := h / 2 * r.R(0.05, 1)
		if !k.lbInf() {
			return nil
		}
		s, err := sdf.ExtrudeRounded3D(k.s2, h, rd)
		if err != nil {
			return nil
		}
		n := wrap3(op, fmt.Sprintf("ExtrudeRounded3D[h=%.4g,round=%.4g]", h, rd), s, func(p v3.Vec) []float64 {
			b := math.Abs(p.Z) - (h/2 - rd)
			return mapF(k.ref2(v2.Vec{X: p.X, Y: p.Y}), func(a float64) float64 {
				return math.Min(math.Max(a, b), 0) + math.Hypot(math.Max(a, 0), math.Max(b, 0)) - rd
			})
		}, k)
		n.lip1, n.boxlb, n.symY = k.lip1, k.boxlb, k.symY
		return n
	case "loft":
		a, b := kid2(), kid2()
		h := scale * r.R(0.4, 3)
		rd := h / 2 * r.R(0, 0.8)
		if !a.lbInf() || !b.lbInf() {
			return nil
		}
		s, err := sdf.Loft3D(a.s2, b.s2, h, rd)
		if err != nil {
			return nil
		}
		hh := h/2 - rd
		n := wrap3(op, fmt.Sprintf("Loft3D[h=%.4g,round=%.4g]", h, rd), s, func(p v3.Vec) []float64 {
			k := math.Max(0, math.Min(1, 0.5*p.Z/hh+0.5))
			bz := math.Abs(p.Z) - hh
			q := v2.Vec{X: p.X, Y: p.Y}
			return comb2(a.ref2(q), b.ref2(q), func(x, y float64) float64 {
				m := x + k*(y-x)
				return math.Min(math.Max(m, bz), 0) + math.Hypot(math.Max(m, 0), math.Max(bz, 0)) - rd
			})
		}, a, b)
		n.boxlb = true
		return n
	case "twistextrude", "scaleextrude", "scaletwistextrude":
		k := kid2()
		h := scale * r.R(0.3, 3)
		tw := r.R(-2*math.Pi, 2*math.Pi)
		sc := v2.Vec{X: r.LogR(0.3, 3), Y: r.LogR(0.3, 3)}
		var s sdf.SDF3
		var d string
		switch op {
		case "twistextrude":
			s, d, sc = sdf.TwistExtrude3D(k.s2, h, tw), fmt.Sprintf("TwistExtrude3D[h=%.4g,twist=%.4g]", h, tw), v2.Vec{X: 1, Y: 1}
		case "scaleextrude":
			s, d, tw = sdf.ScaleExtrude3D(k.s2, h, sc), fmt.Sprintf("ScaleExtrude3D[h=%.4g,scale=%.3g,%.3g]", h, sc.X, sc.Y), 0
		default:
			s, d = sdf.ScaleTwistExtrude3D(k.s2, h, tw, sc), fmt.Sprintf("ScaleTwistExtrude3D[h=%.4g,twist=%.4g,scale=%.3g,%.3g]", h, tw, sc.X, sc.Y)
		}
		return wrap3(op, d, s, func(p v3.Vec) []float64 {
			u := (p.Z + h/2) / h // 0 at the bottom, 1 at the top
			fx, fy := 1+u*(1/sc.X-1), 1+u*(1/sc.Y-1)
			x, y := p.X*fx, p.Y*fy
			a := p.Z * tw / h
			q := v2.Vec{X: math.Cos(a)*x - math.Sin(a)*y, Y: math.Sin(a)*x + math.Cos(a)*y}
			return mapF(k.ref2(q), func(v float64) float64 { return math.Max(v, math.Abs(p.Z)-h/2) })
		}, k)
	case "revolve", "revolvetheta", "revolve-ring":
		k0 := kid2()
		if op == "revolve-ring" {
			k0 = leaf2(r, scale)
		}
		// place the profile on the +x side of the axis (sometimes touching / straddling it)
		bb := k0.s2.BoundingBox()
		dx := -bb.Min.X + scale*r.R(0.05, 2)
		straddle := op != "revolve-ring" && !o.exactOnly && r.P(0.2)
		if straddle {
			dx = -bb.Center().X * r.R(0, 1)
		}
		t := v2.Vec{X: dx, Y: scale * r.R(-1, 1)}
		k := wrap2("transform", fmt.Sprintf("Transform2D[T(%.3g,%.3g)]", t.X, t.Y), sdf.Transform2D(k0.s2, sdf.Translate2d(t)), func(p v2.Vec) []float64 { return k0.ref2(p.Sub(t)) }, k0)
		k.exact, k.lip1, k.boxlb = k0.exact, k0.lip1, k0.boxlb
		theta := 0.0
		if op == "revolvetheta" {
			theta = pickOne(r, []float64{r.R(0.05, 2*math.Pi-0.05), math.Pi / 2, math.Pi, 1.5 * math.Pi, math.Pi/2 - 1e-3, math.Pi/2 + 1e-3, math.Pi + 1e-3, math.Pi - 1e-3, 1.5*math.Pi + 1e-3, 0.3,
				2*math.Pi + r.R(0.05, 6.2), 4*math.Pi + r.R(0.05, 6.2), 2*math.Pi + 1.0472, // angles beyond a full turn are normalised by the constructor
				2 * math.Pi, sdf.DtoR(360), 4 * math.Pi, sdf.DtoR(720), sdf.DtoR(405), sdf.DtoR(450), sdf.DtoR(540)}) // exactly whole and quarter turns
		}
		s, err := sdf.RevolveTheta3D(k.s2, theta)
		if err != nil || s == nil {
			return nil
		}
		thetaN := theta - 2*math.Pi*math.Floor(theta/(2*math.Pi)) // the documented normalisation: theta mod 2pi
		n := wrap3("revolve", fmt.Sprintf("RevolveTheta3D[theta=%.6g]", theta), s, func(p v3.Vec) []float64 {
			a := k.ref2(v2.Vec{X: math.Hypot(p.X, p.Y), Y: p.Z})
			if thetaN == 0 {
				return a
			}
			// wedge [0,theta]: two half planes through the axis
			h0 := -p.Y
			h1 := -math.Sin(thetaN)*p.X + math.Cos(thetaN)*p.Y
			var w float64
			if thetaN < math.Pi {
				w = math.Max(h0, h1)
			} else {
				w = math.Min(h0, h1)
			}
			return mapF(a, func(v float64) float64 { return math.Max(v, w) })
		}, k)
		n.lip1, n.boxlb = k.lip1, k.boxlb
		n.exact = op == "revolve-ring" && k.exact
		n.p = []float64{thetaN}
		return n
	case "multi", "lineof", "orient":
		k := kid()
		cnt := r.IR(1, 4)
		var s sdf.SDF3
		var invs []mat4
		var d string
		switch op {
		case "multi":
			ps := make(v3.VecSet, cnt)
			for i := range ps {
				ps[i] = v3.Vec{X: r.R(-3, 3) * scale, Y: r.R(-3, 3) * scale, Z: r.R(-3, 3) * scale}
				invs = append(invs, inv4(sdf.Translate3d(ps[i])))
			}
			s, d = sdf.Multi3D(k.s3, ps), fmt.Sprintf("Multi3D[%d]", cnt)
		case "lineof":
			pat := ""
			for len(pat) < cnt+2 {
				pat += pickOne(r, []string{"x", "x", "."})
			}
			p0 := v3.Vec{X: r.R(-3, 3) * scale, Y: r.R(-3, 3) * scale, Z: r.R(-3, 3) * scale}
			p1 := v3.Vec{X: r.R(-3, 3) * scale, Y: r.R(-3, 3) * scale, Z: r.R(-3, 3) * scale}
			s, d = sdf.LineOf3D(k.s3, p0, p1, pat), fmt.Sprintf("LineOf3D[%q]", pat)
			for i, ch := range pat {
				if ch == 'x' {
					q := p0.Add(p1.Sub(p0).MulScalar(float64(i) / float64(len(pat))))
					invs = append(invs, inv4(sdf.Translate3d(q)))
				}
			}
		default:
			base := v3.Vec{Z: 1}
			ds := make(v3.VecSet, cnt)
			for i := range ds {
				ds[i] = v3.Vec{X: r.N(), Y: r.N(), Z: r.N()}
				invs = append(invs, inv4(sdf.RotateToVector(base, ds[i])))
			}
			s, d = sdf.Orient3D(k.s3, base, ds), fmt.Sprintf("Orient3D[%d]", cnt)
		}
		if s == nil {
			return nil
		}
		n := wrap3(op, d, s, func(p v3.Vec) []float64 {
			var xs [][]float64
			for _, m := range invs {
				xs = append(xs, k.ref3(m.mulPos(p)))
			}
			return minAll(xs...)
		}, k)
		n.lip1, n.boxlb = k.lip1, k.boxlb
		return n
	case "screw":
		rad, pitch := scale*r.R(0.5, 1.5), scale*r.R(0.1, 0.4)
		th, err := sdf.ISOThread(rad, pitch, r.Bool())
		if err != nil {
			return nil
		}
		starts := pickOne(r, []int{1, 1, 2, 3, -1, -2})
		length := scale * r.R(1, 4)
		s, err := sdf.Screw3D(th, length, 0, pitch, starts)
		if err != nil {
			return nil
		}
		lead := float64(starts) * pitch
		k := &node{kind: "isothread", dim: 2, s2: th, desc: fmt.Sprintf("ISOThread(%.4g,%.4g)", rad, pitch)}
		k.ref2 = func(p v2.Vec) []float64 { return one(th.Evaluate(p)) }
		return wrap3(op, fmt.Sprintf("Screw3D[len=%.4g,pitch=%.4g,starts=%d]", length, pitch, starts), s, func(p v3.Vec) []float64 {
			// right-handed for starts > 0: turning by +phi about z advances the thread by lead*phi/2pi along +z
			phi := math.Atan2(p.Y, p.X)
			z := p.Z - lead*phi/(2*math.Pi)
			x := z - pitch*math.Round(z/pitch) // fold into one pitch period [-pitch/2, pitch/2]
			cands := []float64{x}
			if math.Abs(math.Abs(x)-pitch/2) < 1e-9*pitch {
				cands = append(cands, -x)
			}
			var out []float64
			for _, xx := range cands {
				out = append(out, math.Max(th.Evaluate(v2.Vec{X: xx, Y: math.Hypot(p.X, p.Y)}), math.Abs(p.Z)-length/2))
			}
			return dedupF(out)
		}, k)
	case "slice-extrude": // Slice2D of a 3D shape, extruded again (keeps the tree 3D)
		k := kid()
		bb := k.s3.BoundingBox()
		a := bb.Center().Add(v3.Vec{X: r.R(-0.2, 0.2), Y: r.R(-0.2, 0.2), Z: r.R(-0.2, 0.2)}.Mul(bb.Size()))
		nv := v3.Vec{X: r.N(), Y: r.N(), Z: r.N()}
		if r.P(0.4) {
			nv = pickOne(r, []v3.Vec{{X: 1}, {Y: 1}, {Z: 1}, {X: 1, Y: 1}, {Y: -1, Z: 2}})
		}
		sl := sdf.Slice2D(k.s3, a, nv)
		// orientation of the in-plane axes is an implementation choice: the reference uses the real slice to learn
		// the frame from three probe evaluations, then evaluates the operand itself
		pr := &probeSDF3{bb: bb}
		slp := sdf.Slice2D(pr, a, nv)
		slp.Evaluate(v2.Vec{})
		o0 := pr.last
		slp.Evaluate(v2.Vec{X: 1})
		ux := pr.last.Sub(o0)
		slp.Evaluate(v2.Vec{Y: 1})
		uy := pr.last.Sub(o0)
		h := scale * r.R(0.3, 2)
		sn := &node{kind: "slice", dim: 2, s2: sl, kids: []*node{k}, desc: fmt.Sprintf("Slice2D[a=%v n=%v](%s)", a, nv, k.desc), ops: k.ops + 1, lip1: k.lip1, blend: k.blend}
		sn.ref2 = func(p v2.Vec) []float64 { return k.ref3(o0.Add(ux.MulScalar(p.X)).Add(uy.MulScalar(p.Y))) }
		sn.p = []float64{o0.X, o0.Y, o0.Z, ux.X, ux.Y, ux.Z, uy.X, uy.Y, uy.Z, a.X, a.Y, a.Z, nv.X, nv.Y, nv.Z}
		n := wrap3("extrude", fmt.Sprintf("Extrude3D[h=%.4g]", h), sdf.Extrude3D(sl, h), func(p v3.Vec) []float64 {
			return mapF(sn.ref2(v2.Vec{X: p.X, Y: p.Y}), func(v float64) float64 { return math.Max(v, math.Abs(p.Z)-h/2) })
		}, sn)
		n.lip1 = k.lip1
		return n
	}
	return nil
}

// probeSDF3 records the last point it was asked (probe leaf).
type probeSDF3 struct {
	bb   sdf.Box3
	last v3.Vec
}

func (s *probeSDF3) Evaluate(p v3.Vec) float64 { s.last = p; return 1 }
func (s *probeSDF3) BoundingBox() sdf.Box3     { return s.bb }

func convexKind(k *node) bool {
	switch k.kind {
	case "circle", "box2", "line2", "nagon", "sphere", "box3", "cylinder", "capsule", "cone":
		return true
	case "transform", "scaleuniform", "offset":
		return len(k.kids) == 1 && convexKind(k.kids[0])
	}
	return false
}

// offAxis3 moves a shape away from the z axis so that rotated copies differ.
func offAxis3(r *Rng, k0 *node, scale float64) *node {
	t := v3.Vec{X: scale * r.R(-2, 2), Y: scale * r.R(-2, 2), Z: scale * r.R(-1, 1)}
	k := wrap3("transform", fmt.Sprintf("Transform3D[T(%.3g,%.3g,%.3g)]", t.X, t.Y, t.Z), sdf.Transform3D(k0.s3, sdf.Translate3d(t)), func(p v3.Vec) []float64 { return k0.ref3(p.Sub(t)) }, k0)
	k.exact, k.lip1, k.boxlb = k0.exact, k0.lip1, k0.boxlb
	return k
}

//-----------------------------------------------------------------------------
// 2D operators

var ops2All = []string{"transform", "scaleuniform", "union", "difference", "intersect", "cut", "elongate", "array", "rotateunion",
	"rotatecopy", "offset", "multi", "lineof", "center", "centerandscale", "cache", "transform-nonuniform"}
var ops2Lip = []string{"transform", "scaleuniform", "union", "difference", "intersect", "cut", "elongate", "array", "rotateunion",
	"rotatecopy", "offset", "multi", "lineof", "center", "centerandscale"}
var ops2Exact = []string{"transform", "scaleuniform", "offset+", "center", "centerandscale"}

func gen2(r *Rng, depth int, scale float64, o genOpts) *node {
	if depth <= 0 {
		return leaf2(r, scale)
	}
	list := ops2All
	if o.lip1Only {
		list = ops2Lip
	}
	if o.exactOnly {
		list = ops2Exact
	}
	for try := 0; try < 20; try++ {
		if n := mk2(r, pickOne(r, list), depth, scale, o); n != nil {
			return n
		}
	}
	return leaf2(r, scale)
}

// prunable2 returns k if it is a valid operand for Union2D's bounding-box pruning, else a leaf. The pruning is only exact
// for operands that have material in their box and whose value outside the box is at least the distance to it; operands
// that may be empty (intersections, differences, cuts) or that underestimate distances (non-uniform scaling) are a
// recorded known finding (C16, pinned) and are kept out of the random workloads.
func prunable2(r *Rng, k *node, scale float64) *node {
	if k.lb2() && !k.mayBeEmpty() {
		return k
	}
	return leaf2(r, scale)
}

func rigidWrap2(r *Rng, k0 *node, scale float64) *node {
	m, d := rigid2(r, scale)
	inv := inv3(m)
	t := wrap2("transform", "Transform2D["+d+"]", sdf.Transform2D(k0.s2, m), func(p v2.Vec) []float64 { return k0.ref2(inv.mulPos(p)) }, k0)
	t.exact, t.lip1, t.boxlb = k0.exact, k0.lip1, k0.boxlb
	t.rot = strings.Contains(d, "*R")
	return t
}

func mk2(r *Rng, op string, depth int, scale float64, o genOpts) *node {
	kid := func() *node { return gen2(r, depth-1-r.I(2), scale, o) }
	switch op {
	case "transform":
		return rigidWrap2(r, kid(), scale)
	case "transform-nonuniform":
		k := kid()
		sc := v2.Vec{X: r.R(0.5, 2), Y: r.R(0.5, 2)}
		m0, d := rigid2(r, scale)
		lin := sdf.Scale2d(sc)
		ld := fmt.Sprintf("Scale(%.3g,%.3g)", sc.X, sc.Y)
		switch r.I(4) {
		case 0:
			f := pickOne(r, []float64{2, 4, 0.5, 1.25})
			lin, ld = sdf.Scale2d(v2.Vec{X: f, Y: 1 / f}), fmt.Sprintf("Squeeze(%g,%g)", f, 1/f)
		case 1:
			a := r.R(-1, 1)
			lin, ld = sdf.NewM33([9]float64{1, a, 0, 0, 1, 0, 0, 0, 1}), fmt.Sprintf("Shear(%.3g)", a)
		}
		m := m0.Mul(lin)
		inv := inv3(m)
		return wrap2(op, fmt.Sprintf("Transform2D[%s*%s]", d, ld), sdf.Transform2D(k.s2, m), func(p v2.Vec) []float64 { return k.ref2(inv.mulPos(p)) }, k)
	case "scaleuniform":
		k := kid()
		f := r.LogR(0.3, 3)
		n := wrap2(op, fmt.Sprintf("ScaleUniform2D[%.4g]", f), sdf.ScaleUniform2D(k.s2, f),
			func(p v2.Vec) []float64 {
				return mapF(k.ref2(p.DivScalar(f)), func(v float64) float64 { return v * f })
			}, k)
		n.exact, n.lip1, n.boxlb, n.symY = k.exact, k.lip1, k.boxlb, k.symY
		return n
	case "center", "centerandscale":
		k := rigidWrap2(r, kid(), scale)
		c := k.s2.BoundingBox().Center()
		f := 1.0
		var s sdf.SDF2
		if op == "center" {
			s = sdf.Center2D(k.s2)
		} else {
			f = r.LogR(0.3, 3)
			s = sdf.CenterAndScale2D(k.s2, f)
		}
		n := wrap2(op, fmt.Sprintf("%s[%.4g]", op, f), s, func(p v2.Vec) []float64 {
			return mapF(k.ref2(p.DivScalar(f).Add(c)), func(v float64) float64 { return v * f })
		}, k)
		n.exact, n.lip1, n.boxlb = k.exact, k.lip1, k.boxlb
		return n
	case "union":
		nk := r.IR(2, 4)
		ks := make([]*node, nk)
		ss := make([]sdf.SDF2, nk)
		for i := range ks {
			ks[i] = prunable2(r, kid(), scale)
			if i > 0 {
				ks[i] = rigidWrap2(r, ks[i], scale*0.5)
			}
			ss[i] = ks[i].s2
		}
		u := sdf.Union2D(ss...)
		bl := 0.0
		if !o.noBlend && nk == 2 && r.P(0.3) {
			bl = scale * r.LogR(0.01, 0.5)
			u.(*sdf.UnionSDF2).SetMin(sdf.PolyMin(bl))
		}
		n := wrap2(op, fmt.Sprintf("Union2D[polymin=%.4g]", bl), u, func(p v2.Vec) []float64 {
			xs := make([][]float64, len(ks))
			for i, k := range ks {
				xs[i] = k.ref2(p)
			}
			return minAll(xs...)
		}, ks...)
		n.lip1, n.boxlb = allOf(ks, func(k *node) bool { return k.lip1 }), allOf(ks, func(k *node) bool { return k.boxlb }) && bl == 0
		if bl != 0 {
			n.blend = true
			n.p = []float64{bl}
		}
		return n
	case "difference", "intersect":
		a, b := kid(), rigidWrap2(r, kid(), scale*0.3)
		bl := 0.0
		blend := !o.noBlend && r.P(0.25)
		if blend {
			bl = scale * r.LogR(0.01, 0.5)
		}
		var s sdf.SDF2
		var ref func(p v2.Vec) []float64
		if op == "difference" {
			s = sdf.Difference2D(a.s2, b.s2)
			if blend {
				s.(*sdf.DifferenceSDF2).SetMax(sdf.PolyMax(bl))
			}
			ref = func(p v2.Vec) []float64 {
				return comb2(a.ref2(p), b.ref2(p), func(x, y float64) float64 { return math.Max(x, -y) })
			}
		} else {
			s = sdf.Intersect2D(a.s2, b.s2)
			if blend {
				s.(*sdf.IntersectionSDF2).SetMax(sdf.PolyMax(bl))
			}
			ref = func(p v2.Vec) []float64 { return comb2(a.ref2(p), b.ref2(p), math.Max) }
		}
		n := wrap2(op, fmt.Sprintf("%s2D[polymax=%.4g]", op, bl), s, ref, a, b)
		n.lip1, n.boxlb = a.lip1 && b.lip1, a.boxlb
		if blend {
			n.blend = true
			n.p = []float64{bl}
		}
		return n
	case "cut":
		k := kid()
		bb := k.s2.BoundingBox()
		a := bb.Center().Add(v2.Vec{X: r.R(-0.3, 0.3), Y: r.R(-0.3, 0.3)}.Mul(bb.Size()))
		v := v2.Vec{X: r.N(), Y: r.N()}.MulScalar(r.LogR(0.1, 10))
		vh := v.Normalize()
		n := wrap2(op, fmt.Sprintf("Cut2D[a=%v v=%v]", a, v), sdf.Cut2D(k.s2, a, v), func(p v2.Vec) []float64 {
			// the part to the right of the directed line remains: left-pointing normal measures what is removed
			left := v2.Vec{X: -vh.Y, Y: vh.X}.Dot(p.Sub(a))
			return mapF(k.ref2(p), func(x float64) float64 { return math.Max(x, left) })
		}, k)
		n.lip1, n.boxlb = k.lip1, k.boxlb
		return n
	case "elongate":
		k := kid()
		h := v2.Vec{X: scale * r.R(0, 1.5) * r.Sign(), Y: scale * r.R(0, 1.5)}
		if r.Bool() {
			h.X = 0
		}
		ha := h.Abs().MulScalar(0.5)
		n := wrap2(op, fmt.Sprintf("Elongate2D[%v]", h), sdf.Elongate2D(k.s2, h), func(p v2.Vec) []float64 {
			return k.ref2(v2.Vec{X: p.X - math.Max(-ha.X, math.Min(ha.X, p.X)), Y: p.Y - math.Max(-ha.Y, math.Min(ha.Y, p.Y))})
		}, k)
		n.lip1, n.boxlb, n.symY = k.lip1, k.boxlb, k.symY
		return n
	case "array":
		k := kid()
		num := v2i.Vec{X: r.IR(1, 4), Y: r.IR(1, 3)}
		step := v2.Vec{X: scale * r.R(-3, 3), Y: scale * r.R(-3, 3)}
		switch r.I(5) {
		case 0:
			num = pickOne(r, []v2i.Vec{{X: 9, Y: 8}, {X: 5, Y: 14}, {X: 70, Y: 1}, {X: 1, Y: 33}})
		case 1:
			sz := k.s2.BoundingBox().Size()
			if r.Bool() {
				num, step = v2i.Vec{X: r.IR(4, 12), Y: 1}, v2.Vec{X: sz.X * r.R(0.05, 0.45) * r.Sign(), Y: scale * r.R(-1, 1)}
			} else {
				num, step = v2i.Vec{X: 1, Y: r.IR(4, 12)}, v2.Vec{X: scale * r.R(-1, 1), Y: sz.Y * r.R(0.05, 0.45) * r.Sign()}
			}
		}
		s := sdf.Array2D(k.s2, num, step)
		if s == nil {
			return nil
		}
		n := wrap2(op, fmt.Sprintf("Array2D[%v step %v]", num, step), s, func(p v2.Vec) []float64 {
			var xs [][]float64
			for a := 0; a < num.X; a++ {
				for b := 0; b < num.Y; b++ {
					xs = append(xs, k.ref2(p.Sub(v2.Vec{X: float64(a) * step.X, Y: float64(b) * step.Y})))
				}
			}
			return minAll(xs...)
		}, k)
		n.lip1, n.boxlb = k.lip1, k.boxlb
		return n
	case "rotateunion":
		k := rigidWrap2(r, kid(), scale)
		num := r.IR(1, 7)
		ang := r.R(-1.5, 1.5)
		step := sdf.Rotate2d(ang)
		stepDesc := fmt.Sprintf("Rotate2d(%.4g)", ang)
		if r.P(0.35) { // a step that also shifts (a spiral of copies)
			t := v2.Vec{X: scale * r.R(-1, 1), Y: scale * r.R(-1, 1)}
			step = sdf.Translate2d(t).Mul(step)
			stepDesc = fmt.Sprintf("T(%.3g,%.3g)*Rotate2d(%.4g)", t.X, t.Y, ang)
		}
		si := inv3(step)
		n := wrap2(op, fmt.Sprintf("RotateUnion2D[%d x %s]", num, stepDesc), sdf.RotateUnion2D(k.s2, num, step), func(p v2.Vec) []float64 {
			var xs [][]float64
			m := id3
			for i := 0; i < num; i++ {
				xs = append(xs, k.ref2(m.mulPos(p)))
				m = m.mul(si)
			}
			return minAll(xs...)
		}, k)
		n.lip1, n.boxlb = k.lip1, k.boxlb
		return n
	case "rotatecopy":
		k0 := kid()
		if o.lip1Only && !k0.symY {
			k0 = leaf2(r, scale)
			for !k0.symY {
				k0 = leaf2(r, scale)
			}
		}
		t := v2.Vec{X: scale * r.R(0.5, 3)}
		if !o.lip1Only && r.P(0.6) {
			t = v2.Vec{X: scale * r.R(-3, 3), Y: scale * r.R(-3, 3)}
		}
		k := wrap2("transform", fmt.Sprintf("Transform2D[T(%.3g,%.3g)]", t.X, t.Y), sdf.Transform2D(k0.s2, sdf.Translate2d(t)), func(p v2.Vec) []float64 { return k0.ref2(p.Sub(t)) }, k0)
		k.exact, k.lip1, k.boxlb, k.symY = k0.exact, k0.lip1, k0.boxlb, k0.symY && t.Y == 0
		num := r.IR(1, 9)
		th := 2 * math.Pi / float64(num)
		n := wrap2(op, fmt.Sprintf("RotateCopy2D[%d]", num), sdf.RotateCopy2D(k.s2, num), func(p v2.Vec) []float64 {
			rho, phi := math.Hypot(p.X, p.Y), math.Atan2(p.Y, p.X)
			a0 := phi - math.Round(phi/th)*th
			cands := []float64{a0}
			if math.Abs(math.Abs(a0)-th/2) < 1e-9 {
				cands = append(cands, -a0)
			}
			var out []float64
			for _, a := range cands {
				out = append(out, k.ref2(v2.Vec{X: rho * math.Cos(a), Y: rho * math.Sin(a)})...)
			}
			return dedupF(out)
		}, k)
		n.lip1, n.boxlb = k.lip1 && k.symY, k.boxlb
		return n
	case "offset", "offset+":
		k := kid()
		if !k.lbInf() {
			return nil
		}
		sz := k.s2.BoundingBox().Size().MinComponent()
		off := sz * r.R(0.01, 0.4)
		if op == "offset" && k.lip1 && r.P(0.3) {
			off = -sz * r.R(0.01, 0.2)
		}
		n := wrap2("offset", fmt.Sprintf("Offset2D[%.4g]", off), sdf.Offset2D(k.s2, off), func(p v2.Vec) []float64 {
			return mapF(k.ref2(p), func(v float64) float64 { return v - off })
		}, k)
		n.off = off
		n.exact, n.lip1, n.boxlb, n.symY = k.exact && off > 0 && convexKind(k), k.lip1, k.boxlb && off > 0, k.symY
		return n
	case "multi", "lineof":
		k := prunable2(r, kid(), scale)
		cnt := r.IR(1, 4)
		var s sdf.SDF2
		var ts []v2.Vec
		var d string
		if op == "multi" {
			ps := make(v2.VecSet, cnt)
			for i := range ps {
				ps[i] = v2.Vec{X: r.R(-3, 3) * scale, Y: r.R(-3, 3) * scale}
			}
			ts = ps
			s, d = sdf.Multi2D(k.s2, ps), fmt.Sprintf("Multi2D[%d]", cnt)
		} else {
			pat := ""
			for len(pat) < cnt+2 {
				pat += pickOne(r, []string{"x", "x", "."})
			}
			p0 := v2.Vec{X: r.R(-3, 3) * scale, Y: r.R(-3, 3) * scale}
			p1 := v2.Vec{X: r.R(-3, 3) * scale, Y: r.R(-3, 3) * scale}
			s, d = sdf.LineOf2D(k.s2, p0, p1, pat), fmt.Sprintf("LineOf2D[%q]", pat)
			for i, ch := range pat {
				if ch == 'x' {
					ts = append(ts, p0.Add(p1.Sub(p0).MulScalar(float64(i)/float64(len(pat)))))
				}
			}
		}
		if s == nil {
			return nil
		}
		n := wrap2(op, d, s, func(p v2.Vec) []float64 {
			var xs [][]float64
			for _, t := range ts {
				xs = append(xs, k.ref2(p.Sub(t)))
			}
			return minAll(xs...)
		}, k)
		n.lip1, n.boxlb = k.lip1, k.boxlb
		return n
	case "cache":
		k := kid()
		n := wrap2(op, "Cache2D", sdf.Cache2D(k.s2), func(p v2.Vec) []float64 { return k.ref2(p) }, k)
		n.exact, n.lip1, n.boxlb, n.symY = k.exact, k.lip1, k.boxlb, k.symY
		return n
	}
	return nil
}
