//go:build verif

// C04 oracle: exact orientation predicate (float filter + math/big fallback), crossing-number
// point-in-polygon with the half-open rule, brute-force point-segment distance, exact
// simplicity test for the generated polygons, and the start-up self-test of all of them.
package main

import (
	"fmt"
	"math"
	"math/big"
	"sort"

	v2 "github.com/deadsy/sdfx/vec/v2"
)

//-----------------------------------------------------------------------------
// oracle: exact orientation, crossing number, brute-force distance

func c04Rat(f float64) *big.Rat { return new(big.Rat).SetFloat64(f) }

// c04OrientExact returns the sign of (b-a)x(p-a) in rational arithmetic.
func c04OrientExact(a, b, p v2.Vec) int {
	l := new(big.Rat).Mul(new(big.Rat).Sub(c04Rat(b.X), c04Rat(a.X)), new(big.Rat).Sub(c04Rat(p.Y), c04Rat(a.Y)))
	r := new(big.Rat).Mul(new(big.Rat).Sub(c04Rat(b.Y), c04Rat(a.Y)), new(big.Rat).Sub(c04Rat(p.X), c04Rat(a.X)))
	return l.Cmp(r)
}

// c04Orient returns the exact sign of (b-a)x(p-a): float evaluation when its
// rounding error bound (Shewchuk's ccwerrboundA, enlarged 3x) proves the sign,
// rational arithmetic otherwise. exact reports that the fallback was used.
func c04Orient(a, b, p v2.Vec) (sign int, exact bool) {
	l := (b.X - a.X) * (p.Y - a.Y)
	r := (b.Y - a.Y) * (p.X - a.X)
	det := l - r
	bound := 1e-15 * (math.Abs(l) + math.Abs(r))
	if bound > 1e-280 && bound < 1e280 {
		if det > bound {
			return 1, false
		}
		if det < -bound {
			return -1, false
		}
	}
	return c04OrientExact(a, b, p), true
}

// c04SegDist is the float64 distance from p to the closed segment ab.
func c04SegDist(p, a, b v2.Vec) float64 {
	abx, aby := b.X-a.X, b.Y-a.Y
	apx, apy := p.X-a.X, p.Y-a.Y
	l2 := abx*abx + aby*aby
	t := apx*abx + apy*aby
	if t <= 0 {
		return math.Hypot(apx, apy)
	}
	if t >= l2 {
		return math.Hypot(p.X-b.X, p.Y-b.Y)
	}
	return math.Abs(apx*aby-apy*abx) / math.Sqrt(l2)
}

type c04Answer struct {
	inside  bool    // enclosed (odd crossing number, half-open rule); meaningless if onEdge
	onEdge  bool    // p lies exactly on an edge's supporting crossing (exact)
	dist    float64 // min over edges of the point-segment distance
	fallbck int     // exact-arithmetic fallbacks used
}

// c04Eval is the oracle: polygon v (closed implicitly), query p.
func c04Eval(v []v2.Vec, p v2.Vec) c04Answer {
	ans := c04Answer{dist: math.Inf(1)}
	n := len(v)
	cross := 0
	for i := 0; i < n; i++ {
		a, b := v[i], v[(i+1)%n]
		if d := c04SegDist(p, a, b); d < ans.dist {
			ans.dist = d
		}
		// half-open rule: the edge owns its lower endpoint, not its upper one
		if (a.Y <= p.Y) == (b.Y <= p.Y) {
			continue
		}
		o, ex := c04Orient(a, b, p)
		if ex {
			ans.fallbck++
		}
		switch {
		case o == 0:
			ans.onEdge = true
		case a.Y <= p.Y && o > 0: // upward edge, p strictly left of it
			cross++
		case a.Y > p.Y && o < 0: // downward edge, p strictly left of it
			cross++
		}
	}
	if ans.dist == 0 {
		ans.onEdge = true
	}
	ans.inside = cross&1 == 1
	return ans
}

// c04OnSeg: r is known collinear with segment pq; is it within it (closed)?
func c04OnSeg(p, q, r v2.Vec) bool {
	return math.Min(p.X, q.X) <= r.X && r.X <= math.Max(p.X, q.X) && math.Min(p.Y, q.Y) <= r.Y && r.Y <= math.Max(p.Y, q.Y)
}

func c04SegsTouch(a, b, c, d v2.Vec) bool {
	if math.Max(a.X, b.X) < math.Min(c.X, d.X) || math.Max(c.X, d.X) < math.Min(a.X, b.X) ||
		math.Max(a.Y, b.Y) < math.Min(c.Y, d.Y) || math.Max(c.Y, d.Y) < math.Min(a.Y, b.Y) {
		return false
	}
	o1, _ := c04Orient(a, b, c)
	o2, _ := c04Orient(a, b, d)
	o3, _ := c04Orient(c, d, a)
	o4, _ := c04Orient(c, d, b)
	if o1*o2 < 0 && o3*o4 < 0 {
		return true
	}
	return (o1 == 0 && c04OnSeg(a, b, c)) || (o2 == 0 && c04OnSeg(a, b, d)) || (o3 == 0 && c04OnSeg(c, d, a)) || (o4 == 0 && c04OnSeg(c, d, b))
}

// c04Simple decides exactly whether the closed vertex loop is a simple polygon:
// no repeated/zero-length edges, no 180-degree spikes, no two non-adjacent edges
// sharing a point. Straight-through collinear vertices are allowed.
func c04Simple(v []v2.Vec) bool {
	n := len(v)
	if n < 3 {
		return false
	}
	for i := 0; i < n; i++ {
		a, b, c := v[i], v[(i+1)%n], v[(i+2)%n]
		if a == b {
			return false
		}
		if o, _ := c04Orient(a, b, c); o == 0 && (a.X-b.X)*(c.X-b.X)+(a.Y-b.Y)*(c.Y-b.Y) >= 0 {
			return false // spike: c folds back over ab
		}
	}
	type ent struct {
		lo float64
		i  int
	}
	// sweep on x to keep the many-vertex polygons cheap
	es := make([]ent, n)
	for i := range es {
		es[i] = ent{math.Min(v[i].X, v[(i+1)%n].X), i}
	}
	sort.Slice(es, func(i, j int) bool { return es[i].lo < es[j].lo })
	for x := 0; x < n; x++ {
		i := es[x].i
		hi := math.Max(v[i].X, v[(i+1)%n].X)
		for y := x + 1; y < n && es[y].lo <= hi; y++ {
			j := es[y].i
			if (i+1)%n == j || (j+1)%n == i {
				continue
			}
			if c04SegsTouch(v[i], v[(i+1)%n], v[j], v[(j+1)%n]) {
				return false
			}
		}
	}
	return true
}

// c04SelfTest validates the oracle against dumber methods. Non-nil = broken oracle.
func c04SelfTest(c *Ctx) error {
	r := c.Rng("selftest")
	// (a) filtered orientation == pure rational orientation, incl. exactly collinear and 1-ulp-off triples
	for i := 0; i < 4000; i++ {
		a := v2.Vec{X: r.R(-10, 10), Y: r.R(-10, 10)}
		b := v2.Vec{X: r.R(-10, 10), Y: r.R(-10, 10)}
		p := v2.Vec{X: r.R(-10, 10), Y: r.R(-10, 10)}
		switch i % 4 {
		case 1: // dyadic collinear
			a = v2.Vec{X: float64(r.IR(-64, 64)) / 8, Y: float64(r.IR(-64, 64)) / 8}
			d := v2.Vec{X: float64(r.IR(-8, 8)) / 8, Y: float64(r.IR(-8, 8)) / 8}
			b = a.Add(d.MulScalar(4))
			p = a.Add(d.MulScalar(float64(r.IR(-8, 8))))
		case 2: // nearly collinear
			t := r.R(-2, 2)
			p = v2.Vec{X: a.X + t*(b.X-a.X), Y: a.Y + t*(b.Y-a.Y)}
		case 3:
			t := r.R(0, 1)
			p = v2.Vec{X: math.Nextafter(a.X+t*(b.X-a.X), math.Inf(r.IR(0, 1)*2-1)), Y: a.Y + t*(b.Y-a.Y)}
		}
		got, _ := c04Orient(a, b, p)
		if want := c04OrientExact(a, b, p); got != want {
			return fmt.Errorf("orientation filter %v %v %v: got %d want %d", a, b, p, got, want)
		}
	}
	if c04OrientExact(v2.Vec{}, v2.Vec{X: 1}, v2.Vec{Y: 1}) != 1 || c04OrientExact(v2.Vec{}, v2.Vec{X: 1}, v2.Vec{X: 3}) != 0 {
		return fmt.Errorf("exact orientation wrong on a trivial triple")
	}
	// (b) inside/outside against the half-plane test on integer convex polygons and lattice points
	for i := 0; i < 300; i++ {
		n := r.IR(3, 12)
		ang := make([]float64, n)
		for k := range ang {
			ang[k] = r.R(0, 2*math.Pi)
		}
		sort.Float64s(ang)
		var v []v2.Vec
		for _, t := range ang {
			v = append(v, v2.Vec{X: math.Round(20 * math.Cos(t)), Y: math.Round(14 * math.Sin(t))})
		}
		if !c04Simple(v) || !c04ConvexCCW(v) {
			continue
		}
		if i&1 == 1 {
			for a, b := 0, len(v)-1; a < b; a, b = a+1, b-1 {
				v[a], v[b] = v[b], v[a]
			}
		}
		for k := 0; k < 200; k++ {
			p := v2.Vec{X: float64(r.IR(-22, 22)), Y: float64(r.IR(-16, 16))}
			if k&3 == 0 {
				p.Y = v[r.I(len(v))].Y
			}
			in, on := c04HalfPlanes(v, p, i&1 == 1)
			ans := c04Eval(v, p)
			if on != (ans.dist == 0) {
				return fmt.Errorf("boundary: polygon %v p %v half-planes on=%v oracle dist=%g", v, p, on, ans.dist)
			}
			if !on && in != ans.inside {
				return fmt.Errorf("inside: polygon %v p %v half-planes %v oracle %v", v, p, in, ans.inside)
			}
		}
	}
	// (c) distance against dense sampling of the segment
	for i := 0; i < 300; i++ {
		a := v2.Vec{X: r.R(-5, 5), Y: r.R(-5, 5)}
		b := v2.Vec{X: r.R(-5, 5), Y: r.R(-5, 5)}
		p := v2.Vec{X: r.R(-9, 9), Y: r.R(-9, 9)}
		best := math.Inf(1)
		const m = 4000
		for k := 0; k <= m; k++ {
			t := float64(k) / m
			best = math.Min(best, math.Hypot(p.X-(a.X+t*(b.X-a.X)), p.Y-(a.Y+t*(b.Y-a.Y))))
		}
		d := c04SegDist(p, a, b)
		if d > best+1e-12 || d < best-b.Sub(a).Length()/m {
			return fmt.Errorf("segment distance p %v a %v b %v: got %g sampled %g", p, a, b, d, best)
		}
	}
	// (d) the simplicity test rejects a bow-tie, a spike, a touching loop and accepts collinear runs
	bow := []v2.Vec{{X: 0, Y: 0}, {X: 2, Y: 2}, {X: 2, Y: 0}, {X: 0, Y: 2}}
	spike := []v2.Vec{{X: 0, Y: 0}, {X: 4, Y: 0}, {X: 2, Y: 0}, {X: 2, Y: 3}}
	touch := []v2.Vec{{X: 0, Y: 0}, {X: 4, Y: 0}, {X: 4, Y: 4}, {X: 2, Y: 0}, {X: 0, Y: 4}}
	okp := []v2.Vec{{X: 0, Y: 0}, {X: 1, Y: 0}, {X: 2, Y: 0}, {X: 2, Y: 1}, {X: 2, Y: 2}, {X: 0, Y: 2}}
	if c04Simple(bow) || c04Simple(spike) || c04Simple(touch) || !c04Simple(okp) {
		return fmt.Errorf("simplicity test wrong on the fixed examples")
	}
	return nil
}

func c04ConvexCCW(v []v2.Vec) bool {
	n := len(v)
	for i := 0; i < n; i++ {
		a, b, c := v[i], v[(i+1)%n], v[(i+2)%n]
		if (b.X-a.X)*(c.Y-b.Y)-(b.Y-a.Y)*(c.X-b.X) <= 0 {
			return false
		}
	}
	return true
}

// c04HalfPlanes: integer-valued convex polygon (ccw unless reversed): strict interior / on boundary.
func c04HalfPlanes(v []v2.Vec, p v2.Vec, reversed bool) (in, on bool) {
	n := len(v)
	in = true
	for i := 0; i < n; i++ {
		a, b := v[i], v[(i+1)%n]
		s := int64(b.X-a.X)*int64(p.Y-a.Y) - int64(b.Y-a.Y)*int64(p.X-a.X)
		if reversed {
			s = -s
		}
		if s < 0 {
			return false, false
		}
		if s == 0 {
			in = false
		}
	}
	return in, !in
}
