//go:build verif

// Monitor core: run context, three-valued verdicts, evidence, replay files,
// known-findings matching, child-process runner.
package main

import (
	"bytes"
	"crypto/sha256"
	"encoding/hex"
	"encoding/json"
	"fmt"
	"os"
	"os/exec"
	"path/filepath"
	"runtime"
	"runtime/debug"
	"sort"
	"strconv"
	"strings"
	"sync"
	"syscall"
	"time"
)

const verifRoot = "/verif"

// realStdout is the process's stdout at start-up: verdict lines must reach it even while a monitor has
// redirected os.Stdout to swallow the library's own chatter.
var realStdout = os.Stdout

// outRoot is where evidence/ and replays/ are written (VERIF_OUT overrides it
// for mutation experiments on scratch copies, so real evidence is not clobbered).
func outRoot() string {
	if d := os.Getenv("VERIF_OUT"); d != "" {
		return d
	}
	return verifRoot
}

type finding struct {
	Property string `json:"property"`
	Status   string `json:"status"` // "open" | "fixed"
	Key      string `json:"key"`    // stable identifier of the failing input / call site / history
	What     string `json:"what"`
	Commit   string `json:"commit,omitempty"`
	Pinned   string `json:"pinned,omitempty"`
}

type violation struct {
	Key     string `json:"key"`
	Summary string `json:"summary"`
	Replay  string `json:"replay"`
}

// Ctx is the per-run monitor context. All methods are goroutine-safe.
type Ctx struct {
	Prop  string
	Tier  string
	Seed  uint64
	Quick bool

	mu          sync.Mutex
	start       time.Time
	evals       int64
	distinct    map[string]struct{}
	samples     []any
	maxSamples  int
	obs         map[string]any
	counters    map[string]int64
	viol        []violation
	violCount   int
	known       map[string]*finding
	knownHit    map[string]string
	assumptions []string
	rule        string
	level       string
	exhaustive  bool
	inconcl     []string
	replayOnly  string
	child       bool
	childViol   []shardViolation
	raceJudge   func(rr raceReport) // optional per-property policy for race reports from children
}

func newCtx(prop, tier string, seed uint64) *Ctx {
	c := &Ctx{Prop: prop, Tier: tier, Seed: seed, Quick: tier == "quick",
		start: time.Now(), distinct: map[string]struct{}{}, maxSamples: 6,
		obs: map[string]any{}, counters: map[string]int64{}, known: map[string]*finding{},
		knownHit: map[string]string{}, level: "exploration"}
	c.loadFindings()
	return c
}

func (c *Ctx) loadFindings() {
	b, err := os.ReadFile(filepath.Join(verifRoot, "known_findings.json"))
	if err != nil {
		return
	}
	var all struct {
		Findings []finding `json:"findings"`
	}
	if err := json.Unmarshal(b, &all); err != nil {
		fmt.Fprintf(os.Stderr, "known_findings.json: %v\n", err)
		os.Exit(2)
	}
	for i := range all.Findings {
		f := all.Findings[i]
		if f.Property == c.Prop && f.Status == "open" {
			c.known[f.Key] = &f
		}
	}
}

// Pick returns the quick or the thorough value.
func (c *Ctx) Pick(q, t int) int {
	if c.Quick {
		return q
	}
	return t
}

func (c *Ctx) Eval(n int) {
	c.mu.Lock()
	c.evals += int64(n)
	c.mu.Unlock()
}

// Distinct records one distinct non-trivial case (by the property's rule).
func (c *Ctx) Distinct(key string) {
	c.mu.Lock()
	c.distinct[key] = struct{}{}
	c.mu.Unlock()
}

func (c *Ctx) Sample(v any) {
	c.mu.Lock()
	if len(c.samples) < c.maxSamples {
		c.samples = append(c.samples, v)
	}
	c.mu.Unlock()
}

func (c *Ctx) Obs(key string, v any) {
	c.mu.Lock()
	c.obs[key] = v
	c.mu.Unlock()
}

func (c *Ctx) Count(key string, n int64) {
	c.mu.Lock()
	c.counters[key] += n
	c.mu.Unlock()
}

func (c *Ctx) Counter(key string) int64 {
	c.mu.Lock()
	defer c.mu.Unlock()
	return c.counters[key]
}

// MaxObs keeps the maximum of a float observation.
func (c *Ctx) MaxObs(key string, v float64) {
	c.mu.Lock()
	if old, ok := c.obs[key].(float64); !ok || v > old {
		c.obs[key] = v
	}
	c.mu.Unlock()
}

func (c *Ctx) Assume(s string)   { c.mu.Lock(); c.assumptions = append(c.assumptions, s); c.mu.Unlock() }
func (c *Ctx) Rule(s string)     { c.mu.Lock(); c.rule = s; c.mu.Unlock() }
func (c *Ctx) Level(s string)    { c.mu.Lock(); c.level = s; c.mu.Unlock() }
func (c *Ctx) Exhaustive(b bool) { c.mu.Lock(); c.exhaustive = b; c.mu.Unlock() }

// Inconclusive marks the run as undecided (never folded into held/violated).
func (c *Ctx) Inconclusive(why string) {
	c.mu.Lock()
	dup := false
	for _, w := range c.inconcl {
		if w == why {
			dup = true
		}
	}
	if !dup && len(c.inconcl) < 20 {
		c.inconcl = append(c.inconcl, why)
	} else if len(c.inconcl) == 0 {
		c.inconcl = append(c.inconcl, why)
	}
	c.mu.Unlock()
}

func (c *Ctx) NumViolations() int {
	c.mu.Lock()
	defer c.mu.Unlock()
	return c.violCount
}

// Violate records a refutation. findingKey identifies the specific failing
// input; if it names an open known finding the run reports KNOWN-FINDING and
// stays green, otherwise a replay file is written and the run fails.
func (c *Ctx) Violate(findingKey, summary string, replay any) {
	c.mu.Lock()
	defer c.mu.Unlock()
	if c.child {
		// worker process: collect; the parent decides and writes the replay
		c.violCount++
		if len(c.childViol) < 40 {
			b, _ := json.Marshal(replay)
			c.childViol = append(c.childViol, shardViolation{findingKey, summary, b})
		}
		return
	}
	if f, ok := c.known[findingKey]; ok && findingKey != "" {
		if _, seen := c.knownHit[findingKey]; !seen {
			c.knownHit[findingKey] = summary
			fmt.Fprintf(realStdout, "KNOWN-FINDING: property=%s %s [%s] observed: %s\n", c.Prop, f.What, findingKey, summary)
		}
		return
	}
	c.violCount++
	grp := summary
	if f := strings.Fields(summary); len(f) >= 2 { // kind word + subject
		grp = f[0] + " " + f[1]
	}
	c.counters["violations/"+grp]++
	if c.counters["violations/"+grp] > 4 || len(c.viol) >= 60 {
		return
	}
	rp := map[string]any{"property": c.Prop, "tier": c.Tier, "seed": c.Seed, "key": findingKey, "summary": summary, "case": replay}
	b, _ := json.MarshalIndent(rp, "", " ")
	h := sha256.Sum256(b)
	dir := filepath.Join(outRoot(), "replays", c.Prop)
	os.MkdirAll(dir, 0o755)
	path := filepath.Join(dir, hex.EncodeToString(h[:6])+".json")
	os.WriteFile(path, b, 0o644)
	c.viol = append(c.viol, violation{findingKey, summary, path})
	fmt.Fprintf(realStdout, "VIOLATION property=%s replay=%s\n", c.Prop, path)
	fmt.Fprintf(realStdout, "  detail: %s\n", summary)
}

// Finish writes the evidence file and exits with the verdict.
func (c *Ctx) Finish() {
	c.mu.Lock()
	defer c.mu.Unlock()
	// A pinned known finding that no longer reproduces is only noted.
	var notRepro []string
	for k := range c.known {
		if _, ok := c.knownHit[k]; !ok {
			notRepro = append(notRepro, k)
		}
	}
	sort.Strings(notRepro)
	cov := map[string]any{}
	for k, v := range c.obs {
		cov[k] = v
	}
	for k, v := range c.counters {
		cov[k] = v
	}
	cov["evaluations"] = c.evals
	cov["distinct_nontrivial"] = len(c.distinct)
	cov["rule"] = c.rule
	if len(c.samples) == 0 {
		c.samples = append(c.samples, "no sample recorded")
	}
	cov["samples"] = c.samples
	if c.exhaustive {
		cov["exhaustive"] = true
	}
	if len(c.knownHit) > 0 {
		ks := []string{}
		for k := range c.knownHit {
			ks = append(ks, k)
		}
		sort.Strings(ks)
		cov["known_findings_observed"] = ks
	}
	if len(notRepro) > 0 {
		cov["known_findings_not_reproduced"] = notRepro
	}
	if len(c.inconcl) > 0 {
		cov["inconclusive"] = c.inconcl
	}
	if len(c.viol) > 0 {
		cov["violation_replays"] = c.viol
	}
	cov["gomaxprocs"] = runtime.GOMAXPROCS(0)
	ev := map[string]any{
		"property_id": c.Prop, "tier": c.Tier, "seed": c.Seed, "level": c.level,
		"coverage": cov, "assumptions": c.assumptions,
		"wall_s":     time.Since(c.start).Seconds(),
		"violations": c.violCount,
	}
	if c.replayOnly == "" {
		os.MkdirAll(filepath.Join(outRoot(), "evidence"), 0o755)
		b, _ := json.MarshalIndent(ev, "", " ")
		if err := os.WriteFile(filepath.Join(outRoot(), "evidence", c.Prop+".json"), b, 0o644); err != nil {
			fmt.Fprintf(os.Stderr, "evidence: %v\n", err)
			os.Exit(2)
		}
	}
	fmt.Fprintf(realStdout, "%s %s seed=%d: evaluations=%d distinct_nontrivial=%d violations=%d known=%d wall=%.1fs\n",
		c.Prop, c.Tier, c.Seed, c.evals, len(c.distinct), c.violCount, len(c.knownHit), time.Since(c.start).Seconds())
	code := 0
	switch {
	case c.violCount > 0:
		code = 1
	case len(c.inconcl) > 0:
		fmt.Fprintf(realStdout, "INCONCLUSIVE property=%s %s\n", c.Prop, strings.Join(c.inconcl, "; "))
		code = 2
	case len(c.distinct) < 2 && c.replayOnly == "":
		fmt.Fprintf(realStdout, "INCONCLUSIVE property=%s fewer than 2 distinct non-trivial cases observed\n", c.Prop)
		code = 2
	}
	cleanupScratch()
	profStop()
	os.Exit(code)
}

// Floor fails the run as inconclusive if fewer than n distinct cases were seen.
func (c *Ctx) Floor(n int) {
	c.mu.Lock()
	d := len(c.distinct)
	c.mu.Unlock()
	if d < n {
		c.Inconclusive(fmt.Sprintf("only %d distinct non-trivial cases, floor %d", d, n))
	}
}

//-----------------------------------------------------------------------------
// parallel helper

// theCtx is the context of the running check (for libraryPanic).
var theCtx *Ctx

// libraryPanic is deferred around workload code that calls the library outside a child process. A panic raised inside
// the library (the innermost non-runtime frame belongs to it) on a workload item is a finding about that item, not a
// reason to lose the run: it becomes a violation and the workload goes on. A panic raised by harness code is a harness
// bug and is passed on.
func libraryPanic(what string) {
	r := recover()
	if r == nil {
		return
	}
	st := string(debug.Stack())
	var frames []string
	for _, l := range strings.Split(st, "\n") {
		if l == "" || l[0] == '\t' || strings.HasPrefix(l, "goroutine ") {
			continue
		}
		if strings.HasPrefix(l, "runtime.") || strings.HasPrefix(l, "runtime/debug.") || strings.HasPrefix(l, "panic(") || strings.HasPrefix(l, "main.libraryPanic") {
			continue
		}
		frames = append(frames, l)
	}
	if theCtx == nil || len(frames) == 0 || !strings.HasPrefix(frames[0], "github.com/deadsy/sdfx/") {
		panic(r)
	}
	if len(frames) > 8 {
		frames = frames[:8]
	}
	theCtx.Violate("", fmt.Sprintf("library-panic %q in %s%s", fmt.Sprint(r), frames[0], what), map[string]any{"panic": fmt.Sprint(r), "frames": frames})
}

func parallelFor(n int, fn func(i int)) {
	fn0 := fn
	fn = func(i int) {
		defer libraryPanic(fmt.Sprintf(" (workload item %d)", i))
		fn0(i)
	}
	w := runtime.GOMAXPROCS(0)
	if w > n {
		w = n
	}
	if w <= 1 {
		for i := 0; i < n; i++ {
			fn(i)
		}
		return
	}
	var wg sync.WaitGroup
	ch := make(chan int, 64)
	for k := 0; k < w; k++ {
		wg.Add(1)
		go func() {
			defer wg.Done()
			for i := range ch {
				fn(i)
			}
		}()
	}
	for i := 0; i < n; i++ {
		ch <- i
	}
	close(ch)
	wg.Wait()
}

//-----------------------------------------------------------------------------
// child processes

type childResult struct {
	Out      string // stdout+stderr (from a file, so nothing is lost on a crash)
	Exit     int
	Signaled bool
	TimedOut bool
	UserCPU  time.Duration
	SysCPU   time.Duration
	MaxRSSKB int64
}

var scratchDir string
var scratchMu sync.Mutex

func scratch() string {
	scratchMu.Lock()
	defer scratchMu.Unlock()
	if scratchDir == "" {
		base := os.Getenv("VERIF_SCRATCH")
		if base == "" {
			base = "/var/tmp"
		}
		d, err := os.MkdirTemp(base, "vcheck-")
		if err != nil {
			panic(err)
		}
		scratchDir = d
	}
	return scratchDir
}

func cleanupScratch() {
	if scratchDir != "" {
		os.RemoveAll(scratchDir)
	}
}

var childSeq int64
var childMu sync.Mutex

// runChild re-executes this binary (or bin) as `--child mode args...`.
// Output goes to a file; a watchdog sends SIGQUIT (goroutine dump) on expiry.
func runChild(bin string, mode string, args []string, env []string, watchdog time.Duration) childResult {
	return runChildOpt(bin, mode, args, env, watchdog, false)
}

// runChildPipe captures the output through a pipe instead of a file (needed when the child lowers
// RLIMIT_FSIZE, which would otherwise truncate its own log).
func runChildPipe(bin string, mode string, args []string, env []string, watchdog time.Duration) childResult {
	return runChildOpt(bin, mode, args, env, watchdog, true)
}

type lockedBuf struct {
	mu sync.Mutex
	b  bytes.Buffer
}

func (l *lockedBuf) Write(p []byte) (int, error) {
	l.mu.Lock()
	defer l.mu.Unlock()
	if l.b.Len() < 4<<20 {
		l.b.Write(p)
	}
	return len(p), nil
}

func runChildOpt(bin string, mode string, args []string, env []string, watchdog time.Duration, pipe bool) childResult {
	if bin == "" {
		bin = os.Args[0]
	}
	childMu.Lock()
	childSeq++
	id := childSeq
	childMu.Unlock()
	logPath := filepath.Join(scratch(), "child-"+strconv.FormatInt(id, 10)+".log")
	f, err := os.Create(logPath)
	if err != nil {
		panic(err)
	}
	cmd := exec.Command(bin, append([]string{"--child", mode}, args...)...)
	var pbuf lockedBuf
	if pipe {
		cmd.Stdout = &pbuf
		cmd.Stderr = &pbuf
	} else {
		cmd.Stdout = f
		cmd.Stderr = f
	}
	// children put their scratch directories inside the parent's, so one RemoveAll cleans up even after a crash
	cmd.Env = append(append(os.Environ(), "VERIF_SCRATCH="+scratch()), env...)
	cmd.SysProcAttr = &syscall.SysProcAttr{Setpgid: true}
	res := childResult{}
	if err := cmd.Start(); err != nil {
		f.Close()
		res.Exit = -1
		res.Out = err.Error()
		return res
	}
	done := make(chan error, 1)
	go func() { done <- cmd.Wait() }()
	var werr error
	select {
	case werr = <-done:
	case <-time.After(watchdog):
		res.TimedOut = true
		cmd.Process.Signal(syscall.SIGQUIT)
		select {
		case werr = <-done:
		case <-time.After(10 * time.Second):
			syscall.Kill(-cmd.Process.Pid, syscall.SIGKILL)
			werr = <-done
		}
	}
	f.Close()
	b, _ := os.ReadFile(logPath)
	os.Remove(logPath)
	if pipe {
		b = pbuf.b.Bytes()
	}
	if len(b) > 1<<20 {
		b = append(b[:1<<19], append([]byte("\n...[truncated]...\n"), b[len(b)-(1<<19):]...)...)
	}
	res.Out = string(b)
	if cmd.ProcessState != nil {
		res.Exit = cmd.ProcessState.ExitCode()
		res.UserCPU = cmd.ProcessState.UserTime()
		res.SysCPU = cmd.ProcessState.SystemTime()
		if ru, ok := cmd.ProcessState.SysUsage().(*syscall.Rusage); ok {
			res.MaxRSSKB = int64(ru.Maxrss)
		}
		if ws, ok := cmd.ProcessState.Sys().(syscall.WaitStatus); ok && ws.Signaled() {
			res.Signaled = true
		}
	}
	_ = werr
	return res
}

// raceBin returns the path of the race-instrumented build of this binary
// (run.sh builds it next to the plain one when the property needs it).
func raceBin() string {
	p := os.Getenv("VCHECK_RACE_BIN")
	if p == "" {
		return ""
	}
	if _, err := os.Stat(p); err != nil {
		return ""
	}
	return p
}

// jsonLines extracts lines of the form "<prefix><json>" from child output.
func jsonLines(out, prefix string, fn func(raw []byte)) {
	for _, ln := range bytes.Split([]byte(out), []byte("\n")) {
		if bytes.HasPrefix(ln, []byte(prefix)) {
			fn(ln[len(prefix):])
		}
	}
}

func mustJSON(v any) string {
	b, err := json.Marshal(v)
	if err != nil {
		return fmt.Sprintf("%v", v)
	}
	return string(b)
}

func hashKey(parts ...any) string {
	h := sha256.New()
	for _, p := range parts {
		fmt.Fprintf(h, "%v|", p)
	}
	return hex.EncodeToString(h.Sum(nil)[:8])
}

// weightedGate bounds the total weight of cases running at once (memory: big lattices are run a few at a time).
type weightedGate struct {
	mu   sync.Mutex
	cond *sync.Cond
	cap  int64
	used int64
}

func newGate(capacity int64) *weightedGate {
	g := &weightedGate{cap: capacity}
	g.cond = sync.NewCond(&g.mu)
	return g
}

func (g *weightedGate) enter(w int64) func() {
	if w > g.cap {
		w = g.cap
	}
	g.mu.Lock()
	for g.used+w > g.cap {
		g.cond.Wait()
	}
	g.used += w
	g.mu.Unlock()
	return func() {
		g.mu.Lock()
		g.used -= w
		g.mu.Unlock()
		g.cond.Broadcast()
	}
}

// withTmpdirVariants runs fn once per environment variant of the process temp directory: on another file system than the
// output files (a rename from there fails with EXDEV), and not existing at all. An exporter may use scratch files, but what
// ends up at the requested path must not depend on where the temp directory is. fn runs with the variable set; the previous
// value is restored afterwards. Call it only while no other goroutine of the check reads the environment.
func withTmpdirVariants(c *Ctx, fn func(tag string)) {
	old, had := os.LookupEnv("TMPDIR")
	restore := func() {
		if had {
			os.Setenv("TMPDIR", old)
		} else {
			os.Unsetenv("TMPDIR")
		}
	}
	defer restore()
	if d, err := os.MkdirTemp("/dev/shm", "vcheck-tmp-"); err == nil {
		os.Setenv("TMPDIR", d)
		fn("TMPDIR on another file system (/dev/shm)")
		os.RemoveAll(d)
		c.Count("environment_variants/tmpdir_on_other_filesystem", 1)
	} else {
		c.Count("environment_variants/tmpdir_on_other_filesystem_not_available", 1)
	}
	os.Setenv("TMPDIR", filepath.Join(scratch(), "no", "such", "tmpdir"))
	fn("TMPDIR does not exist")
	c.Count("environment_variants/tmpdir_missing", 1)
}
