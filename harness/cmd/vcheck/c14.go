//go:build verif

// C14 - the STL loader is total: error or mesh, never a panic, a hang or an
// allocation out of proportion to the file size.
//
// Parent: enumerates a deterministic input list (c14Gen, see c14_oracle.go), runs
// it in batches inside child processes, classifies every input with its own
// logic and judges the children's measurements. Child: for every input announces
// the index, writes the bytes to a scratch file, calls render.LoadSTL and
// obj.ImportSTL under recover() while measuring TotalAlloc and process CPU time.
package main

import (
	"encoding/base64"
	"encoding/json"
	"fmt"
	"hash/fnv"
	"os"
	"path/filepath"
	"runtime"
	"sort"
	"strconv"
	"strings"
	"sync"
	"sync/atomic"
	"syscall"
	"time"

	"github.com/deadsy/sdfx/obj"
	"github.com/deadsy/sdfx/render"
	"github.com/deadsy/sdfx/sdf"
)

func init() {
	checks["C14"] = checkC14
	replays["C14"] = replayC14
	children["c14"] = childC14
}

const (
	c14AllocBase    = 1 << 20 // allocation bound: 1 MiB + 400 * file size
	c14AllocPerByte = 400
	c14CPUBaseMs    = 4000 // CPU budget per input: 4 s + 1000 x (calibrated ns/byte of valid files) x size
	c14ExitCPU      = 7
	c14ExitDeadlock = 8
)

type c14Result struct {
	I      int    `json:"i"`
	O      string `json:"o"`            // LoadSTL: error | mesh | mesh+error | panic | cpu-exceeded
	P      string `json:"p,omitempty"`  // panic text
	E      string `json:"e,omitempty"`  // error text (truncated)
	N      int    `json:"n"`            // triangles returned
	A      uint64 `json:"a"`            // TotalAlloc delta of LoadSTL
	IO     string `json:"io,omitempty"` // ImportSTL: error | sdf | nil | panic
	IP     string `json:"ip,omitempty"`
	IA     uint64 `json:"ia,omitempty"`
	CPUus  int64  `json:"cpu"`
	NilTri bool   `json:"niltri,omitempty"` // a nil *Triangle3 inside a returned mesh
}

//-----------------------------------------------------------------------------
// child

// CPU time of the loader = CPU time of the one OS thread the child's main goroutine is locked to
// (GC workers and the runtime's other threads are not the loader's doing and are excluded).
var c14Tid int

// c14CPU: precise thread CPU time; only valid on the locked main thread.
func c14CPU() time.Duration {
	var ru syscall.Rusage
	syscall.Getrusage(1 /* RUSAGE_THREAD */, &ru)
	return time.Duration(ru.Utime.Nano() + ru.Stime.Nano())
}

// c14TaskCPU: the same clock read from another thread (the watchdog), 10 ms resolution.
func c14TaskCPU() time.Duration {
	b, err := os.ReadFile(fmt.Sprintf("/proc/self/task/%d/stat", c14Tid))
	if err != nil {
		return 0
	}
	s := string(b)
	f := strings.Fields(s[strings.LastIndexByte(s, ')')+1:]) // f[0] = state; utime, stime = fields 14, 15 of the line
	if len(f) < 13 {
		return 0
	}
	ut, _ := strconv.ParseInt(f[11], 10, 64)
	st, _ := strconv.ParseInt(f[12], 10, 64)
	return time.Duration(ut+st) * 10 * time.Millisecond // USER_HZ is 100 on Linux
}

func c14Trunc(s string, n int) string {
	if len(s) > n {
		return s[:n] + "..."
	}
	return s
}

// c14Measure runs fn under recover and returns the panic text and the exact
// number of heap bytes allocated while it ran (ReadMemStats flushes all caches).
func c14Measure(fn func()) (panicText string, alloc uint64) {
	var a, b runtime.MemStats
	runtime.ReadMemStats(&a)
	func() {
		defer func() {
			if r := recover(); r != nil {
				panicText = c14Trunc(fmt.Sprint(r), 300)
				if panicText == "" {
					panicText = "panic"
				}
			}
		}()
		fn()
	}()
	runtime.ReadMemStats(&b)
	return panicText, b.TotalAlloc - a.TotalAlloc
}

func c14FileSize(path string) int {
	st, err := os.Stat(path)
	if err != nil {
		return 0
	}
	return int(st.Size())
}

type c14Loader func(path string) ([]*sdf.Triangle3, error)

func c14RunOne(i int, path string, load c14Loader, withImport bool) c14Result {
	res := c14Result{I: i}
	t0 := c14CPU()
	var mesh []*sdf.Triangle3
	var err error
	res.P, res.A = c14Measure(func() { mesh, err = load(path) })
	switch {
	case res.P != "":
		res.O = "panic"
	case err != nil && mesh != nil:
		res.O = "mesh+error"
	case err != nil:
		res.O = "error"
	default:
		res.O = "mesh"
	}
	if err != nil {
		res.E = c14Trunc(err.Error(), 120)
	}
	res.N = len(mesh)
	for _, t := range mesh {
		if t == nil {
			res.NilTri = true
		}
	}
	mesh = nil
	// the second entry point repeats LoadSTL: pointless (and unsafe for the process) once LoadSTL already misbehaved
	if withImport && res.P == "" && res.A <= uint64(c14AllocBase+c14AllocPerByte*c14FileSize(path)) {
		var s sdf.SDF3
		var ierr error
		res.IP, res.IA = c14Measure(func() { s, ierr = obj.ImportSTL(path, 8, 3, 5) })
		switch {
		case res.IP != "":
			res.IO = "panic"
		case ierr != nil:
			res.IO = "error"
		case s == nil:
			res.IO = "nil"
		default:
			res.IO = "sdf"
		}
	}
	res.CPUus = int64((c14CPU() - t0) / time.Microsecond)
	return res
}

// cpu watchdog state: the input being processed, the process CPU time when it
// started and its budget. The decision is made on consumed CPU time only.
var c14Watch struct {
	sync.Mutex
	idx    int
	start  time.Duration
	budget time.Duration
	on     bool
}

// c14AllBlocked: every goroutine except the caller is blocked on a channel operation, a select or a sync primitive.
func c14AllBlocked() bool {
	buf := make([]byte, 1<<20)
	buf = buf[:runtime.Stack(buf, true)]
	n, blocked := 0, 0
	for i, g := range strings.Split(string(buf), "\n\n") {
		if i == 0 || !strings.HasPrefix(g, "goroutine ") {
			continue // the first block is the calling goroutine
		}
		n++
		hdr := g
		if j := strings.IndexByte(g, '\n'); j > 0 {
			hdr = g[:j]
		}
		for _, st := range []string{"[chan receive", "[chan send", "[select", "[semacquire", "[sync.Mutex.Lock", "[sync.RWMutex", "[sync.WaitGroup.Wait", "[sync.Cond.Wait"} {
			if strings.Contains(hdr, st) {
				blocked++
				break
			}
		}
	}
	return n > 0 && n == blocked
}

func c14StartWatchdog() {
	go func() {
		idle, idleCPU := 0, time.Duration(0)
		for {
			time.Sleep(50 * time.Millisecond) // sampling cadence only
			c14Watch.Lock()
			if c14Watch.on {
				// logical hang: the process burns no CPU at all while a load is in flight and every goroutine other than this
				// one is parked on a channel / lock (what the Go runtime reports as "all goroutines are asleep" when no timer runs)
				now := c14CPU() // per-sample delta: the sampling itself costs a few microseconds each time
				if now-idleCPU < 500*time.Microsecond {
					idle++
				} else {
					idle = 0
				}
				idleCPU = now
				if idle >= 40 {
					if c14AllBlocked() {
						b, _ := json.Marshal(c14Result{I: c14Watch.idx, O: "deadlock"})
						fmt.Printf("\nC14= %s\n", b)
						os.Exit(c14ExitDeadlock)
					}
					idle = 20 // something is still runnable: look again in a second
					idleCPU = c14CPU()
				}
				if used := c14TaskCPU() - c14Watch.start; used > c14Watch.budget {
					b, _ := json.Marshal(c14Result{I: c14Watch.idx, O: "cpu-exceeded", CPUus: int64(used / time.Microsecond)})
					fmt.Printf("\nC14= %s\n", b)
					os.Exit(c14ExitCPU)
				}
			}
			c14Watch.Unlock()
		}
	}()
}

func c14Arm(i int, budget time.Duration) {
	c14Watch.Lock()
	c14Watch.idx, c14Watch.start, c14Watch.budget, c14Watch.on = i, c14CPU(), budget, true
	c14Watch.Unlock()
}

func c14Disarm() { c14Watch.Lock(); c14Watch.on = false; c14Watch.Unlock() }

// childC14: args = mode(range|calib|file|selftest) seed lo hi dir cpuBaseMs cpuNsPerByte [file]
func childC14(args []string) {
	// a giant allocation must fail inside this process instead of hurting the machine
	syscall.Setrlimit(syscall.RLIMIT_AS, &syscall.Rlimit{Cur: 8 << 30, Max: 8 << 30})
	runtime.LockOSThread()
	c14Tid = syscall.Gettid()
	mode := args[0]
	if mode == "selftest" {
		c14ChildSelftest()
		return
	}
	seed, _ := strconv.ParseUint(args[1], 10, 64)
	lo, _ := strconv.Atoi(args[2])
	hi, _ := strconv.Atoi(args[3])
	dir := args[4]
	baseMs, _ := strconv.Atoi(args[5])
	nsPerByte, _ := strconv.Atoi(args[6])
	var src func(i int) []byte
	switch mode {
	case "range":
		if err := c14LoadShipped(); err != nil {
			fmt.Println("C14! cannot read shipped files:", err)
			os.Exit(3)
		}
		c14BuildSystematic()
		src = func(i int) []byte { return c14Gen(seed, i).Data }
	case "calib":
		c14LoadShipped()
		list := c14CalibList()
		src = func(i int) []byte { return list[i%len(list)].Data }
	case "file":
		b, err := os.ReadFile(args[7])
		if err != nil {
			fmt.Println("C14! ", err)
			os.Exit(3)
		}
		src = func(int) []byte { return b }
	}
	path := filepath.Join(dir, fmt.Sprintf("c14-%s-%d-%d.stl", mode, lo, os.Getpid()))
	defer os.Remove(path)
	c14StartWatchdog()
	for i := lo; i < hi; i++ {
		data := src(i)
		fmt.Printf("C14@ %d\n", i)
		if err := os.WriteFile(path, data, 0o644); err != nil {
			fmt.Println("C14! write:", err)
			os.Exit(3)
		}
		c14Arm(i, time.Duration(baseMs)*time.Millisecond+time.Duration(nsPerByte)*time.Duration(len(data)))
		res := c14RunOne(i, path, render.LoadSTL, true)
		c14Disarm()
		b, _ := json.Marshal(res)
		fmt.Printf("C14= %s\n", b)
	}
	os.Remove(path)
}

var c14Sink []byte

// c14ChildSelftest exercises the measuring machinery on things with a known answer.
func c14ChildSelftest() {
	_, a0 := c14Measure(func() {})
	_, a1 := c14Measure(func() { c14Sink = make([]byte, 8<<20) })
	c14Sink = nil
	fmt.Printf("C14T alloc %d %d\n", a0, a1)
	dir := os.Args[len(os.Args)-1]
	path := filepath.Join(dir, "c14-selftest.stl")
	os.WriteFile(path, c14Valid(1, 2), 0o644)
	defer os.Remove(path)
	r1 := c14RunOne(0, path, func(string) ([]*sdf.Triangle3, error) { var v []int; _ = v[len(path)]; return nil, nil }, false)
	r2 := c14RunOne(1, path, func(string) ([]*sdf.Triangle3, error) { return make([]*sdf.Triangle3, 1<<20), nil }, false)
	fmt.Printf("C14T run %s|%v|%s|%d\n", r1.O, strings.Contains(r1.P, "index out of range"), r2.O, r2.A)
	c14StartWatchdog()
	c14Arm(99, 300*time.Millisecond)
	for x := 0; ; x++ { // spin: the watchdog must end the process on CPU time
		if x < 0 {
			break
		}
	}
}

//-----------------------------------------------------------------------------
// parent

func c14CalibList() []c14Input {
	var l []c14Input
	for _, n := range []int{0, 1, 2, 10, 100, 1000, 10000} {
		l = append(l, c14Input{fmt.Sprintf("calib-binary-%d", n), c14Valid(0, n)}, c14Input{fmt.Sprintf("calib-ascii-%d", n), c14Valid(1, n)})
	}
	for i, b := range c14Shipped {
		l = append(l, c14Input{fmt.Sprintf("calib-shipped-%d", i), b})
	}
	return l
}

func c14ParseResults(out string) (res []c14Result, lastAnnounced int) {
	lastAnnounced = -1
	for _, ln := range strings.Split(out, "\n") {
		if strings.HasPrefix(ln, "C14@ ") {
			lastAnnounced, _ = strconv.Atoi(ln[5:])
		} else if strings.HasPrefix(ln, "C14= ") {
			var r c14Result
			if json.Unmarshal([]byte(ln[5:]), &r) == nil {
				res = append(res, r)
			}
		}
	}
	return
}

func c14Tail(s string, n int) string {
	if len(s) > n {
		return "..." + s[len(s)-n:]
	}
	return s
}

type c14Run struct {
	c              *Ctx
	dir            string
	nsPerByte      int // CPU budget slope (already x1000)
	wall           time.Duration
	mu             sync.Mutex
	hangMu         sync.Mutex
	hangsConfirmed atomic.Int32
	calibBad       map[string]string
	calibSeen      int
	slowestUs      int64
	slowest        string
	famOut         map[string]int64
	errKinds       map[string]int64
}

func (p *c14Run) child(mode string, lo, hi int, file string) childResult {
	args := []string{mode, strconv.FormatUint(p.c.Seed, 10), strconv.Itoa(lo), strconv.Itoa(hi), p.dir, strconv.Itoa(c14CPUBaseMs), strconv.Itoa(p.nsPerByte)}
	if file != "" {
		args = append(args, file)
	}
	return runChild("", "c14", args, []string{"GOMAXPROCS=2", "GOTRACEBACK=single"}, p.wall)
}

func c14Replay(seed uint64, i int, in c14Input) map[string]any {
	h := fnv.New64a()
	h.Write(in.Data)
	m := map[string]any{"index": i, "family": in.Family, "size": len(in.Data), "fnv64a": fmt.Sprintf("%016x", h.Sum64()),
		"regenerate": fmt.Sprintf("c14Gen(seed=%d, index=%d)", seed, i), "how": "vcheck C14 --replay <this file>"}
	if len(in.Data) <= 6000 {
		m["data_b64"] = base64.StdEncoding.EncodeToString(in.Data)
		if len(in.Data) <= 400 {
			m["data_quoted"] = strconv.QuoteToASCII(string(in.Data))
		}
	}
	return m
}

func c14ErrKind(e string) string {
	if len(e) >= 120 && strings.Contains(e, "strconv.ParseFloat") {
		return "ParseFloat (long token, message truncated)"
	}
	for _, k := range []string{"invalid syntax", "value out of range", "token too long", "unexpected EOF", "EOF", "vertex", "no such file"} {
		if strings.Contains(e, k) {
			return k
		}
	}
	return "other: " + c14Trunc(e, 40)
}

// judge applies the oracle to one result. in is regenerated by the parent.
func (p *c14Run) judge(r c14Result, in c14Input, calib bool) {
	c := p.c
	cl := c14Classify(in.Data)
	size := len(in.Data)
	c.Eval(1)
	p.mu.Lock()
	p.famOut[in.Family+" -> "+r.O]++
	p.famOut["ALL -> "+r.O]++
	p.famOut["branch "+cl.Branch+" -> "+r.O]++
	if r.IO != "" {
		p.famOut["ImportSTL -> "+r.IO]++
	}
	if r.E != "" {
		p.errKinds[c14ErrKind(r.E)]++
	}
	p.mu.Unlock()
	if cl.Branch == "binary" || (cl.Branch == "ascii" && cl.NVertex >= 1) {
		h := fnv.New64a()
		h.Write(in.Data)
		c.Distinct(string(h.Sum(nil)))
		c.Count("nontrivial_inputs/"+cl.Branch, 1)
		if cl.Branch == "ascii" && cl.NVertex%3 != 0 {
			c.Count("nontrivial_inputs/ascii_vertex_count_not_multiple_of_3", 1)
		}
	}
	// not part of the verdict: does the loader see the file the way the classifier does?
	if r.O == "mesh" && ((cl.Branch == "binary" && r.N != int(cl.Count)) || (cl.Branch == "ascii" && !cl.BadFloat && cl.NVertex%3 == 0 && r.N != cl.NVertex/3)) {
		c.Count("classifier_vs_loader_triangle_count_disagreements_(not_judged)", 1)
	}
	bound := float64(c14AllocBase + c14AllocPerByte*size)
	c.MaxObs("worst_LoadSTL_alloc_as_fraction_of_bound", float64(r.A)/bound)
	if size >= 4096 {
		c.MaxObs("worst_LoadSTL_alloc_bytes_per_file_byte_(files>=4KiB)", float64(r.A)/float64(size))
		c.MaxObs("observed_ImportSTL_alloc_bytes_per_file_byte_(files>=4KiB,not_judged)", float64(r.IA)/float64(size))
	}
	c.MaxObs("slowest_input_cpu_ms", float64(r.CPUus)/1000)
	p.mu.Lock()
	if r.CPUus > p.slowestUs {
		p.slowestUs = r.CPUus
		p.slowest = fmt.Sprintf("input#%d family=%s size=%d outcome=%s/%s triangles=%d cpu=%.1fms", r.I, in.Family, size, r.O, r.IO, r.N, float64(r.CPUus)/1000)
	}
	p.mu.Unlock()
	desc := fmt.Sprintf("input#%d family=%s size=%d branch=%s count=%d vertexlines=%d", r.I, in.Family, size, cl.Branch, cl.Count, cl.NVertex)
	rp := c14Replay(c.Seed, r.I, in)
	if calib {
		rp["regenerate"] = "valid calibration file " + in.Family + " (c14CalibList)"
	}
	switch {
	case r.O == "panic":
		key := ""
		if cl.Branch == "ascii" && cl.NVertex%3 != 0 && !cl.BadFloat && strings.Contains(r.P, "index out of range") {
			key = "loadSTLAscii/vertex-count-not-multiple-of-3"
		}
		rp["panic"] = r.P
		if key != "" {
			c.Count("LoadSTL_panics/ascii_vertex_count_not_multiple_of_3", 1)
		} else {
			c.Count("LoadSTL_panics/other", 1)
		}
		c.Violate(key, fmt.Sprintf("LoadSTL-panic %q on %s", r.P, desc), rp)
	case r.O == "cpu-exceeded":
		// handled by the caller (needs confirmation)
	case r.IO == "panic":
		rp["panic"] = r.IP
		c.Violate("", fmt.Sprintf("ImportSTL-panic %q (LoadSTL returned %s, %d triangles) on %s", r.IP, r.O, r.N, desc), rp)
	}
	if float64(r.A) > bound {
		rp["alloc_bytes"] = r.A
		c.Violate("", fmt.Sprintf("LoadSTL-alloc %d bytes allocated for a %d byte file (bound 1MiB+400*size = %.0f) on %s outcome=%s", r.A, size, bound, desc, r.O), rp)
	}
	if r.NilTri {
		c.Violate("", fmt.Sprintf("LoadSTL-niltriangle returned mesh contains a nil triangle (a deferred crash for every caller) on %s", desc), rp)
	}
	if calib {
		p.mu.Lock()
		p.calibSeen++
		want := -1
		fmt.Sscanf(in.Family, "calib-binary-%d", &want)
		fmt.Sscanf(in.Family, "calib-ascii-%d", &want)
		if r.O != "mesh" || (want >= 0 && r.N != want) {
			p.calibBad[in.Family] = fmt.Sprintf("outcome=%s err=%q triangles=%d", r.O, r.E, r.N)
		}
		p.mu.Unlock()
		if size >= 4096 {
			c.MaxObs("calibration_valid_files_worst_alloc_bytes_per_file_byte_(files>=4KiB)", float64(r.A)/float64(size))
		}
		c.MaxObs("calibration_valid_files_worst_alloc_as_fraction_of_bound", float64(r.A)/bound)
		return
	}
	if r.I < 3 || (cl.Branch == "ascii" && cl.NVertex >= 1 && r.I%4001 == 0) {
		c.Sample(map[string]any{"index": r.I, "family": in.Family, "size": size, "branch": cl.Branch, "vertex_lines": cl.NVertex,
			"outcome": r.O, "error": r.E, "triangles": r.N, "alloc": r.A, "import": r.IO, "head": strconv.QuoteToASCII(c14Trunc(string(in.Data), 60))})
	}
}

// confirm re-runs one input alone in a fresh child; returns the classification
// of what happened: "ok", "cpu-exceeded", "died", "watchdog".
func (p *c14Run) confirm(mode string, i int) (string, childResult, []c14Result) {
	cr := p.child(mode, i, i+1, "")
	rs, _ := c14ParseResults(cr.Out)
	switch {
	case cr.TimedOut:
		return "watchdog", cr, rs
	case cr.Exit == c14ExitCPU && len(rs) == 1 && rs[0].O == "cpu-exceeded":
		return "cpu-exceeded", cr, rs
	case cr.Exit == c14ExitDeadlock && len(rs) == 1 && rs[0].O == "deadlock":
		return "deadlock", cr, rs
	case cr.Exit != 0 || cr.Signaled || len(rs) != 1:
		return "died", cr, rs
	}
	return "ok", cr, rs
}

// batch runs inputs [lo,hi) of the given list (mode "range": c14Gen, "calib": calibration files),
// restarting after the offending input when a child dies. Returns the CPU time of the children.
func (p *c14Run) batch(mode string, lo, hi int, gen func(i int) c14Input) (cpu time.Duration) {
	c := p.c
	restarts := 0
	calib := mode == "calib"
	for lo < hi {
		cr := p.child(mode, lo, hi, "")
		cpu += cr.UserCPU + cr.SysCPU
		c.Count("children_run", 1)
		rs, last := c14ParseResults(cr.Out)
		seen := lo - 1
		cpuExceeded := false
		for _, r := range rs {
			if r.O == "cpu-exceeded" || r.O == "deadlock" {
				cpuExceeded = true
				continue
			}
			p.judge(r, gen(r.I), calib)
			if r.I > seen {
				seen = r.I
			}
		}
		if !cr.TimedOut && !cr.Signaled && cr.Exit == 0 && seen == hi-1 {
			return cpu
		}
		// the child stopped early: attribute to the announced, unanswered input
		bad := last
		if bad <= seen || bad < lo || bad >= hi {
			c.Inconclusive(fmt.Sprintf("child for inputs [%d,%d) ended (exit=%d signaled=%v timeout=%v) without an attributable input: %s", lo, hi, cr.Exit, cr.Signaled, cr.TimedOut, c14Tail(cr.Out, 300)))
			return cpu
		}
		if cpuExceeded {
			p.hangMu.Lock() // confirmations of hangs one at a time, so that the cap below works
		}
		if cpuExceeded && p.hangsConfirmed.Load() >= 2 {
			p.hangMu.Unlock() // each confirmation burns the full CPU budget twice: two witnesses are enough
			c.Count("inputs_skipped_after_two_confirmed_hangs", int64(hi-bad))
			return cpu
		}
		in := gen(bad)
		desc := fmt.Sprintf("input#%d family=%s size=%d", bad, in.Family, len(in.Data))
		kind, cr2, rs2 := p.confirm(mode, bad)
		if cpuExceeded {
			if kind == "cpu-exceeded" || kind == "deadlock" {
				p.hangsConfirmed.Add(1)
			}
			p.hangMu.Unlock()
		}
		rp := c14Replay(c.Seed, bad, in)
		switch {
		case kind == "cpu-exceeded":
			budget := float64(c14CPUBaseMs)/1000 + float64(p.nsPerByte)*float64(len(in.Data))/1e9
			c.Violate("", fmt.Sprintf("LoadSTL-hang consumed %.1f s CPU (budget %.1f s = 4 s + 1000 x valid-file time for this size), twice, once alone in a fresh process, on %s",
				float64(rs2[0].CPUus)/1e6, budget, desc), rp)
		case kind == "deadlock":
			c.Violate("", fmt.Sprintf("LoadSTL-hang never returns: the load consumed no CPU for 2 s with every goroutine blocked on a channel or lock (goroutine deadlock), twice, once alone in a fresh process, on %s", desc), rp)
		case kind == "died":
			rp["child_output_tail"] = c14Tail(cr2.Out, 1500)
			c.Violate("", fmt.Sprintf("LoadSTL-crash process died (exit=%d signaled=%v) twice, once alone in a fresh process, on %s: %s", cr2.Exit, cr2.Signaled, desc,
				c14Trunc(c14FirstFatal(cr2.Out), 200)), rp)
		case kind == "watchdog":
			c.Inconclusive(fmt.Sprintf("wall watchdog expired on %s (cpu used %v): not enough CPU consumed to call it a hang", desc, cr2.UserCPU+cr2.SysCPU))
		default: // ran fine alone
			for _, r := range rs2 {
				p.judge(r, in, calib)
			}
			if cpuExceeded || cr.TimedOut || cr.Exit != 0 || cr.Signaled {
				c.Inconclusive(fmt.Sprintf("child stopped at %s (exit=%d signaled=%v timeout=%v) but the input runs fine alone: %s", desc, cr.Exit, cr.Signaled, cr.TimedOut, c14Tail(cr.Out, 300)))
			}
		}
		lo = bad + 1
		restarts++
		if restarts > 6 && lo < hi {
			c.Count("inputs_skipped_after_repeated_child_deaths", int64(hi-lo))
			c.Inconclusive(fmt.Sprintf("gave up on inputs [%d,%d) after %d child deaths", lo, hi, restarts))
			return cpu
		}
	}
	return cpu
}

func c14FirstFatal(out string) string {
	for _, ln := range strings.Split(out, "\n") {
		if strings.HasPrefix(ln, "fatal error:") || strings.HasPrefix(ln, "panic:") || strings.HasPrefix(ln, "runtime:") || strings.HasPrefix(ln, "SIG") {
			return ln
		}
	}
	return c14Tail(out, 200)
}

func c14Abort(format string, a ...any) {
	fmt.Printf("INCONCLUSIVE property=C14 oracle self-test failed: "+format+"\n", a...)
	cleanupScratch()
	os.Exit(2)
}

// c14Selftest: classifier against a dumber method, measuring machinery against known answers.
func c14Selftest(p *c14Run) {
	for kind := 0; kind < 2; kind++ {
		for _, n := range []int{0, 1, 2, 7, 100} {
			d := c14Valid(kind, n)
			cl := c14Classify(d)
			if kind == 0 && (cl.Branch != "binary" || int(cl.Count) != n || len(d) != 84+50*n) {
				c14Abort("classifier: valid binary n=%d -> %+v", n, cl)
			}
			if kind == 1 && (cl.Branch != "ascii" || cl.NVertex != 3*n || cl.NVertex != strings.Count(string(d), "vertex ")) {
				c14Abort("classifier: valid ascii n=%d -> %+v", n, cl)
			}
		}
	}
	pad := strings.Repeat(" ", 90)
	for _, t := range []struct {
		s      string
		branch string
		nv     int
		bad    bool
	}{
		{strings.Repeat("x", 83), "short", 0, false},
		{"vertex 1 2 3\n" + pad, "ascii", 1, false},
		{"vertex 1 2\nvertex 1 2 3 4\n vertex\t1 2 3\r\nVertex 1 2 3\n" + pad, "ascii", 1, false},
		{"vertex 1 2 3\nvertex 1 x 3\nvertex 1 2 3\n" + pad, "ascii", 1, true},
		{"vertex 1 2 3\n" + strings.Repeat("y", 70000) + "\nvertex 1 2 3\n", "ascii", 1, false},
		{string(make([]byte, 84)), "binary", 0, false},
		{string(make([]byte, 134)), "ascii", 0, false},
	} {
		cl := c14Classify([]byte(t.s))
		if cl.Branch != t.branch || cl.NVertex != t.nv || cl.BadFloat != t.bad {
			c14Abort("classifier: %q -> %+v", c14Trunc(t.s, 40), cl)
		}
	}
	cr := runChild("", "c14", []string{"selftest", p.dir}, []string{"GOMAXPROCS=2"}, 120*time.Second)
	var a0, a1 uint64
	okA, okR := false, false
	for _, ln := range strings.Split(cr.Out, "\n") {
		if n, _ := fmt.Sscanf(ln, "C14T alloc %d %d", &a0, &a1); n == 2 {
			okA = a0 < 16<<10 && a1 >= 8<<20 && a1 < 8<<20+64<<10
		}
		if strings.HasPrefix(ln, "C14T run ") {
			f := strings.Split(ln[9:], "|")
			a := 0
			if len(f) == 4 {
				a, _ = strconv.Atoi(f[3])
			}
			okR = len(f) == 4 && f[0] == "panic" && f[1] == "true" && f[2] == "mesh" && a >= 8<<20 && a < 9<<20
		}
	}
	rs, _ := c14ParseResults(cr.Out)
	okC := cr.Exit == c14ExitCPU && len(rs) == 1 && rs[0].O == "cpu-exceeded" && rs[0].I == 99 && rs[0].CPUus >= 300000 && rs[0].CPUus < 3000000
	if !okA || !okR || !okC {
		c14Abort("measuring child: alloc-ok=%v recover-ok=%v cpu-watchdog-ok=%v exit=%d timeout=%v output: %s", okA, okR, okC, cr.Exit, cr.TimedOut, c14Tail(cr.Out, 600))
	}
}

func checkC14(c *Ctx) {
	c.Rule("inputs = enumerated systematic list (every truncation point of small binary files, 0..83 byte files, k=0..7 vertex lines, every malformed number token in every position, " +
		"2/4 numbers per vertex, line-ending/NUL/BOM/unicode-space variants, long lines 4 KiB..1 MiB, shipped files truncated/count-rewritten) followed by PRNG inputs " +
		"(structured binary with one inconsistency, exact-size garbage, structured ASCII with 0..6 vertices per facet and malformed tokens, token soup, long lines, <84 byte files, " +
		"random bytes near sizes 84/134/184, mutated shipped files: byte/bit flips, truncations, splices, extensions, count rewrites, line deletions). " +
		"Non-trivial = the parent's own classifier says the file takes the binary branch (size == 84+50*count) or the ASCII branch with >= 1 well-formed vertex line; distinct by content hash (fnv64a).")
	c.Assume("allocation is judged for render.LoadSTL only (TotalAlloc delta <= 1 MiB + 400*size); obj.ImportSTL additionally builds an R-tree whose allocation is observed but only its panics/hangs are judged")
	c.Assume("hang = the loader's thread consumes more CPU time on one input than 4 s + 1000 x the per-byte CPU time of valid files, confirmed alone in a fresh process; a wall-clock watchdog expiry is only inconclusive")
	c.Assume("ImportSTL is called with the documented parameters numNeighbors=8, minChildren=3, maxChildren=5")
	if err := c14LoadShipped(); err != nil {
		c.Inconclusive("cannot read the shipped STL files: " + err.Error())
		return
	}
	c14BuildSystematic()
	p := &c14Run{c: c, dir: scratch(), nsPerByte: 100000, wall: time.Duration(c.Pick(300, 900)) * time.Second, famOut: map[string]int64{}, errKinds: map[string]int64{}}
	c14Selftest(p)

	// calibration on valid files: worst allocation ratio, CPU per byte
	calib := c14CalibList()
	reps := 4
	var bytesTotal int64
	for _, in := range calib {
		bytesTotal += int64(reps * len(in.Data))
	}
	p.calibBad = map[string]string{}
	cpu := p.batch("calib", 0, reps*len(calib), func(i int) c14Input { return calib[i%len(calib)] })
	if c.NumViolations() > 0 {
		return // the loader already fails on VALID files; nothing more to learn from hostile ones
	}
	for fam, why := range p.calibBad {
		c.Inconclusive(fmt.Sprintf("valid calibration file %s does not load (%s): loader or harness broken, totality results would be vacuous", fam, why))
		return
	}
	if p.calibSeen != reps*len(calib) {
		c.Inconclusive(fmt.Sprintf("calibration incomplete: %d of %d results", p.calibSeen, reps*len(calib)))
		return
	}
	ns := float64(cpu.Nanoseconds()) / float64(bytesTotal)
	c.Obs("calibration_cpu_ns_per_byte_valid_files_(incl_process_start)", ns)
	slope := 1000 * ns
	if slope < 10000 {
		slope = 10000
	}
	if slope > 300000 {
		slope = 300000
	}
	p.nsPerByte = int(slope)
	c.Obs("cpu_budget_per_input", fmt.Sprintf("%d ms + %d ns/byte", c14CPUBaseMs, p.nsPerByte))

	// the input list
	total := c.Pick(20000, 2000000)
	per := c.Pick(1250, 2500)
	if total < len(c14Sys)+1000 {
		total = len(c14Sys) + 1000
	}
	c.Obs("systematic_inputs", len(c14Sys))
	c.Obs("inputs_total", total)
	nb := (total + per - 1) / per
	gen := func(i int) c14Input { return c14Gen(c.Seed, i) }
	p.batch("range", 0, per, gen) // the systematic list first and alone: its minimal witnesses get the replay files
	parallelFor(nb-1, func(b int) {
		lo, hi := (b+1)*per, (b+2)*per
		if hi > total {
			hi = total
		}
		p.batch("range", lo, hi, gen)
	})
	c.Obs("outcomes_per_family", c14Sorted(p.famOut))
	c.Obs("error_kinds", c14Sorted(p.errKinds))
	c.Obs("slowest_input", p.slowest)
	c.Floor(c.Pick(3000, 100000))
}

func c14Sorted(m map[string]int64) []string {
	var out []string
	for k, v := range m {
		out = append(out, fmt.Sprintf("%s: %d", k, v))
	}
	sort.Strings(out)
	return out
}

// replayC14 re-runs the recorded input (literal bytes if stored, else regenerated) in a fresh child.
func replayC14(c *Ctx, path string) {
	b, err := os.ReadFile(path)
	var rp struct {
		Seed uint64 `json:"seed"`
		Case struct {
			Index int    `json:"index"`
			Data  string `json:"data_b64"`
		} `json:"case"`
	}
	if err != nil || json.Unmarshal(b, &rp) != nil {
		c.Inconclusive("cannot read replay file " + path)
		return
	}
	c14LoadShipped()
	c14BuildSystematic()
	c.Seed = rp.Seed
	in := c14Gen(rp.Seed, rp.Case.Index)
	if rp.Case.Data != "" {
		in.Data, _ = base64.StdEncoding.DecodeString(rp.Case.Data)
	}
	p := &c14Run{c: c, dir: scratch(), nsPerByte: 100000, wall: 300 * time.Second, famOut: map[string]int64{}, errKinds: map[string]int64{}}
	f := filepath.Join(p.dir, "replay-input.stl")
	os.WriteFile(f, in.Data, 0o644)
	cr := p.child("file", rp.Case.Index, rp.Case.Index+1, f)
	rs, _ := c14ParseResults(cr.Out)
	fmt.Printf("replay input#%d size=%d: exit=%d results=%s\n", rp.Case.Index, len(in.Data), cr.Exit, mustJSON(rs))
	for _, r := range rs {
		if r.O == "cpu-exceeded" {
			c.Violate("", fmt.Sprintf("LoadSTL-hang consumed %.1f s CPU on replayed input#%d", float64(r.CPUus)/1e6, r.I), c14Replay(rp.Seed, r.I, in))
			continue
		}
		p.judge(r, in, false)
	}
	if len(rs) == 0 {
		c.Violate("", fmt.Sprintf("LoadSTL-crash process died (exit=%d) on replayed input#%d: %s", cr.Exit, rp.Case.Index, c14Trunc(c14FirstFatal(cr.Out), 200)), c14Replay(rp.Seed, rp.Case.Index, in))
	}
	c.Distinct("replay-a")
	c.Distinct("replay-b")
}
