//go:build verif

// C17 oracle: independent constructions of fillets, chamfers, arcs, rel/polar
// vertices and Bezier curves (de Casteljau). Nothing here is copied from the
// library: angles come from atan2, fillet points from explicit angles on the
// circle, the centre from the tangent point plus the inward edge normal.
package main

import (
	"fmt"
	"math"
)

type c17P struct{ X, Y float64 }

func (a c17P) add(b c17P) c17P      { return c17P{a.X + b.X, a.Y + b.Y} }
func (a c17P) sub(b c17P) c17P      { return c17P{a.X - b.X, a.Y - b.Y} }
func (a c17P) mul(k float64) c17P   { return c17P{a.X * k, a.Y * k} }
func (a c17P) dot(b c17P) float64   { return a.X*b.X + a.Y*b.Y }
func (a c17P) cross(b c17P) float64 { return a.X*b.Y - a.Y*b.X }
func (a c17P) len() float64         { return math.Hypot(a.X, a.Y) }
func (a c17P) unit() c17P           { return a.mul(1 / a.len()) }
func c17Polar(r, th float64) c17P   { return c17P{r * math.Cos(th), r * math.Sin(th)} }
func c17Dist(a, b c17P) float64     { return a.sub(b).len() }

// One polygon vertex as the user specifies it.
type c17PV struct {
	X, Y   float64 // coordinates, or (r, theta) when Polar
	Rel    bool    `json:",omitempty"`
	Polar  bool    `json:",omitempty"`
	Kind   string  `json:",omitempty"` // "", smooth, chamfer, arc
	Radius float64 `json:",omitempty"` // smooth/arc radius or chamfer size
	Facets int     `json:",omitempty"`
}

type c17Poly struct {
	Gen     string
	Closed  bool  `json:",omitempty"`
	Reverse bool  `json:",omitempty"`
	Look    int64 `json:",omitempty"` // bit i: Vertices() is called after vertex i was added (mid-build look)
	V       []c17PV
}

// corner records what the oracle decided for one smoothed / chamfered vertex.
type c17Corner struct {
	Kind       string
	Spec       float64 // radius (smooth) or size (chamfer) as given by the user
	ThetaDeg   float64
	Turn       int // +1 left turn (CCW), -1 right turn
	Facets     int
	Fits       bool
	Ambiguous  bool    // fit depends on unspecified neighbour competition / margin
	D1, D2     float64 // tangent length, centre distance
	Centre     c17P
	OutIdx, N  int // position of its points in the expected list
	LenP, LenN float64
}

type c17Expect struct {
	Pts     []c17P
	Scale   float64
	Corners []c17Corner
	Arcs    int
	ArcKeys []string // class of every expanded arc (radius/half-chord class, facets bucket, sign)
	BadArc  bool     // |radius| < half chord: outside the domain
}

// fillet geometry of corner A-V-B with radius r: tangent length, centre
// distance, centre, tangent points, signed sweep from T0 to T1.
func c17Fillet(a, v, b c17P, r float64) (theta, d1, d2 float64, ctr, t0, t1 c17P, sweep float64) {
	u0, u1 := a.sub(v).unit(), b.sub(v).unit()
	theta = math.Atan2(math.Abs(u0.cross(u1)), u0.dot(u1))
	d1 = r / math.Tan(theta/2)
	d2 = r / math.Sin(theta/2)
	t0, t1 = v.add(u0.mul(d1)), v.add(u1.mul(d1))
	// inward normal of edge 0: the part of u1 orthogonal to u0
	n0 := u1.sub(u0.mul(u1.dot(u0))).unit()
	ctr = t0.add(n0.mul(r))
	p0, p1 := math.Atan2(t0.Y-ctr.Y, t0.X-ctr.X), math.Atan2(t1.Y-ctr.Y, t1.X-ctr.X)
	sweep = math.Remainder(p1-p0, 2*math.Pi)
	return
}

func c17FilletPts(ctr, t0 c17P, r, sweep float64, facets int) []c17P {
	p0 := math.Atan2(t0.Y-ctr.Y, t0.X-ctr.X)
	out := make([]c17P, facets+1)
	for k := range out {
		out[k] = ctr.add(c17Polar(r, p0+sweep*float64(k)/float64(facets)))
	}
	return out
}

// arc interior points from a to b: radius |r|, centre on the right of a->b for
// r>0 (so the arc bulges to the left of the direction of travel), minor arc.
func c17ArcPts(a, b c17P, r float64, facets int) (pts []c17P, ctr c17P, ok bool) {
	R, half := math.Abs(r), c17Dist(a, b)/2
	if !(R >= half) || half == 0 {
		return nil, ctr, false
	}
	d := b.sub(a).unit()
	right := c17P{d.Y, -d.X}
	sgn := 1.0
	if r < 0 {
		sgn = -1
	}
	h := math.Sqrt((R - half) * (R + half))
	ctr = a.add(b).mul(0.5).add(right.mul(sgn * h))
	alpha := 2 * math.Atan2(half, h) // angle subtended at the centre
	p0 := math.Atan2(a.Y-ctr.Y, a.X-ctr.X)
	for k := 1; k < facets; k++ {
		pts = append(pts, ctr.add(c17Polar(R, p0-sgn*alpha*float64(k)/float64(facets))))
	}
	return pts, ctr, true
}

func c17FacetBucket(f int) int {
	b := 0
	for f > 1 {
		f = (f + 1) / 2
		b++
	}
	return b // 1,2,3-4,5-8,9-16,17-32 -> 0..5
}

func c17RatioClass(x float64) int {
	switch {
	case x <= 1.0000001:
		return 0 // semicircle
	case x < 1.01:
		return 1
	case x < 1.5:
		return 2
	case x < 5:
		return 3
	case x < 50:
		return 4
	}
	return 5
}

func c17AngleClass(deg float64) int {
	for i, hi := range []float64{5, 30, 80, 89.999, 90.001, 100, 150, 175} {
		if deg < hi {
			return i
		}
	}
	return 8
}

const c17Margin = 0.02 // fit / no-fit must be clear by this relative margin

// c17ExpectPoly builds the expected vertex list of a polygon specification.
func c17ExpectPoly(s *c17Poly) (e c17Expect) {
	type node struct {
		p    c17P
		kind string
		r    float64
		f    int
	}
	// 1. polar + relative
	var abs []node
	for i, v := range s.V {
		p := c17P{v.X, v.Y}
		if v.Polar {
			p = c17Polar(v.X, v.Y)
		}
		if v.Rel && i > 0 {
			p = p.add(abs[i-1].p)
		} else if v.Rel && s.Closed && len(s.V) > 1 && !s.V[len(s.V)-1].Rel {
			// the vertex before the first vertex of a closed outline is its last vertex
			l := s.V[len(s.V)-1]
			lp := c17P{l.X, l.Y}
			if l.Polar {
				lp = c17Polar(l.X, l.Y)
			}
			p = p.add(lp)
		}
		n := node{p: p}
		if v.Radius != 0 && v.Facets != 0 || v.Kind == "chamfer" && v.Radius != 0 {
			n.kind, n.r, n.f = v.Kind, v.Radius, v.Facets
		}
		abs = append(abs, n)
	}
	// 2. arcs
	var l2 []node
	for i, n := range abs {
		if n.kind == "arc" {
			var prev *node
			if i > 0 {
				prev = &abs[i-1]
			} else if s.Closed {
				prev = &abs[len(abs)-1]
			}
			if prev != nil {
				pts, _, ok := c17ArcPts(prev.p, n.p, n.r, n.f)
				if !ok {
					e.BadArc = true
				}
				for _, q := range pts {
					l2 = append(l2, node{p: q})
				}
				e.Arcs++
				e.ArcKeys = append(e.ArcKeys, fmt.Sprintf("arc/ratio%d/f%d/sign%+d", c17RatioClass(math.Abs(n.r)/(c17Dist(prev.p, n.p)/2)), c17FacetBucket(n.f), int(math.Copysign(1, n.r))))
				e.Scale = math.Max(e.Scale, math.Abs(n.r))
			}
			n.kind = ""
		}
		l2 = append(l2, n)
	}
	// 3. fillets and chamfers
	m := len(l2)
	nb := func(i int) (int, int) {
		p, n := i-1, i+1
		if s.Closed {
			return (p + m) % m, n % m
		}
		if n >= m {
			n = -1
		}
		return p, n
	}
	d1 := make([]float64, m)
	for i, n := range l2 {
		p, q := nb(i)
		if n.kind == "" || p < 0 || q < 0 {
			continue
		}
		r := n.r
		if n.kind == "chamfer" {
			r = n.r / math.Sqrt2
		}
		_, d1[i], _, _, _, _, _ = c17Fillet(l2[p].p, n.p, l2[q].p, r)
	}
	nofit := make([]bool, m)
	for i := range l2 {
		if d1[i] > 0 {
			p, q := nb(i)
			nofit[i] = d1[i] >= (1+c17Margin)*math.Min(c17Dist(l2[p].p, l2[i].p), c17Dist(l2[q].p, l2[i].p))
		}
	}
	for i, n := range l2 {
		e.Scale = math.Max(e.Scale, math.Max(math.Abs(n.p.X), math.Abs(n.p.Y)))
		p, q := nb(i)
		if n.kind == "" || p < 0 || q < 0 {
			e.Pts = append(e.Pts, n.p)
			continue
		}
		r, f := n.r, n.f
		if n.kind == "chamfer" {
			r, f = n.r/math.Sqrt2, 1
		}
		th, dd1, dd2, ctr, t0, _, sweep := c17Fillet(l2[p].p, n.p, l2[q].p, r)
		cn := c17Corner{Kind: n.kind, Spec: n.r, ThetaDeg: th * 180 / math.Pi, Facets: f, D1: dd1, D2: dd2, Centre: ctr,
			LenP: c17Dist(l2[p].p, n.p), LenN: c17Dist(l2[q].p, n.p), OutIdx: len(e.Pts), Turn: 1}
		if l2[p].p.sub(n.p).cross(l2[q].p.sub(n.p)) > 0 {
			cn.Turn = -1 // incoming x outgoing < 0: right turn
		}
		occ := func(j int) float64 {
			if d1[j] > 0 && !nofit[j] {
				return d1[j]
			}
			return 0
		}
		switch {
		case nofit[i]:
			cn.Fits = false
		case dd1+occ(p) <= (1-c17Margin)*cn.LenP && dd1+occ(q) <= (1-c17Margin)*cn.LenN:
			cn.Fits = true
		default:
			cn.Ambiguous = true
		}
		if cn.Fits {
			pts := c17FilletPts(ctr, t0, r, sweep, f)
			cn.N = len(pts)
			e.Pts = append(e.Pts, pts...)
			e.Scale = math.Max(e.Scale, math.Max(dd2, r))
		} else {
			cn.N = 1
			e.Pts = append(e.Pts, n.p)
		}
		e.Corners = append(e.Corners, cn)
	}
	if s.Reverse {
		for i, j := 0, len(e.Pts)-1; i < j; i, j = i+1, j-1 {
			e.Pts[i], e.Pts[j] = e.Pts[j], e.Pts[i]
		}
		for k := range e.Corners {
			e.Corners[k].OutIdx = len(e.Pts) - e.Corners[k].OutIdx - e.Corners[k].N
		}
	}
	return e
}

//-----------------------------------------------------------------------------
// Bezier

// de Casteljau evaluation with first and second derivative (from the
// difference polygons of the intermediate levels).
func c17Bez(cp []c17P, t float64) (b, d1, d2 c17P) {
	n := len(cp) - 1
	var w [5]c17P
	copy(w[:], cp)
	for lvl := n; lvl >= 1; lvl-- {
		if lvl == 2 {
			d2 = w[2].sub(w[1].mul(2)).add(w[0]).mul(float64(n * (n - 1)))
		}
		if lvl == 1 {
			d1 = w[1].sub(w[0]).mul(float64(n))
		}
		for i := 0; i < lvl; i++ {
			w[i] = w[i].mul(1 - t).add(w[i+1].mul(t))
		}
	}
	return w[0], d1, d2
}

// the "even dumber" method: explicit Bernstein sum.
func c17Bernstein(cp []c17P, t float64) (b c17P) {
	n := len(cp) - 1
	binom := [][]float64{{1}, {1, 1}, {1, 2, 1}, {1, 3, 3, 1}, {1, 4, 6, 4, 1}}[n]
	for i, p := range cp {
		b = b.add(p.mul(binom[i] * math.Pow(t, float64(i)) * math.Pow(1-t, float64(n-i))))
	}
	return b
}

// c17Closest returns the parameters of local minima of |B(t)-v| with
// distance <= tol, on a grid of g cells refined by golden section + Newton.
func c17Closest(cp []c17P, grid []c17P, v c17P, tol float64) (ts []float64, best float64) {
	g := len(grid) - 1
	h := 1 / float64(g)
	lip := 0.0
	for i := 1; i < len(cp); i++ {
		lip = math.Max(lip, c17Dist(cp[i], cp[i-1]))
	}
	lip *= float64(len(cp) - 1)
	best = math.Inf(1)
	dist := func(t float64) float64 { b, _, _ := c17Bez(cp, t); return c17Dist(b, v) }
	for j := 0; j <= g; j++ {
		dj := c17Dist(grid[j], v)
		if dj > lip*h*1.01+tol {
			if dj < best {
				best = dj
			}
			continue
		}
		lo, hi := math.Max(0, float64(j-1)*h), math.Min(1, float64(j+1)*h)
		const phi = 0.6180339887498949
		a, b := lo, hi
		x1, x2 := b-phi*(b-a), a+phi*(b-a)
		f1, f2 := dist(x1), dist(x2)
		for it := 0; it < 60 && b-a > 1e-13; it++ {
			if f1 < f2 {
				b, x2, f2 = x2, x1, f1
				x1 = b - phi*(b-a)
				f1 = dist(x1)
			} else {
				a, x1, f1 = x1, x2, f2
				x2 = a + phi*(b-a)
				f2 = dist(x2)
			}
		}
		t := (a + b) / 2
		ft := dist(t)
		for _, e := range []float64{lo, hi, float64(j) * h} { // bracket ends and the grid point itself
			if fe := dist(e); fe <= ft {
				t, ft = e, fe
			}
		}
		for it := 0; it < 6; it++ { // Newton polish on (B-v).B' = 0
			bb, b1, b2 := c17Bez(cp, t)
			gp := b1.dot(b1) + bb.sub(v).dot(b2)
			if gp <= 0 {
				break
			}
			tn := math.Min(hi, math.Max(lo, t-bb.sub(v).dot(b1)/gp))
			if fn := dist(tn); fn <= ft {
				t, ft = tn, fn
			} else {
				break
			}
		}
		if ft < best {
			best = ft
		}
		if ft <= tol {
			ts = append(ts, t)
		}
	}
	return ts, best
}

//-----------------------------------------------------------------------------
// start-up self test of the oracle against dumber methods / defining predicates

func c17SelfTest(c *Ctx) error {
	r := c.Rng("selftest")
	for it := 0; it < 400; it++ {
		// Bezier: de Casteljau == Bernstein sum; derivatives == finite differences
		n := r.IR(1, 4)
		cp := make([]c17P, n+1)
		for i := range cp {
			cp[i] = c17P{r.R(-5, 5), r.R(-5, 5)}
		}
		t := r.F()
		b, d1, d2 := c17Bez(cp, t)
		if c17Dist(b, c17Bernstein(cp, t)) > 1e-12 {
			return fmt.Errorf("de Casteljau != Bernstein (n=%d t=%g)", n, t)
		}
		hh := 1e-4
		bp, _, _ := c17Bez(cp, t+hh)
		bm, _, _ := c17Bez(cp, t-hh)
		if c17Dist(bp.sub(bm).mul(0.5/hh), d1) > 1e-5 || c17Dist(bp.add(bm).sub(b.mul(2)).mul(1/(hh*hh)), d2) > 1e-3 {
			return fmt.Errorf("Bezier derivative wrong (n=%d t=%g)", n, t)
		}
		b0, _, _ := c17Bez(cp, 0)
		b1, _, _ := c17Bez(cp, 1)
		if b0 != cp[0] || b1 != cp[n] {
			return fmt.Errorf("Bezier end points not interpolated")
		}
		grid := make([]c17P, 257)
		for j := range grid {
			grid[j], _, _ = c17Bez(cp, float64(j)/256)
		}
		if ts, _ := c17Closest(cp, grid, b, 1e-10); len(ts) == 0 {
			return fmt.Errorf("closest-point search lost a point of the curve (n=%d t=%g)", n, t)
		}
		if d1.len() > 1e-3 {
			off := b.add(c17P{-d1.Y, d1.X}.unit().mul(1e-3))
			if ts, _ := c17Closest(cp, grid, off, 1e-10); len(ts) != 0 {
				return fmt.Errorf("closest-point search accepted an off-curve point")
			}
		}
		// fillet: defining predicates
		th := r.R(1, 179) * math.Pi / 180
		rot := r.R(0, 2*math.Pi)
		v := c17P{r.R(-3, 3), r.R(-3, 3)}
		rad := r.LogR(0.01, 2)
		sg := r.Sign()
		a := v.add(c17Polar(1000, rot))
		bb := v.add(c17Polar(1000, rot+sg*th))
		th2, dd1, dd2, ctr, t0, t1, sweep := c17Fillet(a, v, bb, rad)
		f := r.IR(1, 32)
		pts := c17FilletPts(ctr, t0, rad, sweep, f)
		tol := 1e-9 * (dd2 + 10)
		bis := a.sub(v).unit().add(bb.sub(v).unit()).unit()
		switch {
		case math.Abs(th2-th) > 1e-9,
			c17Dist(ctr, v.add(bis.mul(rad/math.Sin(th/2)))) > tol,
			math.Abs(c17Dist(t0, v)-rad/math.Tan(th/2)) > tol, math.Abs(dd1-c17Dist(t1, v)) > tol,
			math.Abs(t0.sub(ctr).dot(a.sub(v).unit())) > tol, math.Abs(t1.sub(ctr).dot(bb.sub(v).unit())) > tol,
			math.Abs(t0.sub(v).cross(a.sub(v).unit())) > tol, t0.sub(v).dot(a.sub(v)) <= 0,
			c17Dist(pts[0], t0) > tol, c17Dist(pts[f], t1) > tol,
			math.Abs(math.Abs(sweep)-(math.Pi-th)) > 1e-9:
			return fmt.Errorf("fillet oracle violates its defining predicates (theta=%g r=%g)", th, rad)
		}
		for k := range pts {
			if math.Abs(c17Dist(pts[k], ctr)-rad) > tol {
				return fmt.Errorf("fillet point off the circle")
			}
			if k > 0 {
				// equal chords <=> equal angular spacing on a common circle; turning sense = corner's
				if math.Abs(c17Dist(pts[k], pts[k-1])-2*rad*math.Sin((math.Pi-th)/float64(2*f))) > tol {
					return fmt.Errorf("fillet points not equally spaced")
				}
				if pts[k-1].sub(ctr).cross(pts[k].sub(ctr))*a.sub(v).cross(bb.sub(v)) >= 0 {
					return fmt.Errorf("fillet sweeps the wrong way")
				}
			}
		}
		// arc: defining predicates
		p, q := c17P{r.R(-3, 3), r.R(-3, 3)}, c17P{r.R(-3, 3), r.R(-3, 3)}
		half := c17Dist(p, q) / 2
		R := half * r.LogR(1.0005, 100) * r.Sign()
		fa := r.IR(1, 32)
		ap, actr, ok2 := c17ArcPts(p, q, R, fa)
		if !ok2 || len(ap) != fa-1 {
			return fmt.Errorf("arc oracle: wrong point count")
		}
		atol := 1e-9 * (math.Abs(R) + 10)
		if math.Abs(c17Dist(actr, p)-math.Abs(R)) > atol || math.Abs(c17Dist(actr, q)-math.Abs(R)) > atol ||
			q.sub(p).cross(actr.sub(p))*R >= 0 { // centre on the right of p->q for R>0
			return fmt.Errorf("arc oracle: centre wrong")
		}
		all := append(append([]c17P{p}, ap...), q)
		ch := c17Dist(all[1], all[0])
		for k := 1; k < len(all); k++ {
			if math.Abs(c17Dist(all[k], actr)-math.Abs(R)) > atol || math.Abs(c17Dist(all[k], all[k-1])-ch) > atol ||
				all[k].sub(p).cross(q.sub(p))*R > atol*half { // every point on the bulge side (left of p->q for R>0)
				return fmt.Errorf("arc oracle: points wrong (R=%g facets=%d)", R, fa)
			}
		}
		if float64(fa)*2*math.Asin(ch/(2*math.Abs(R))) > math.Pi+1e-6 {
			return fmt.Errorf("arc oracle: not the minor arc")
		}
	}
	return nil
}
