//go:build verif

// C18 - screw threads are right-handed, periodic, match their designation and mate.
//
// (a) every database entry against an independent designation table (c18_table.go), ToMillimetre laws;
// (b) helical symmetry / z-periodicity of untapered Screw3D for all thread profiles, starts +-1..4,
//
//	with an opposite-hand guard against a vacuous pass;
//
// (c) mating: external thread vs material left after cutting the internal thread, for every entry and
//
//	tolerance pair, as bare Screw3D pairs, as obj.Bolt/obj.Nut (nut moved along the bolt by the helical
//	motion) and as obj.ThreadedCylinderParms (mm) vs a mm external thread.
package main

import (
	"fmt"
	"math"
	"sort"
	"sync"

	"github.com/deadsy/sdfx/obj"
	"github.com/deadsy/sdfx/sdf"
	v3 "github.com/deadsy/sdfx/vec/v3"
)

func init() { checks["C18"] = checkC18 }

const c18Tau = 2 * math.Pi
const c18Sqrt3 = 1.7320508075688772

// c18Helix applies the screw motion: rotate about +z by phi (counter-clockwise seen from +z), advance z by adv.
func c18Helix(p v3.Vec, phi, adv float64) v3.Vec {
	s, c := math.Sincos(phi)
	return v3.Vec{X: c*p.X - s*p.Y, Y: s*p.X + c*p.Y, Z: p.Z + adv}
}

// c18Fold folds v into [-P/2, P/2] (own spelling, not sdf.SawTooth).
func c18Fold(v, P float64) float64 { return v - P*math.Round(v/P) }

// c18Band generates a point of the thread region of a screw (nominal radius R, pitch P, starts s, radial
// slope k per unit z, axial range [zlo,zhi] in the screw's own frame), concentrated on the 60-degree flanks,
// the crest and the root. tol widens the radial scatter. It returns the point and its profile coordinates.
func c18Band(r *Rng, R, P float64, s int, k, zlo, zhi, tol float64) (p v3.Vec, x, y float64) {
	switch r.I(10) {
	case 0, 1, 2, 3: // flanks
		x = r.R(-0.5, 0.5) * P
		y = R + P*0.10825 - c18Sqrt3*math.Abs(x) + r.N()*0.03*P + r.R(-1, 1)*tol
	case 4, 5: // crest
		x = r.N() * 0.08 * P
		y = R + r.R(-0.12, 0.15)*P + r.R(-1, 1)*tol
	case 6, 7: // root
		x = c18Fold(0.5*P+r.N()*0.1*P, P)
		y = R - 0.6*P + r.R(-0.18, 0.15)*P + r.R(-1, 1)*tol
	default:
		x = r.R(-0.5, 0.5) * P
		y = R + r.R(-0.9, 0.3)*P + r.R(-1, 1)*tol
	}
	theta := r.R(-math.Pi, math.Pi)
	if r.P(0.05) {
		theta = float64(r.IR(-2, 2)) * math.Pi / 2
	}
	z0 := x + float64(s)*P*theta/c18Tau
	nlo, nhi := math.Ceil((zlo-z0)/P), math.Floor((zhi-z0)/P)
	z := z0 + P*(nlo+float64(r.I(int(nhi-nlo)+1)))
	if nhi < nlo {
		z = r.R(zlo, zhi)
		x = c18Fold(z-float64(s)*P*theta/c18Tau, P)
	}
	rho := y - z*k
	if rho < 0 {
		rho = 0
	}
	sn, cs := math.Sincos(theta)
	return v3.Vec{X: rho * cs, Y: rho * sn, Z: z}, x, y
}

// c18Vol: a point anywhere in the cylinder of radius Rmax between zlo and zhi, with extra weight next to the axis (threads
// are built from a profile revolved about it: what happens at rho -> 0 is part of the solid too)
func c18Vol(r *Rng, Rmax, zlo, zhi float64) v3.Vec {
	rho := Rmax * math.Sqrt(r.F())
	switch r.I(3) {
	case 0:
		rho = Rmax * math.Pow(r.F(), 4)
	case 1:
		rho = Rmax * r.LogR(1e-6, 0.2)
	}
	sn, cs := math.Sincos(r.R(-math.Pi, math.Pi))
	return v3.Vec{X: rho * cs, Y: rho * sn, Z: r.R(zlo, zhi)}
}

type c18Profile struct {
	Name string
	Mk   func(r, p float64) (sdf.SDF2, error)
}

var c18Profiles = []c18Profile{
	{"iso-external", func(r, p float64) (sdf.SDF2, error) { return sdf.ISOThread(r, p, true) }},
	{"iso-internal", func(r, p float64) (sdf.SDF2, error) { return sdf.ISOThread(r, p, false) }},
	{"acme", sdf.AcmeThread},
	{"ansi-buttress", sdf.ANSIButtressThread},
	{"plastic-buttress", sdf.PlasticButtressThread},
}

// tolerance classes as a fraction of the pitch; class 3 is drawn log-uniformly from [1e-4, 1] per case
var c18TolFrac = []float64{0, 0.02, 0.2, -1}

// c18SelfTest validates the harness's own helpers against dumber methods.
func c18SelfTest(c *Ctx) error {
	// helix: a point of the right-handed helix (cos t, sin t, L t/2pi) moves to parameter t+phi
	L := 1.7
	for _, t := range []float64{-2.5, 0.3, 1.9} {
		for _, phi := range []float64{0.7, -1.1, math.Pi / 2} {
			a := c18Helix(v3.Vec{X: math.Cos(t), Y: math.Sin(t), Z: L * t / c18Tau}, phi, L*phi/c18Tau)
			b := v3.Vec{X: math.Cos(t + phi), Y: math.Sin(t + phi), Z: L * (t + phi) / c18Tau}
			if a.Sub(b).Length() > 1e-12 {
				return fmt.Errorf("helix motion helper wrong: %v vs %v", a, b)
			}
		}
	}
	// right-handedness: the motion turns counter-clockwise seen from +z ((r x dr).z > 0) while z increases
	p0, p1 := c18Helix(v3.Vec{X: 1}, 0, 0), c18Helix(v3.Vec{X: 1}, 1e-3, 1e-3)
	if p0.Cross(p1.Sub(p0)).Z <= 0 || p1.Z <= p0.Z {
		return fmt.Errorf("helix helper is not right-handed")
	}
	// band sampler + overlap detector on an ideal sharp-V thread written here: equal radii never overlap,
	// a bolt fatter by 0.05P must be caught, and the point <-> profile mapping must round-trip.
	r := c.Rng("selftest")
	for _, cfg := range []struct {
		R, P, k float64
		s       int
	}{{4, 1.25, 0, 1}, {0.42, 1 / 14.0, 1 / 32.0, 1}, {10, 1.5, 0, -3}} {
		hit, clean := 0, 0
		for i := 0; i < 4000; i++ {
			p, x, y := c18Band(r, cfg.R, cfg.P, cfg.s, cfg.k, -3*cfg.P, 3*cfg.P, 0)
			rho := math.Hypot(p.X, p.Y)
			x2 := c18Fold(p.Z-float64(cfg.s)*cfg.P*math.Atan2(p.Y, p.X)/c18Tau, cfg.P)
			y2 := rho + p.Z*cfg.k
			if math.Abs(c18Fold(x2-x, cfg.P)) > 1e-9*cfg.P || math.Abs(y2-y) > 1e-9*cfg.R {
				return fmt.Errorf("band sampler mapping does not round-trip: (%g,%g) vs (%g,%g)", x, y, x2, y2)
			}
			v := func(R float64) float64 { return y2 - (R + 0.10825*cfg.P - c18Sqrt3*math.Abs(x2)) }
			if math.Max(v(cfg.R), -v(cfg.R)) < -1e-9*cfg.P {
				return fmt.Errorf("ideal thread overlaps itself")
			}
			clean++
			if math.Max(v(cfg.R+0.05*cfg.P), -v(cfg.R)) < -1e-3*cfg.P {
				hit++
			}
		}
		if hit < 100 {
			return fmt.Errorf("band sampler found only %d/%d overlaps of a 0.05P fat ideal bolt", hit, clean)
		}
	}
	return nil
}

var c18Once sync.Map

// c18Inconcl reports an inconclusive condition once per distinct message.
func c18Inconcl(c *Ctx, msg string) {
	if _, dup := c18Once.LoadOrStore(msg, true); !dup {
		c.Inconclusive(msg)
	}
}

func c18Close(a, b float64) bool { return math.Abs(a-b) <= 1e-12*math.Max(math.Abs(a), math.Abs(b)) }

type c18Entry struct {
	Name    string
	T       sdf.ThreadParameters // value snapshot of the database entry
	InTable bool
}

// c18CheckTable does part (a) and returns every database entry that resolved.
func c18CheckTable(c *Ctx) []c18Entry {
	rows, err := c18Table()
	if err != nil {
		c.Inconclusive("self-test: " + err.Error())
		return nil
	}
	var entries []c18Entry
	expect := map[string]c18Row{}
	fam := map[string]int{}
	check := func(row c18Row) {
		c.Eval(1)
		t, err := sdf.ThreadLookup(row.Name)
		if err != nil || t == nil {
			c.Violate("", fmt.Sprintf("table-missing designation %q (%s) does not resolve: %v", row.Name, row.Family, err), map[string]any{"name": row.Name})
			return
		}
		snap := *t
		entries = append(entries, c18Entry{row.Name, snap, row.Family != "extra"})
		bad := ""
		if !c18Close(t.Radius, 0.5*row.Dia) {
			bad += fmt.Sprintf(" Radius=%.10g want %.10g;", t.Radius, 0.5*row.Dia)
		}
		if !c18Close(t.Pitch, row.Pitch) {
			bad += fmt.Sprintf(" Pitch=%.10g want %.10g;", t.Pitch, row.Pitch)
		}
		if t.Units != row.Units {
			bad += fmt.Sprintf(" Units=%q want %q;", t.Units, row.Units)
		}
		if math.Abs(t.Taper-row.Taper) > 1e-15 {
			bad += fmt.Sprintf(" Taper=%.12g want %.12g;", t.Taper, row.Taper)
		}
		if t.Name != row.Name {
			bad += fmt.Sprintf(" Name=%q;", t.Name)
		}
		if bad != "" {
			c.Violate("", fmt.Sprintf("table-row %q (%s):%s", row.Name, row.Family, bad), map[string]any{"name": row.Name, "got": snap, "want": row})
		}
		// ToMillimetre laws
		f := 1.0
		if row.Units == "inch" {
			f = 25.4
		}
		m1 := *t.ToMillimetre()
		m2 := *m1.ToMillimetre()
		bad = ""
		if !c18Close(m1.Radius, snap.Radius*f) || !c18Close(m1.Pitch, snap.Pitch*f) || !c18Close(m1.HexFlat2Flat, snap.HexFlat2Flat*f) {
			bad += fmt.Sprintf(" lengths (R %.10g P %.10g F2F %.10g) not x%g of (%.10g %.10g %.10g);", m1.Radius, m1.Pitch, m1.HexFlat2Flat, f, snap.Radius, snap.Pitch, snap.HexFlat2Flat)
		}
		if m1.Taper != snap.Taper {
			bad += fmt.Sprintf(" taper changed %.12g -> %.12g;", snap.Taper, m1.Taper)
		}
		if m1.Units != "mm" || m1.Name != snap.Name {
			bad += fmt.Sprintf(" units/name %q/%q;", m1.Units, m1.Name)
		}
		if m2 != m1 {
			bad += fmt.Sprintf(" not idempotent: twice=%+v once=%+v;", m2, m1)
		}
		if f == 1 && m1 != snap {
			bad += fmt.Sprintf(" mm entry changed: %+v -> %+v;", snap, m1)
		}
		if t2, err := sdf.ThreadLookup(row.Name); err != nil || *t2 != snap {
			bad += fmt.Sprintf(" database entry mutated by ToMillimetre: before %+v after %+v;", snap, t2)
			if t2 != nil {
				*t2 = snap // undo so that later parts see the original entry
			}
		}
		if bad != "" {
			c.Violate("", fmt.Sprintf("tomm %q:%s", row.Name, bad), map[string]any{"name": row.Name, "entry": snap, "once": m1, "twice": m2})
		}
		c.Distinct("table/" + row.Name)
		fam[row.Family]++
	}
	for _, row := range rows {
		expect[row.Name] = row
		check(row)
	}
	// probe the private database for entries outside the table
	var unchecked []string
	cands := c18CandidateNames()
	for _, n := range cands {
		if _, ok := expect[n]; ok {
			continue
		}
		expect[n] = c18Row{}
		t, err := sdf.ThreadLookup(n)
		if err != nil || t == nil {
			continue
		}
		if d, p, ok := c18ParseMetric(n); ok { // the designation itself states both values
			check(c18Row{n, d, p, "mm", 0, "extra"})
			continue
		}
		var num int
		var tpi float64
		var pre string
		if k, _ := fmt.Sscanf(n, "un%1s_%d_%g", &pre, &num, &tpi); k == 3 && c18NumberedTPI[fmt.Sprintf("%s%d-%g", pre, num, tpi)] {
			// standard numbered unified size, TPI stated in the name
			check(c18Row{n, 0.060 + 0.013*float64(num), 1 / tpi, "inch", 0, "extra"})
			continue
		}
		unchecked = append(unchecked, n)
		entries = append(entries, c18Entry{n, *t, false})
	}
	sort.Strings(unchecked)
	c.Obs("table_rows_by_family", fam)
	c.Obs("table_probe_candidates", len(cands))
	c.Obs("table_entries_outside_table_values_unchecked", unchecked)
	return entries
}

// c18CheckSymmetry does part (b).
func c18CheckSymmetry(c *Ctx) {
	type job struct {
		prof   int
		starts int
		g      int
	}
	var jobs []job
	nGeom, nPts := c.Pick(6, 60), c.Pick(1000, 4000)
	for pi := range c18Profiles {
		for _, s := range []int{1, 2, 3, 4, -1, -2, -3, -4} {
			for g := 0; g < nGeom; g++ {
				jobs = append(jobs, job{pi, s, g})
			}
		}
	}
	var mu sync.Mutex
	guard := map[string]float64{}
	parallelFor(len(jobs), func(ji int) {
		j := jobs[ji]
		prof := c18Profiles[j.prof]
		r := c.Rng("sym", prof.Name, j.starts, j.g)
		radius := r.LogR(0.4, 60)
		pitch := radius * r.R(0.05, 0.35)
		if j.g == 0 { // a realistic metric size
			radius, pitch = 8, 2
		}
		as := math.Abs(float64(j.starts))
		zs := 3 * pitch
		maxTurns := 1.5
		// the end caps |z|-length/2 must stay below the thread distance (>= -rho >= -1.3 radius) at p, H(p), p+-2P
		length := 2 * (zs + as*pitch*maxTurns + 2.5*pitch + 1.35*radius)
		th, err := prof.Mk(radius, pitch)
		if err != nil {
			c18Inconcl(c, fmt.Sprintf("profile %s(%g,%g): %v", prof.Name, radius, pitch, err))
			return
		}
		s, err := sdf.Screw3D(th, length, 0, pitch, j.starts)
		if err != nil {
			c18Inconcl(c, fmt.Sprintf("Screw3D %s: %v", prof.Name, err))
			return
		}
		tol := 1e-9 * (radius + length)
		lead := float64(j.starts) * pitch
		maxOpp, maxErr := 0.0, 0.0
		nNeg := 0
		for i := 0; i < nPts; i++ {
			var rho float64
			if r.P(0.6) {
				rho = radius + r.R(-1.0, 0.25)*pitch
			} else {
				rho = radius * r.R(0.5, 1.3)
			}
			rho = math.Max(rho, 0.3*radius)
			theta := r.R(-math.Pi, math.Pi)
			p := v3.Vec{X: rho * math.Cos(theta), Y: rho * math.Sin(theta), Z: r.R(-zs, zs)}
			var phi float64
			switch r.I(4) {
			case 0:
				phi = float64(r.IR(1, 6)) * math.Pi / 2 * r.Sign()
			case 1:
				phi = r.LogR(1e-9, 1e-2) * r.Sign()
			default:
				phi = r.R(-maxTurns, maxTurns) * c18Tau
			}
			f0 := s.Evaluate(p)
			if f0 < 0 {
				nNeg++
			}
			q := c18Helix(p, phi, lead*phi/c18Tau)
			f1 := s.Evaluate(q)
			if d := math.Abs(f1 - f0); d > tol || math.IsNaN(d) {
				c.Violate("", fmt.Sprintf("helix-invariance %s starts=%d r=%.6g pitch=%.6g: f(p)=%.9g f(H_phi p)=%.9g phi=%.9g p=%v (diff %.3g > %.3g)",
					prof.Name, j.starts, radius, pitch, f0, f1, phi, p, d, tol),
					map[string]any{"kind": "helix", "profile": prof.Name, "starts": j.starts, "radius": radius, "pitch": pitch, "length": length, "p": p, "phi": phi, "f_p": f0, "f_Hp": f1})
			} else if d > maxErr {
				maxErr = d
			}
			n := float64(r.IR(1, 2)) * r.Sign()
			f2 := s.Evaluate(v3.Vec{X: p.X, Y: p.Y, Z: p.Z + n*pitch})
			if d := math.Abs(f2 - f0); d > tol || math.IsNaN(d) {
				c.Violate("", fmt.Sprintf("z-periodicity %s starts=%d r=%.6g pitch=%.6g: f(p)=%.9g f(p%+g*pitch*z)=%.9g p=%v (diff %.3g > %.3g)",
					prof.Name, j.starts, radius, pitch, f0, n, f2, p, d, tol),
					map[string]any{"kind": "period", "profile": prof.Name, "starts": j.starts, "radius": radius, "pitch": pitch, "length": length, "p": p, "n": n, "f_p": f0, "f_shift": f2})
			} else if d > maxErr {
				maxErr = d
			}
			// opposite hand (guard only)
			f3 := s.Evaluate(c18Helix(p, phi, -lead*phi/c18Tau))
			maxOpp = math.Max(maxOpp, math.Abs(f3-f0))
		}
		c.Eval(2 * nPts)
		c.MaxObs("sym_worst_invariance_error_over_scale", maxErr/(radius+length))
		key := fmt.Sprintf("sym/%s/starts%+d", prof.Name, j.starts)
		if maxOpp > 1e-3*pitch && nNeg > nPts/20 && nNeg < nPts*19/20 {
			c.Distinct(key)
		}
		mu.Lock()
		if v, ok := guard[key]; !ok || maxOpp/pitch < v {
			guard[key] = maxOpp / pitch
		}
		mu.Unlock()
		if ji == 7 {
			c.Sample(map[string]any{"kind": "symmetry", "profile": prof.Name, "starts": j.starts, "radius": radius, "pitch": pitch, "length": length, "points": nPts, "opposite_hand_max_diff_over_pitch": maxOpp / pitch})
		}
	})
	minGuard := math.Inf(1)
	for _, v := range guard {
		minGuard = math.Min(minGuard, v)
	}
	c.Obs("sym_opposite_hand_min_over_cases_of_max_diff_over_pitch", minGuard)
	c.Obs("sym_profile_x_starts_cases", len(guard))
}

// c18Mate evaluates bolt and nut material at n band points and reports overlaps. Returns (inBolt, inNut).
type c18MateCase struct {
	Kind, Name string
	Bi, Ni     int
	Fb, Fn     float64 // bolt / nut tolerance as a fraction of the pitch
	P          float64 // pitch (native unit of the pair)
	Desc       map[string]any
	Evals      int    // points evaluated (flushed to c.Eval in batches: the counter is mutex-protected)
	Key        string // known-finding key of the point being judged ("" = none)
}

func c18Overlap(c *Ctx, mc *c18MateCase, p v3.Vec, e, n float64, inB, inN *int, closest *float64) {
	mc.Evals++
	if e < 0 {
		*inB++
	}
	if n < 0 {
		*inN++
	}
	m := math.Max(e, n)
	if m < *closest {
		*closest = m
	}
	if m < -1e-9*mc.P || math.IsNaN(m) {
		c.MaxObs("mate_worst_overlap_depth_over_pitch", -m/mc.P)
		d := map[string]any{"p": p, "bolt": e, "nut_material": n}
		for k, v := range mc.Desc {
			d[k] = v
		}
		c.Violate(mc.Key, fmt.Sprintf("%s %s bolt_tol=%gP nut_tol=%gP: bolt thread and nut material overlap by %.4g pitch at p=%v (bolt %.6g, nut material %.6g) %v",
			mc.Kind, mc.Name, mc.Fb, mc.Fn, -m/mc.P, p, e, n, mc.Desc), d)
	}
}

// c18KeyNutPlug: known finding, identified by this call: obj.Nut of a tapered (NPT) thread has material on its own axis.
const c18KeyNutPlug = "obj-nut-npt-axial-plug"

func c18PinnedNutPlug(c *Ctx) {
	nut, err := obj.Nut(&obj.NutParms{Thread: "npt_1/8", Style: "hex", Tolerance: 0})
	if err != nil {
		c18Inconcl(c, fmt.Sprintf("pinned obj.Nut npt_1/8: %v", err))
		return
	}
	h := nut.BoundingBox().Max.Z
	worst, at := 0.0, 0.0
	for _, f := range []float64{-0.9, -0.6, -0.3, 0.3, 0.6, 0.9} {
		if v := nut.Evaluate(v3.Vec{Z: f * h}); v < worst {
			worst, at = v, f*h
		}
	}
	c.Eval(6)
	if worst < 0 {
		c.Violate(c18KeyNutPlug, fmt.Sprintf("mate-obj pinned obj.Nut(npt_1/8, hex, tolerance 0): the point (0,0,%.4g) on the axis of the nut is inside its material (Evaluate=%.4g): the tapered internal thread leaves a thin cone along the axis uncut, which the solid core of obj.Bolt intersects", at, worst),
			map[string]any{"thread": "npt_1/8", "z": at, "value": worst})
	}
}

func c18CheckMating(c *Ctx, entries []c18Entry) {
	c18PinnedNutPlug(c)
	nPts := c.Pick(2000, 40000)
	var closeMu sync.Mutex
	closeByClass := map[string]float64{}
	noteClosest := func(kind string, bi, ni int, v float64) {
		k := fmt.Sprintf("mate_closest_approach_over_pitch/%s/b%d_n%d", kind, bi, ni)
		closeMu.Lock()
		if old, ok := closeByClass[k]; !ok || v < old {
			closeByClass[k] = v
		}
		closeMu.Unlock()
	}
	parallelFor(len(entries)*16, func(idx int) {
		en := entries[idx/16]
		bi, ni := (idx%16)/4, idx%4
		t := en.T
		P := t.Pitch
		fb, fn := c18TolFrac[bi], c18TolFrac[ni]
		k := 0.0
		if t.Taper != 0 {
			k = 1.0 / 32.0 // sampling only: where the tapered band is expected
		}
		r := c.Rng("mate", en.Name, bi, ni)
		if fb < 0 {
			fb = r.LogR(1e-4, 1)
		}
		if fn < 0 {
			fn = r.LogR(1e-4, 1)
		}
		tb, tn := fb*P, fn*P

		// ---- bare Screw3D pairs
		startsList := []int{1, pickOne(r, []int{2, 3, 4, -1, -2, -3, -4})}
		if !c.Quick {
			startsList = []int{1, 2, 3, 4, -1, -2, -3, -4}
		}
		for _, st := range startsList {
			Ln := P * r.R(3, 8)
			Lb := Ln * r.R(0.6, 2)
			ep, err1 := sdf.ISOThread(t.Radius-tb, P, true)
			ip, err2 := sdf.ISOThread(t.Radius+tn, P, false)
			if err1 != nil || err2 != nil {
				c18Inconcl(c, fmt.Sprintf("ISOThread %s: %v %v", en.Name, err1, err2))
				return
			}
			ext, err1 := sdf.Screw3D(ep, Lb, t.Taper, P, st)
			cut, err2 := sdf.Screw3D(ip, Ln, t.Taper, P, st)
			if err1 != nil || err2 != nil {
				c18Inconcl(c, fmt.Sprintf("Screw3D %s: %v %v", en.Name, err1, err2))
				return
			}
			Rbody := t.Radius + 3*P
			mc := &c18MateCase{Kind: "mate-bare", Name: en.Name, Bi: bi, Ni: ni, Fb: fb, Fn: fn, P: P, Desc: map[string]any{"kind": "bare", "name": en.Name, "starts": st, "bolt_len": Lb, "nut_len": Ln, "bolt_tol": tb, "nut_tol": tn}}
			inB, inN, closest := 0, 0, math.Inf(1)
			zr := math.Min(Lb, Ln)/2 + 0.4*P
			for i := 0; i < nPts; i++ {
				p, _, _ := c18Band(r, t.Radius, P, st, k, -zr, zr, math.Max(tb, tn))
				if i%5 == 4 {
					p = c18Vol(r, t.Radius+P, -zr, zr)
				}
				e := ext.Evaluate(p)
				n := math.Max(math.Max(math.Hypot(p.X, p.Y)-Rbody, math.Abs(p.Z)-Ln/2), -cut.Evaluate(p))
				c18Overlap(c, mc, p, e, n, &inB, &inN, &closest)
			}
			if inB > 0 && inN > 0 {
				c.Distinct(fmt.Sprintf("mate/%s/b%d_n%d", en.Name, bi, ni))
				c.Count("mate_bare_cases_nontrivial", 1)
			}
			noteClosest("bare", bi, ni, closest/P)
			c.Eval(mc.Evals)
		}

		// ---- the real obj.Bolt / obj.Nut pair, nut moved along the bolt by the helical motion
		nut, err := obj.Nut(&obj.NutParms{Thread: en.Name, Style: "hex", Tolerance: tn})
		if err != nil {
			c18Inconcl(c, fmt.Sprintf("obj.Nut %s: %v", en.Name, err))
			return
		}
		nh := 2 * nut.BoundingBox().Max.Z
		Lt := nh * r.R(2.2, 3.5)
		shank := nh * r.R(0, 1)
		style := "hex"
		if r.P(0.15) {
			style = "knurl"
		}
		bolt, err := obj.Bolt(&obj.BoltParms{Thread: en.Name, Style: style, Tolerance: tb, TotalLength: shank + Lt, ShankLength: shank})
		if err != nil {
			c18Inconcl(c, fmt.Sprintf("obj.Bolt %s: %v", en.Name, err))
			return
		}
		zTop := bolt.BoundingBox().Max.Z
		zc := zTop - Lt/2 // centre of the threaded part (observed: top of the bolt minus half the thread length)
		// off the axis (the screw profile has its base edge on the axis: distance 0 there) but inside the thread root that is
		// left after the tolerance; a tolerance that consumes the core (tiny threads with a tolerance of a whole pitch) leaves
		// nothing to locate and nothing to mate
		root := t.Radius - tb - 0.7*P
		if root < 0.1*t.Radius {
			c.Count("mate_obj_skipped_tolerance_consumes_core", 1)
			return
		}
		ax := 0.5 * root
		if !(bolt.Evaluate(v3.Vec{X: ax, Z: zTop - 1e-3*P}) < 0 && bolt.Evaluate(v3.Vec{X: ax, Z: zTop + 1e-3*P}) > 0 && nh > 0 &&
			bolt.Evaluate(v3.Vec{X: ax, Z: zc - Lt/2 + 1e-3*P}) < 0) {
			c18Inconcl(c, fmt.Sprintf("obj.Bolt %s: cannot locate the threaded part from the bounding box (style %s tol %g total %g shank %g: f(top-)=%g f(top+)=%g f(thread start)=%g)", en.Name, style, tb, shank+Lt, shank,
				bolt.Evaluate(v3.Vec{X: ax, Z: zTop - 1e-3*P}), bolt.Evaluate(v3.Vec{X: ax, Z: zTop + 1e-3*P}), bolt.Evaluate(v3.Vec{X: ax, Z: zc - Lt/2 + 1e-3*P})))
			return
		}
		advMax := (Lt - nh) / 2
		nPhi := c.Pick(4, 10)
		mc := &c18MateCase{Kind: "mate-obj", Name: en.Name, Bi: bi, Ni: ni, Fb: fb, Fn: fn, P: P}
		inB, inN, closest := 0, 0, math.Inf(1)
		for m := 0; m < nPhi; m++ {
			adv := 0.0
			switch {
			case m == 1:
				adv = advMax
			case m == 2 && t.Taper == 0:
				adv = -advMax
			case m > 0:
				adv = r.R(-advMax, advMax)
				if t.Taper != 0 {
					adv = math.Abs(adv) // tapered: only towards the thin end (+z, away from the head)
				}
			}
			phi := adv / P * c18Tau
			mc.Desc = map[string]any{"kind": "obj", "name": en.Name, "style": style, "total_len": shank + Lt, "shank_len": shank, "bolt_tol": tb, "nut_tol": tn, "nut_phi": phi, "nut_advance": adv, "thread_centre_z": zc}
			for i := 0; i < nPts/2; i++ {
				q, _, _ := c18Band(r, t.Radius, P, 1, k, adv-nh/2-0.3*P, adv+nh/2+0.3*P, math.Max(tb, tn))
				if i%5 == 4 {
					q = c18Vol(r, t.Radius+P, adv-nh/2-0.3*P, adv+nh/2+0.3*P)
				}
				p := v3.Vec{X: q.X, Y: q.Y, Z: q.Z + zc}
				e := bolt.Evaluate(p)
				nq := c18Helix(q, -phi, -adv)
				n := nut.Evaluate(nq)
				// known finding: a tapered internal thread leaves a thin cone of material on the axis of the nut (pinned in
				// c18PinnedNutPlug); points inside that cone (with 5 % margin) are reported under its key, everything else as usual
				mc.Key = ""
				if t.Taper != 0 && math.Hypot(nq.X, nq.Y) <= 1.05*math.Abs(nq.Z)*math.Tan(t.Taper)+1e-9*P {
					mc.Key = c18KeyNutPlug
				}
				c18Overlap(c, mc, p, e, n, &inB, &inN, &closest)
				mc.Key = ""
			}
		}
		if inB > 0 && inN > 0 {
			c.Distinct(fmt.Sprintf("obj/%s/b%d_n%d", en.Name, bi, ni))
			c.Count("mate_obj_cases_nontrivial", 1)
		}
		noteClosest("obj", bi, ni, closest/P)
		c.Eval(mc.Evals)

		// ---- obj.ThreadedCylinderParms (always millimetres) vs an external thread built in millimetres
		if bi == 0 || bi == ni {
			f := 1.0
			if t.Units == "inch" {
				f = 25.4
			}
			Rm, Pm := t.Radius*f, P*f
			H := Pm * r.R(3, 8)
			tc, err := (&obj.ThreadedCylinderParms{Height: H, Diameter: 2 * (Rm + 3*Pm), Thread: en.Name, Tolerance: tn * f}).Object()
			if err != nil {
				c18Inconcl(c, fmt.Sprintf("ThreadedCylinder %s: %v", en.Name, err))
				return
			}
			ep, err1 := sdf.ISOThread(Rm-tb*f, Pm, true)
			if err1 != nil {
				c18Inconcl(c, fmt.Sprintf("ISOThread %s: %v", en.Name, err1))
				return
			}
			ext, err1 := sdf.Screw3D(ep, H*r.R(0.7, 1.5), t.Taper, Pm, 1)
			if err1 != nil {
				c18Inconcl(c, fmt.Sprintf("Screw3D %s: %v", en.Name, err1))
				return
			}
			mc := &c18MateCase{Kind: "mate-tcyl", Name: en.Name, Bi: bi, Ni: ni, Fb: fb, Fn: fn, P: Pm, Desc: map[string]any{"kind": "threaded-cylinder-mm", "name": en.Name, "height": H, "bolt_tol_mm": tb * f, "nut_tol_mm": tn * f}}
			inB, inN, closest := 0, 0, math.Inf(1)
			for i := 0; i < nPts/2; i++ {
				p, _, _ := c18Band(r, Rm, Pm, 1, k, -H/2-0.4*Pm, H/2+0.4*Pm, math.Max(tb, tn)*f)
				if i%5 == 4 {
					p = c18Vol(r, Rm+Pm, -H/2-0.4*Pm, H/2+0.4*Pm)
				}
				c18Overlap(c, mc, p, ext.Evaluate(p), tc.Evaluate(p), &inB, &inN, &closest)
			}
			if inB > 0 && inN > 0 {
				c.Distinct(fmt.Sprintf("tcyl/%s/b%d_n%d", en.Name, bi, ni))
				c.Count("mate_tcyl_cases_nontrivial", 1)
			}
			noteClosest("tcyl", bi, ni, closest/Pm)
			c.Eval(mc.Evals)
		}
	})
	for k, v := range closeByClass {
		c.Obs(k, v)
	}
	c.MaxObs("mate_worst_overlap_depth_over_pitch", 0)
}

func checkC18(c *Ctx) {
	c.Rule("(a) every designation of the independent table (ISO coarse/fine from the name, UNC/UNF per ASME B1.1, NPT per ASME B1.20.1) looked up " +
		"with ThreadLookup + ToMillimetre laws, plus a probe of ~10^4 candidate spellings for entries outside the table; distinct = table/<name>. " +
		"(b) untapered Screw3D over {ISO ext/int, Acme, ANSI buttress, plastic buttress} x starts +-1..4 x random radius/pitch, points with rho in " +
		"[0.5r,1.3r] (60% within a pitch of the crest) and |z| at least 2.5 pitch inside the ends, phi in {k*pi/2, tiny, random up to 1.5 turns}; " +
		"distinct = sym/<profile>/<starts>, counted only if the opposite-handed motion changes f by > 1e-3 pitch somewhere and 5..95% of the points are inside. " +
		"(c) every entry x bolt tolerance {0,0.02P,0.2P,random in [1e-4P,1P]} x nut tolerance (same classes): bare Screw3D pairs (starts 1 and others), obj.Bolt vs obj.Nut " +
		"moved by the helical motion (tapered: only towards the thin end), obj.ThreadedCylinderParms (mm) vs mm external thread; points concentrated on " +
		"flanks/crests/roots; distinct = mate|obj|tcyl/<name>/<tolerance pair>, counted only if some points were inside the bolt thread and some inside the nut material. " +
		"Violation: max(bolt(p), nutMaterial(p)) < -1e-9*pitch; invariance tolerance 1e-9*(radius+length).")
	c.Assume("the thread database can only be enumerated through ThreadLookup(name): entries whose spelling is neither in the harness table nor among the probed candidates are invisible")
	c.Assume("a nut that is too loose is not a violation of the statement (only intersection is); HexFlat2Flat values are not checked against a standard")
	c.Assume("tapered (NPT) pairs are only required to be interference-free at the aligned position and with the nut displaced towards the thin end")

	if err := c18SelfTest(c); err != nil {
		c.Inconclusive("self-test: " + err.Error())
		return
	}
	entries := c18CheckTable(c)
	if len(entries) == 0 {
		c.Inconclusive("no database entry resolved")
		return
	}
	c.Obs("database_entries_resolved", len(entries))
	c18CheckSymmetry(c)
	c18CheckMating(c, entries)
	// history: building screws, nuts, bolts and threaded cylinders (with tolerances) must leave the database as it was
	for _, e := range entries {
		t, err := sdf.ThreadLookup(e.Name)
		c.Eval(1)
		if err != nil || t == nil {
			c.Violate("", fmt.Sprintf("table-changed designation %q no longer resolves after the objects were built: %v", e.Name, err), map[string]any{"name": e.Name})
			continue
		}
		if *t != e.T {
			c.Violate("", fmt.Sprintf("table-changed designation %q: database entry is %+v after the objects were built, was %+v", e.Name, *t, e.T), map[string]any{"name": e.Name, "before": e.T, "after": *t})
		}
	}
	c.Count("table_entries_rechecked_after_object_construction", int64(len(entries)))
	e0 := entries[len(entries)/3]
	for _, e := range entries {
		if e.Name == "npt_1/2" {
			e0 = e
		}
	}
	c.Sample(map[string]any{"kind": "entry", "name": e0.Name, "database": e0.T, "to_mm": *e0.T.ToMillimetre()})
	c.Floor(3000)
}
