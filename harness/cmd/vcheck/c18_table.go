//go:build verif

// C18 - independent thread designation table (typed from the designations and
// from ASME B1.1 / ASME B1.20.1 / ISO 261, NOT copied from sdf/screw.go; only
// the NAMES were learnt from the library).
package main

import (
	"fmt"
	"math"
	"strconv"
	"strings"
)

// c18Row is the expectation for one designation, in the entry's native unit.
type c18Row struct {
	Name   string
	Dia    float64 // major (outside) diameter
	Pitch  float64 // thread to thread distance
	Units  string  // "mm" | "inch"
	Taper  float64 // radians (0 for straight threads)
	Family string  // iso-coarse, iso-fine, unc, unf, npt
}

var c18NPTTaper = math.Atan(1.0 / 32.0) // 1:16 on diameter = 1:32 half-angle

// ISO 261 coarse pitch per nominal diameter (mm) - used to cross-check that a
// name listed as "coarse" really carries the coarse pitch.
var c18ISOCoarse = map[string]float64{
	"1": 0.25, "1.2": 0.25, "1.6": 0.35, "2": 0.4, "2.5": 0.45, "3": 0.5, "4": 0.7, "5": 0.8, "6": 1,
	"8": 1.25, "10": 1.5, "12": 1.75, "16": 2, "20": 2.5, "24": 3, "30": 3.5, "36": 4, "42": 4.5,
	"48": 5, "56": 5.5, "64": 6,
}

var c18MetricNames = map[string][]string{
	"iso-coarse": {"M1x0.25", "M1.2x0.25", "M1.6x0.35", "M2x0.4", "M2.5x0.45", "M3x0.5", "M4x0.7", "M5x0.8", "M6x1",
		"M8x1.25", "M10x1.5", "M12x1.75", "M16x2", "M20x2.5", "M24x3", "M30x3.5", "M36x4", "M42x4.5", "M48x5", "M56x5.5", "M64x6"},
	"iso-fine": {"M1x0.2", "M1.2x0.2", "M1.6x0.2", "M2x0.25", "M2.5x0.35", "M3x0.35", "M4x0.5", "M5x0.5", "M6x0.75",
		"M8x1", "M10x1.25", "M12x1.5", "M16x1.5", "M20x2", "M24x2", "M30x2", "M36x3", "M42x3", "M48x3", "M56x4", "M64x4"},
}

// ASME B1.1 unified threads: size -> threads per inch.
// Numbered sizes: major diameter = 0.060 + 0.013*N inch.
var c18UNC = [][2]string{{"4", "40"}, {"6", "32"}, {"8", "32"}, {"10", "24"},
	{"1/4", "20"}, {"5/16", "18"}, {"3/8", "16"}, {"7/16", "14"}, {"1/2", "13"}, {"9/16", "12"}, {"5/8", "11"},
	{"3/4", "10"}, {"7/8", "9"}, {"1", "8"}}
var c18UNF = [][2]string{{"4", "48"}, {"6", "40"}, {"8", "36"}, {"10", "32"},
	{"1/4", "28"}, {"5/16", "24"}, {"3/8", "24"}, {"7/16", "20"}, {"1/2", "20"}, {"9/16", "18"}, {"5/8", "18"},
	{"3/4", "16"}, {"7/8", "14"}, {"1", "12"}}

// standard numbered sizes (c = UNC, f = UNF) "<series><N>-<TPI>", used only to interpret extra entries
var c18NumberedTPI = map[string]bool{"c1-64": true, "c2-56": true, "c3-48": true, "c4-40": true, "c5-40": true, "c6-32": true, "c8-32": true,
	"c10-24": true, "c12-24": true, "f0-80": true, "f1-72": true, "f2-64": true, "f3-56": true, "f4-48": true, "f5-44": true, "f6-40": true,
	"f8-36": true, "f10-32": true, "f12-28": true}

// ASME B1.20.1 NPT: nominal size -> outside diameter (inch), threads per inch.
var c18NPT = []struct {
	Size string
	OD   float64
	TPI  float64
}{{"1/8", 0.405, 27}, {"1/4", 0.540, 18}, {"3/8", 0.675, 18}, {"1/2", 0.840, 14}, {"3/4", 1.050, 14},
	{"1", 1.315, 11.5}, {"1_1/4", 1.660, 11.5}, {"1_1/2", 1.900, 11.5}, {"2", 2.375, 11.5},
	{"2_1/2", 2.875, 8}, {"3", 3.500, 8}, {"4", 4.500, 8}}

// c18ParseMetric parses "M<d>x<P>".
func c18ParseMetric(name string) (d, p float64, ok bool) {
	if !strings.HasPrefix(name, "M") {
		return 0, 0, false
	}
	parts := strings.Split(name[1:], "x")
	if len(parts) != 2 {
		return 0, 0, false
	}
	d, e1 := strconv.ParseFloat(parts[0], 64)
	p, e2 := strconv.ParseFloat(parts[1], 64)
	return d, p, e1 == nil && e2 == nil && d > 0 && p > 0
}

// c18ParseInchSize parses "1/4", "1", "1_1/4" (whole_num/den) into inches.
func c18ParseInchSize(s string) (float64, bool) {
	whole, frac := 0.0, s
	if i := strings.IndexByte(s, '_'); i >= 0 {
		w, err := strconv.ParseFloat(s[:i], 64)
		if err != nil {
			return 0, false
		}
		whole, frac = w, s[i+1:]
	}
	if i := strings.IndexByte(frac, '/'); i >= 0 {
		n, e1 := strconv.ParseFloat(frac[:i], 64)
		d, e2 := strconv.ParseFloat(frac[i+1:], 64)
		if e1 != nil || e2 != nil || d == 0 {
			return 0, false
		}
		return whole + n/d, true
	}
	v, err := strconv.ParseFloat(frac, 64)
	return whole + v, err == nil
}

// c18Table builds the expectation table. The returned error reports an
// inconsistency inside the harness's own table (self-test, exit 2).
func c18Table() ([]c18Row, error) {
	var rows []c18Row
	for _, fam := range []string{"iso-coarse", "iso-fine"} {
		for _, n := range c18MetricNames[fam] {
			d, p, ok := c18ParseMetric(n)
			if !ok {
				return nil, fmt.Errorf("table: cannot parse %q", n)
			}
			ds := n[1:strings.IndexByte(n, 'x')]
			cp, known := c18ISOCoarse[ds]
			if !known {
				return nil, fmt.Errorf("table: %q has no ISO 261 coarse pitch", n)
			}
			if fam == "iso-coarse" && p != cp {
				return nil, fmt.Errorf("table: %q is not the ISO 261 coarse pitch %g", n, cp)
			}
			if fam == "iso-fine" && p >= cp {
				return nil, fmt.Errorf("table: fine %q not finer than coarse %g", n, cp)
			}
			rows = append(rows, c18Row{n, d, p, "mm", 0, fam})
		}
	}
	uts := func(fam string, list [][2]string) error {
		for _, e := range list {
			size, tpiS := e[0], e[1]
			tpi, _ := strconv.ParseFloat(tpiS, 64)
			var dia float64
			name := fam + "_" + size
			if !strings.Contains(size, "/") && size != "1" {
				// numbered size #N: the designation carries the TPI as well
				n, _ := strconv.ParseFloat(size, 64)
				dia = 0.060 + 0.013*n
				name = fam + "_" + size + "_" + tpiS
			} else {
				var ok bool
				if dia, ok = c18ParseInchSize(size); !ok {
					return fmt.Errorf("table: bad size %q", size)
				}
			}
			rows = append(rows, c18Row{name, dia, 1 / tpi, "inch", 0, fam})
		}
		return nil
	}
	if err := uts("unc", c18UNC); err != nil {
		return nil, err
	}
	if err := uts("unf", c18UNF); err != nil {
		return nil, err
	}
	for i, e := range c18NPT {
		nom, ok := c18ParseInchSize(e.Size)
		// pipe OD is always larger than the nominal size and increases with it
		if !ok || e.OD <= nom || (i > 0 && (e.OD <= c18NPT[i-1].OD || e.TPI > c18NPT[i-1].TPI)) {
			return nil, fmt.Errorf("table: NPT row %v implausible", e)
		}
		rows = append(rows, c18Row{"npt_" + e.Size, e.OD, 1 / e.TPI, "inch", c18NPTTaper, "npt"})
	}
	// self-consistency: unique names; fine finer than coarse for the same size
	seen := map[string]bool{}
	for _, r := range rows {
		if seen[r.Name] {
			return nil, fmt.Errorf("table: duplicate %q", r.Name)
		}
		seen[r.Name] = true
	}
	for i := range c18UNC {
		tc, _ := strconv.ParseFloat(c18UNC[i][1], 64)
		tf, _ := strconv.ParseFloat(c18UNF[i][1], 64)
		if c18UNC[i][0] != c18UNF[i][0] || tf <= tc {
			return nil, fmt.Errorf("table: UNC/UNF rows %d inconsistent", i)
		}
	}
	// spot values against a dumber spelling of the standard
	spot := map[string][2]float64{"unc_10_24": {0.190, 24}, "unf_4_48": {0.112, 48}, "unc_1/4": {0.25, 20}, "unf_1": {1, 12},
		"npt_1_1/4": {1.66, 11.5}, "M2.5x0.45": {2.5, 1 / 0.45}, "unc_6_32": {0.138, 32}, "unf_8_36": {0.164, 36}}
	for _, r := range rows {
		if s, ok := spot[r.Name]; ok {
			if math.Abs(r.Dia-s[0]) > 1e-12 || math.Abs(1/r.Pitch-s[1]) > 1e-9 {
				return nil, fmt.Errorf("table: spot check %q failed (%g, %g)", r.Name, r.Dia, 1/r.Pitch)
			}
			delete(spot, r.Name)
		}
	}
	if len(spot) != 0 {
		return nil, fmt.Errorf("table: spot names missing %v", spot)
	}
	return rows, nil
}

// c18CandidateNames generates plausible designation spellings used to probe
// the (private) database for entries that are NOT in the harness table.
func c18CandidateNames() []string {
	var out []string
	ds := []float64{1, 1.1, 1.2, 1.4, 1.6, 1.8, 2, 2.2, 2.5, 3, 3.5, 4, 4.5, 5, 5.5, 6, 7, 8, 9, 10, 11, 12, 14, 15, 16, 17, 18, 20, 22, 24, 25,
		26, 27, 28, 30, 32, 33, 35, 36, 38, 39, 40, 42, 45, 48, 50, 52, 55, 56, 58, 60, 62, 64, 65, 68, 70, 72, 75, 76, 80, 85, 90, 95, 100}
	ps := []float64{0.2, 0.25, 0.3, 0.35, 0.4, 0.45, 0.5, 0.6, 0.7, 0.75, 0.8, 1, 1.25, 1.5, 1.75, 2, 2.5, 3, 3.5, 4, 4.5, 5, 5.5, 6, 8}
	g := func(v float64) string { return strconv.FormatFloat(v, 'g', -1, 64) }
	for _, d := range ds {
		for _, p := range ps {
			out = append(out, "M"+g(d)+"x"+g(p), "m"+g(d)+"x"+g(p), "M"+g(d)+"X"+g(p))
		}
		out = append(out, "M"+g(d))
	}
	var sizes []string
	for w := 0; w <= 6; w++ {
		if w > 0 {
			sizes = append(sizes, strconv.Itoa(w))
		}
		for _, den := range []int{2, 4, 8, 16, 32} {
			for num := 1; num < den; num += 2 {
				f := fmt.Sprintf("%d/%d", num, den)
				if w == 0 {
					sizes = append(sizes, f)
				} else {
					sizes = append(sizes, fmt.Sprintf("%d_%s", w, f), fmt.Sprintf("%d-%s", w, f), fmt.Sprintf("%d %s", w, f))
				}
			}
		}
	}
	tpis := []string{"80", "72", "64", "56", "48", "44", "40", "36", "32", "28", "27", "24", "20", "18", "16", "14", "13", "12", "11.5", "11", "10", "9", "8", "7", "6", "5", "4.5", "4"}
	for _, pre := range []string{"unc", "unf", "unef", "un", "uns", "npt", "nptf", "nps", "bsp", "bspt", "bsw", "acme"} {
		for _, s := range sizes {
			out = append(out, pre+"_"+s)
			if !strings.HasPrefix(pre, "np") && !strings.HasPrefix(pre, "bs") {
				for _, t := range tpis {
					out = append(out, pre+"_"+s+"_"+t)
				}
			}
		}
		for n := 0; n <= 14; n++ {
			out = append(out, fmt.Sprintf("%s_%d", pre, n), fmt.Sprintf("%s_#%d", pre, n))
			for _, t := range tpis {
				out = append(out, fmt.Sprintf("%s_%d_%s", pre, n, t), fmt.Sprintf("%s_#%d_%s", pre, n, t))
			}
		}
	}
	return out
}
