//go:build verif

// C03 - exact primitives are Euclidean; compositions never overestimate distance.
package main

import (
	"fmt"
	"math"
	"strings"

	"github.com/deadsy/sdfx/sdf"
	v2 "github.com/deadsy/sdfx/vec/v2"
	v3 "github.com/deadsy/sdfx/vec/v3"
)

func init() { checks["C03"] = checkC03 }

//-----------------------------------------------------------------------------
// independent distance oracles

// oBox returns the signed distance to an axis-aligned box with half sizes h (any dimension).
func oBox(p, h []float64) float64 {
	out2, in := 0.0, math.Inf(-1)
	for i := range p {
		d := math.Abs(p[i]) - h[i]
		if d > 0 {
			out2 += d * d
		}
		in = math.Max(in, d)
	}
	if out2 > 0 {
		return math.Sqrt(out2)
	}
	return in
}

// oPoly returns the signed distance to a simple polygon (brute force: min segment distance, crossing number).
func oPoly(vs []v2.Vec, p v2.Vec) float64 {
	d := math.Inf(1)
	in := false
	n := len(vs)
	for i := 0; i < n; i++ {
		a, b := vs[i], vs[(i+1)%n]
		d = math.Min(d, pointSegDist2(p, a, b))
		if (a.Y > p.Y) != (b.Y > p.Y) {
			if x := a.X + (p.Y-a.Y)/(b.Y-a.Y)*(b.X-a.X); p.X < x {
				in = !in
			}
		}
	}
	if in {
		return -d
	}
	return d
}

// coneProfile returns the inset trapezoid (in rho,z; mirrored to a full polygon) of a rounded truncated cone.
func coneProfile(h, r0, r1, round float64) ([]v2.Vec, bool) {
	A, B := v2.Vec{X: r0, Y: -h / 2}, v2.Vec{X: r1, Y: h / 2}
	u := B.Sub(A).Normalize()
	n := v2.Vec{X: u.Y, Y: -u.X} // outward normal of the slope
	if n.X <= 0 {
		return nil, false
	}
	// offset the three lines inward by round and intersect
	zb, zt := -h/2+round, h/2-round
	rho := func(z float64) float64 { // n.(x - A) = -round
		return A.X + (-round-n.Y*(z-A.Y))/n.X
	}
	rb, rt := rho(zb), rho(zt)
	if rb < 0 || rt < 0 || zt < zb {
		return nil, false
	}
	return []v2.Vec{{X: -rb, Y: zb}, {X: rb, Y: zb}, {X: rt, Y: zt}, {X: -rt, Y: zt}}, true
}

type exactCase struct {
	dim    int
	s3     sdf.SDF3
	s2     sdf.SDF2
	o3     func(p v3.Vec) float64
	o2     func(p v2.Vec) float64
	desc   string
	kind   string
	scale  float64
	region func(p []float64) string // coarse branch-region classifier (for coverage accounting)
}

func signClass(p, h []float64) string {
	s := ""
	for i := range p {
		switch {
		case math.Abs(p[i]) > h[i]:
			s += "o"
		default:
			s += "i"
		}
	}
	return s
}

func drawRound(r *Rng, max float64) float64 {
	switch r.I(5) {
	case 0:
		return 0
	case 1:
		return max // the admissible maximum
	case 2:
		return max * 1e-6
	case 3:
		return max * (1 - 1e-9)
	}
	return max * r.F()
}

// aspect draws sizes incl. needle / plate / near-degenerate ones.
func aspect(r *Rng, scale float64) float64 {
	switch r.I(6) {
	case 0:
		return scale * 1e-3
	case 1:
		return scale * 30
	}
	return scale * r.R(0.2, 2)
}

func makeExact(r *Rng, which int) *exactCase {
	scale := r.LogR(1e-3, 1e3)
	e := &exactCase{scale: scale}
	switch which % 10 {
	case 0:
		rad := aspect(r, scale)
		e.dim, e.kind = 3, "sphere"
		e.s3, _ = sdf.Sphere3D(rad)
		e.o3 = func(p v3.Vec) float64 { return math.Sqrt(p.X*p.X+p.Y*p.Y+p.Z*p.Z) - rad }
		e.desc = fmt.Sprintf("Sphere3D(%.6g)", rad)
		e.region = func(p []float64) string { return "r" }
		e.scale = rad
	case 1:
		sz := v3.Vec{X: aspect(r, scale), Y: aspect(r, scale), Z: aspect(r, scale)}
		rd := drawRound(r, 0.5*sz.MinComponent())
		e.dim, e.kind = 3, "box3"
		e.s3, _ = sdf.Box3D(sz, rd)
		h := []float64{sz.X/2 - rd, sz.Y/2 - rd, sz.Z/2 - rd}
		e.o3 = func(p v3.Vec) float64 { return oBox([]float64{p.X, p.Y, p.Z}, h) - rd }
		e.desc = fmt.Sprintf("Box3D(%.6g,%.6g,%.6g;round=%.6g)", sz.X, sz.Y, sz.Z, rd)
		e.region = func(p []float64) string { return signClass(p, h) }
		e.scale = sz.MaxComponent()
	case 2, 3:
		h, rad := aspect(r, scale), aspect(r, scale)
		rd := drawRound(r, math.Min(rad, h/2))
		e.dim, e.kind = 3, "cylinder"
		if which%10 == 3 { // capsule
			h = 2*rad + math.Abs(aspect(r, scale))*r.F()
			rd = rad
			e.s3, _ = sdf.Capsule3D(h, rad)
			e.kind = "capsule"
		} else {
			e.s3, _ = sdf.Cylinder3D(h, rad, rd)
		}
		hh := []float64{rad - rd, h/2 - rd}
		e.o3 = func(p v3.Vec) float64 { return oBox([]float64{math.Hypot(p.X, p.Y), p.Z}, hh) - rd }
		e.desc = fmt.Sprintf("%s(h=%.6g,r=%.6g,round=%.6g)", e.kind, h, rad, rd)
		e.region = func(p []float64) string { return signClass([]float64{math.Hypot(p[0], p[1]), p[2]}, hh) }
		e.scale = math.Max(h, rad)
	case 4, 5:
		h, r0, r1 := aspect(r, scale), aspect(r, scale), aspect(r, scale)
		if r.P(0.2) {
			r1 = r0 // cylinder-like cone
		}
		if r.P(0.15) {
			r1 = 0 // sharp tip
		}
		// admissible rounding: the inset radii must stay >= 0
		rdMax := h / 2
		lo, hi := 0.0, rdMax
		for k := 0; k < 60; k++ {
			mid := (lo + hi) / 2
			if _, ok := coneProfile(h, r0, r1, mid); ok {
				lo = mid
			} else {
				hi = mid
			}
		}
		rd := drawRound(r, lo*(1-1e-9))
		poly, ok := coneProfile(h, r0, r1, rd)
		if !ok {
			return makeExact(r, which+1)
		}
		e.dim, e.kind = 3, "cone"
		var err error
		e.s3, err = sdf.Cone3D(h, r0, r1, rd)
		if err != nil {
			return makeExact(r, which+1)
		}
		e.o3 = func(p v3.Vec) float64 { return oPoly(poly, v2.Vec{X: math.Hypot(p.X, p.Y), Y: p.Z}) - rd }
		e.desc = fmt.Sprintf("Cone3D(h=%.6g,r0=%.6g,r1=%.6g,round=%.6g)", h, r0, r1, rd)
		e.region = func(p []float64) string { // nearest feature of the profile
			q := v2.Vec{X: math.Hypot(p[0], p[1]), Y: p[2]}
			best, bi := math.Inf(1), 0
			for i := 0; i < 4; i++ {
				a, b := poly[i], poly[(i+1)%4]
				ab := b.Sub(a)
				t := q.Sub(a).Dot(ab) / ab.Length2()
				feat := i * 3
				if t <= 0 {
					feat = i*3 + 1
				} else if t >= 1 {
					feat = i*3 + 2
				}
				if d := pointSegDist2(q, a, b); d < best {
					best, bi = d, feat
				}
			}
			in := "o"
			if oPoly(poly, q) < 0 {
				in = "i"
			}
			return fmt.Sprintf("%s%d", in, bi)
		}
		e.scale = math.Max(h, math.Max(r0, r1))
	case 6:
		rad := aspect(r, scale)
		e.dim, e.kind = 2, "circle"
		e.s2, _ = sdf.Circle2D(rad)
		e.o2 = func(p v2.Vec) float64 { return math.Hypot(p.X, p.Y) - rad }
		e.desc = fmt.Sprintf("Circle2D(%.6g)", rad)
		e.region = func(p []float64) string { return "r" }
		e.scale = rad
	case 7:
		sz := v2.Vec{X: aspect(r, scale), Y: aspect(r, scale)}
		rd := drawRound(r, 0.5*math.Min(sz.X, sz.Y))
		e.dim, e.kind = 2, "box2"
		e.s2 = sdf.Box2D(sz, rd)
		h := []float64{sz.X/2 - rd, sz.Y/2 - rd}
		e.o2 = func(p v2.Vec) float64 { return oBox([]float64{p.X, p.Y}, h) - rd }
		e.desc = fmt.Sprintf("Box2D(%.6g,%.6g;round=%.6g)", sz.X, sz.Y, rd)
		e.region = func(p []float64) string {
			s := signClass(p, h)
			if s == "ii" { // inside: which side is nearest (the medial axis splits the interior)
				if h[0]-math.Abs(p[0]) < h[1]-math.Abs(p[1]) {
					return "ii-x"
				}
				return "ii-y"
			}
			return s
		}
		e.scale = math.Max(sz.X, sz.Y)
	case 8:
		l, rd := aspect(r, scale), aspect(r, scale)*r.F()
		e.dim, e.kind = 2, "line2"
		e.s2 = sdf.Line2D(l, rd)
		a, b := v2.Vec{X: -l / 2}, v2.Vec{X: l / 2}
		e.o2 = func(p v2.Vec) float64 { return pointSegDist2(p, a, b) - rd }
		e.desc = fmt.Sprintf("Line2D(%.6g,%.6g)", l, rd)
		e.region = func(p []float64) string {
			if math.Abs(p[0]) <= l/2 {
				return "mid"
			}
			return "cap"
		}
		e.scale = l + rd
	default:
		k := r.IR(3, 12)
		vs := make([]v2.Vec, k)
		for i := range vs {
			a := 2 * math.Pi * (float64(i) + r.R(0.1, 0.9)) / float64(k)
			rad := scale * r.R(0.3, 1)
			vs[i] = v2.Vec{X: rad * math.Cos(a), Y: rad * math.Sin(a)}
		}
		s, err := sdf.Polygon2D(vs)
		if err != nil {
			return makeExact(r, which+1)
		}
		e.dim, e.kind, e.s2 = 2, "polygon", s
		e.o2 = func(p v2.Vec) float64 { return oPoly(vs, p) }
		e.desc = fmt.Sprintf("Polygon2D(%v)", vs)
		e.region = func(p []float64) string {
			if oPoly(vs, v2.Vec{X: p[0], Y: p[1]}) < 0 {
				return "in"
			}
			return "out"
		}
	}
	return e
}

// wrapExact applies a distance-preserving operator with an independently pulled-back oracle.
func wrapExact(r *Rng, e *exactCase) *exactCase {
	w := *e
	switch r.I(5) {
	case 0:
		return e
	case 1: // rigid transform
		if e.dim == 3 {
			m, d := rigid3(r, e.scale)
			inv := inv4(m)
			w.s3 = sdf.Transform3D(e.s3, m)
			w.o3 = func(p v3.Vec) float64 { return e.o3(inv.mulPos(p)) }
			w.desc = "Transform3D[" + d + "](" + e.desc + ")"
			w.region = func(p []float64) string {
				q := inv.mulPos(v3.Vec{X: p[0], Y: p[1], Z: p[2]})
				return e.region([]float64{q.X, q.Y, q.Z})
			}
		} else {
			m, d := rigid2(r, e.scale)
			inv := inv3(m)
			w.s2 = sdf.Transform2D(e.s2, m)
			w.o2 = func(p v2.Vec) float64 { return e.o2(inv.mulPos(p)) }
			w.desc = "Transform2D[" + d + "](" + e.desc + ")"
			w.region = func(p []float64) string {
				q := inv.mulPos(v2.Vec{X: p[0], Y: p[1]})
				return e.region([]float64{q.X, q.Y})
			}
		}
	case 2: // uniform scale
		k := r.LogR(0.2, 5)
		if e.dim == 3 {
			w.s3 = sdf.ScaleUniform3D(e.s3, k)
			w.o3 = func(p v3.Vec) float64 { return k * e.o3(p.DivScalar(k)) }
		} else {
			w.s2 = sdf.ScaleUniform2D(e.s2, k)
			w.o2 = func(p v2.Vec) float64 { return k * e.o2(p.DivScalar(k)) }
		}
		w.scale = e.scale * k
		w.desc = fmt.Sprintf("ScaleUniform[%.4g](%s)", k, e.desc)
		w.region = func(p []float64) string {
			q := make([]float64, len(p))
			for i := range p {
				q[i] = p[i] / k
			}
			return e.region(q)
		}
	case 3: // outward offset of a convex primitive
		if e.kind == "polygon" {
			return e
		}
		off := e.scale * r.R(0.01, 0.5)
		if e.dim == 3 {
			w.s3 = sdf.Offset3D(e.s3, off)
			w.o3 = func(p v3.Vec) float64 { return e.o3(p) - off }
		} else {
			w.s2 = sdf.Offset2D(e.s2, off)
			w.o2 = func(p v2.Vec) float64 { return e.o2(p) - off }
		}
		w.desc = fmt.Sprintf("Offset[%.4g](%s)", off, e.desc)
	default: // full revolution of a 2D profile lying on one side of the axis
		if e.dim != 2 {
			return e
		}
		bb := e.s2.BoundingBox()
		t := v2.Vec{X: -bb.Min.X + e.scale*r.LogR(1e-3, 3), Y: e.scale * r.R(-1, 1)}
		prof := sdf.Transform2D(e.s2, sdf.Translate2d(t))
		s, err := sdf.Revolve3D(prof)
		if err != nil || s == nil {
			return e
		}
		w.dim, w.s3, w.s2, w.o2 = 3, s, nil, nil
		w.o3 = func(p v3.Vec) float64 { return e.o2(v2.Vec{X: math.Hypot(p.X, p.Y) - t.X, Y: p.Z - t.Y}) }
		w.desc = fmt.Sprintf("Revolve3D(T(%.4g,%.4g) %s)", t.X, t.Y, e.desc)
		w.region = func(p []float64) string { return e.region([]float64{math.Hypot(p[0], p[1]) - t.X, p[2] - t.Y}) }
		w.scale = e.scale + t.X
	}
	return &w
}

func exactPoint(r *Rng, e *exactCase) []float64 {
	var lo, hi []float64
	if e.dim == 3 {
		bb := e.s3.BoundingBox()
		lo, hi = []float64{bb.Min.X, bb.Min.Y, bb.Min.Z}, []float64{bb.Max.X, bb.Max.Y, bb.Max.Z}
	} else {
		bb := e.s2.BoundingBox()
		lo, hi = []float64{bb.Min.X, bb.Min.Y}, []float64{bb.Max.X, bb.Max.Y}
	}
	p := make([]float64, e.dim)
	L := 0.0
	for i := range p {
		L += (hi[i] - lo[i]) * (hi[i] - lo[i])
	}
	L = math.Sqrt(L)
	mode := r.I(8)
	for i := range p {
		c, s := 0.5*(lo[i]+hi[i]), hi[i]-lo[i]
		switch mode {
		case 0, 1: // inside the box
			p[i] = lo[i] + r.F()*s
		case 2: // around
			p[i] = c + r.R(-1.5, 1.5)*s
		case 3: // per-axis pick: below / on face plane / centre / above (hits every sign class and the medial planes)
			p[i] = pickOne(r, []float64{lo[i] - r.F()*s, lo[i], c, hi[i], hi[i] + r.F()*s, c + 0.25*s, lo[i] + r.F()*s})
		case 4: // on a coordinate axis / plane through the origin (rotation axis, symmetry planes)
			p[i] = pickOne(r, []float64{0, 0, c + r.R(-1, 1)*s})
		case 5: // far field
			p[i] = r.N() * L * 1e3
		case 6: // diagonal |x|=|y| (medial axis of boxes)
			p[i] = (lo[0] + r.F()*(hi[0]-lo[0])) * pickOne(r, []float64{1, -1})
			if i > 0 {
				p[i] = math.Abs(p[0]) * pickOne(r, []float64{1, -1})
			}
		default: // Gaussian around the box centre
			p[i] = c + r.N()*0.5*L
		}
	}
	return p
}

//-----------------------------------------------------------------------------

func checkC03(c *Ctx) {
	c.Rule("(a) each exact primitive (sphere, (rounded) box, (rounded) cylinder, capsule, (rounded) truncated cone incl. sharp tips, circle, " +
		"(rounded) 2D box, 2D line, star polygons) x parameter vectors incl. needle/plate sizes and rounding radii 0, tiny, up to the admissible " +
		"maximum, optionally wrapped by rigid transform / uniform scale / outward offset / full revolution of a one-sided profile, compared " +
		"with an independent closed-form or brute-force distance at points stratified over the branch regions, medial planes, the axis and the " +
		"far field; (b) 1-Lipschitz trees (incl. polynomial blends; rotate-copy over mirror-symmetric operands) x point pairs, half of them " +
		"close pairs across seams, plus the direct never-overestimate test (no sign change inside the ball of radius |f(p)|). " +
		"Non-trivial = parameter vector whose points hit >= 3 branch regions / tree with >= 2 operators; distinct = description.")
	c.Assume("offset preservation is checked for outward offsets of convex primitives (the only case where f-r is the Euclidean distance of the offset body); cone rounding up to the largest radius that keeps both inset radii >= 0")
	nExact := c.Pick(6000, 80000)
	nPts := c.Pick(400, 1500)
	regionsSeen := map[string]map[string]bool{}
	parallelFor(nExact, func(i int) {
		r := c.Rng("exact", i)
		e := makeExact(r, i)
		base := e
		e = wrapExact(r, e)
		regs := map[string]bool{}
		worst := 0.0
		bad := 0
		for q := 0; q < nPts; q++ {
			p := exactPoint(r, e)
			var got, want, pl float64
			if e.dim == 3 {
				v := v3.Vec{X: p[0], Y: p[1], Z: p[2]}
				got, want, pl = e.s3.Evaluate(v), e.o3(v), v.Length()
			} else {
				v := v2.Vec{X: p[0], Y: p[1]}
				got, want, pl = e.s2.Evaluate(v), e.o2(v), v.Length()
			}
			regs[e.region(p)] = true
			tol := 1e-9 * (e.scale + pl)
			if e.scale < 0.14 && strings.Contains(e.desc, "Polygon2D") {
				// fine-detail polygons: the quadtree snaps clipped end points onto its box edges within the package tolerance
				// of 1e-9 (absolute), which is no longer negligible against a part of a few hundredths (see C04)
				tol += 1e-9
			}
			d := math.Abs(got - want)
			if d/(e.scale+pl) > worst {
				worst = d / (e.scale + pl)
			}
			if !(d <= tol) {
				bad++
				if bad == 1 {
					c.Violate("", fmt.Sprintf("not-euclidean %s at p=%v (region %s): Evaluate=%.17g, Euclidean distance=%.17g", e.desc, p, e.region(p), got, want),
						map[string]any{"shape": e.desc, "p": p, "got": got, "want": want, "case_index": i})
				}
			}
		}
		c.Eval(nPts)
		c.MaxObs("exact_worst_relative_error", worst)
		c.mu.Lock()
		if regionsSeen[base.kind] == nil {
			regionsSeen[base.kind] = map[string]bool{}
		}
		for k := range regs {
			regionsSeen[base.kind][k] = true
		}
		c.mu.Unlock()
		if len(regs) >= 3 || base.kind == "sphere" || base.kind == "circle" || base.kind == "line2" || base.kind == "polygon" {
			c.Distinct(e.desc)
		}
		if i < 3 {
			c.Sample(map[string]any{"shape": e.desc, "points": nPts, "branch_regions_hit": len(regs)})
		}
	})
	rc := map[string]int{}
	for k, v := range regionsSeen {
		rc[k] = len(v)
	}
	c.Obs("branch_regions_hit_per_primitive", rc)

	// (b) Lipschitz / never-overestimate on compositions
	nTrees := c.Pick(4000, 40000)
	nPairs := c.Pick(1500, 4000)
	maxDepth := c.Pick(3, 5)
	parallelFor(nTrees, func(i int) {
		r := c.Rng("lip", i)
		scale := r.LogR(0.05, 100)
		var n *node
		if i%3 == 2 {
			n = gen2(r, r.IR(1, maxDepth), scale, genOpts{lip1Only: true})
		} else {
			n = gen3(r, r.IR(1, maxDepth), scale, genOpts{lip1Only: true})
		}
		if n == nil || !n.lip1 {
			return
		}
		if w := lipschitzProbe(r, n, nPairs); w != nil {
			c.Violate("", fmt.Sprintf("overestimates %s: f(p)=%g at p=%v, f(q)=%g at q=%v, |p-q|=%g: %s", n.desc, w.fp, w.p, w.fq, w.q, w.dist, w.why),
				map[string]any{"tree": n.desc, "p": w.p, "q": w.q, "fp": w.fp, "fq": w.fq, "tree_index": i})
		}
		c.Eval(nPairs)
		if n.ops >= 2 {
			c.Distinct(n.desc)
		}
		if i < 2 {
			c.Sample(map[string]any{"lipschitz_tree": n.desc, "pairs": nPairs})
		}
	})
	c03Pinned(c)
	c.Floor(c.Pick(4000, 40000))
}

type lipWitness struct {
	p, q   []float64
	fp, fq float64
	dist   float64
	why    string
}

// lipschitzProbe looks for a pair violating |f(p)-f(q)| <= |p-q| or a sign change inside the ball of radius |f(p)|.
func lipschitzProbe(r *Rng, n *node, pairs int) *lipWitness {
	dim := n.dim
	var f func(p []float64) float64
	var lo, hi []float64
	if dim == 3 {
		bb := n.s3.BoundingBox()
		lo, hi = []float64{bb.Min.X, bb.Min.Y, bb.Min.Z}, []float64{bb.Max.X, bb.Max.Y, bb.Max.Z}
		f = func(p []float64) float64 { return n.s3.Evaluate(v3.Vec{X: p[0], Y: p[1], Z: p[2]}) }
	} else {
		bb := n.s2.BoundingBox()
		lo, hi = []float64{bb.Min.X, bb.Min.Y}, []float64{bb.Max.X, bb.Max.Y}
		f = func(p []float64) float64 { return n.s2.Evaluate(v2.Vec{X: p[0], Y: p[1]}) }
	}
	L := 0.0
	for i := range lo {
		L += (hi[i] - lo[i]) * (hi[i] - lo[i])
	}
	L = math.Sqrt(L)
	if L == 0 || math.IsNaN(L) || math.IsInf(L, 0) {
		return nil
	}
	var thetas []float64
	collectThetas(n, &thetas)
	p, q := make([]float64, dim), make([]float64, dim)
	for k := 0; k < pairs; k++ {
		if dim == 3 {
			v := samplePoint3(r, n.s3.BoundingBox(), thetas)
			p[0], p[1], p[2] = v.X, v.Y, v.Z
		} else {
			v := samplePoint2(r, n.s2.BoundingBox(), thetas)
			p[0], p[1] = v.X, v.Y
		}
		fp := f(p)
		var step float64
		mode := k % 4
		switch mode {
		case 0: // close pair (seams, sector boundaries, region borders are crossed by chance and by the hostile point classes)
			step = L * r.LogR(1e-6, 1e-3)
		case 1: // medium
			step = L * r.LogR(1e-3, 0.3)
		case 2: // anywhere
			step = L * r.R(0.3, 3)
		default: // inside the ball of radius |f(p)|: the sign must not change
			step = math.Abs(fp) * r.R(0, 1-1e-6)
		}
		l := 0.0
		for i := range q {
			q[i] = r.N()
			l += q[i] * q[i]
		}
		l = math.Sqrt(l)
		for i := range q {
			q[i] = p[i] + q[i]/l*step
		}
		fq := f(q)
		dist := 0.0
		for i := range q {
			dist += (q[i] - p[i]) * (q[i] - p[i])
		}
		dist = math.Sqrt(dist)
		pm := 0.0
		for i := range p {
			pm = math.Max(pm, math.Abs(p[i]))
		}
		slack := 1e-9*dist + 1e-12*(L+pm)
		if math.Abs(fp-fq) > dist+slack || math.IsNaN(fp) || math.IsNaN(fq) {
			return &lipWitness{append([]float64(nil), p...), append([]float64(nil), q...), fp, fq, dist,
				fmt.Sprintf("|f(p)-f(q)|=%g exceeds |p-q| (not 1-Lipschitz)", math.Abs(fp-fq))}
		}
		if mode == 3 && math.Abs(fp) > 1e-9*L && (fp < 0) != (fq < 0) && math.Abs(fq) > slack {
			return &lipWitness{append([]float64(nil), p...), append([]float64(nil), q...), fp, fq, dist,
				"the surface lies inside the ball of radius |f(p)| (distance overestimated)"}
		}
	}
	return nil
}

// c03Pinned: the known rotate-copy discontinuity (asymmetric operand) - identified by these exact inputs.
func c03Pinned(c *Ctx) {
	b3, _ := sdf.Box3D(v3.Vec{X: 1, Y: 1, Z: 1}, 0)
	s3 := sdf.RotateCopy3D(sdf.Transform3D(b3, sdf.Translate3d(v3.Vec{X: 2, Y: 0.7})), 5)
	a := math.Pi / 5
	p := v3.Vec{X: 2 * math.Cos(a-1e-6), Y: 2 * math.Sin(a-1e-6)}
	q := v3.Vec{X: 2 * math.Cos(a+1e-6), Y: 2 * math.Sin(a+1e-6)}
	fp, fq := s3.Evaluate(p), s3.Evaluate(q)
	c.Eval(1)
	if math.Abs(fp-fq) > p.Sub(q).Length()*(1+1e-9)+1e-12 {
		c.Violate("rotatecopy3d-asymmetric-operand", fmt.Sprintf("overestimates RotateCopy3D(Box3D(1,1,1) at (2,0.7,0), 5): f=%g and %g at two points %g apart across the sector boundary", fp, fq, p.Sub(q).Length()),
			map[string]any{"p": p, "q": q})
	}
	s2 := sdf.RotateCopy2D(sdf.Transform2D(sdf.Box2D(v2.Vec{X: 1, Y: 1}, 0), sdf.Translate2d(v2.Vec{X: 2, Y: 0.7})), 5)
	p2, q2 := v2.Vec{X: p.X, Y: p.Y}, v2.Vec{X: q.X, Y: q.Y}
	gp, gq := s2.Evaluate(p2), s2.Evaluate(q2)
	c.Eval(1)
	if math.Abs(gp-gq) > p2.Sub(q2).Length()*(1+1e-9)+1e-12 {
		c.Violate("rotatecopy2d-asymmetric-operand", fmt.Sprintf("overestimates RotateCopy2D(Box2D(1,1) at (2,0.7), 5): f=%g and %g at two points %g apart across the sector boundary", gp, gq, p2.Sub(q2).Length()),
			map[string]any{"p": p2, "q": q2})
	}
}
