//go:build verif

// C01 - bounding boxes enclose the solid they describe.
package main

import (
	"fmt"
	"math"
	"sort"
	"strings"

	"github.com/deadsy/sdfx/obj"

	"github.com/deadsy/sdfx/sdf"
	v2 "github.com/deadsy/sdfx/vec/v2"
	v3 "github.com/deadsy/sdfx/vec/v3"
)

func init() { checks["C01"] = checkC01 }

type boxWitness struct {
	P       []float64 `json:"p"`
	F       float64   `json:"f"`
	Outside float64   `json:"outside_by"`
}

type probeResult struct {
	solid    bool // some interior sample is negative
	probes   int
	witness  *boxWitness
	badBox   string
	minMoatF float64 // smallest value seen outside the box, normalised by the diagonal (near-miss margin)
}

func finite(xs ...float64) bool {
	for _, x := range xs {
		if math.IsNaN(x) || math.IsInf(x, 0) {
			return false
		}
	}
	return true
}

// outsideBy returns how far p is outside [lo,hi] (max over axes), <= 0 if inside.
func outsideBy(p, lo, hi []float64) float64 {
	d := math.Inf(-1)
	for i := range p {
		d = math.Max(d, math.Max(lo[i]-p[i], p[i]-hi[i]))
	}
	return d
}

// probeBox is dimension-agnostic: f evaluates the shape, lo/hi is its box.
func probeBox(r *Rng, f func(p []float64) float64, lo, hi []float64, budget int) probeResult {
	dim := len(lo)
	res := probeResult{minMoatF: math.Inf(1)}
	for i := 0; i < dim; i++ {
		if !finite(lo[i], hi[i]) {
			res.badBox = "non-finite component"
			return res
		}
		if lo[i] > hi[i] {
			res.badBox = fmt.Sprintf("Min > Max on axis %d", i)
			return res
		}
	}
	size := make([]float64, dim)
	diag := 0.0
	for i := range size {
		size[i] = hi[i] - lo[i]
		diag += size[i] * size[i]
	}
	diag = math.Sqrt(diag)
	if diag == 0 {
		return res
	}
	tol := 1e-9 * diag
	type cand struct {
		p []float64
		f float64
	}
	var best []cand
	consider := func(p []float64) float64 {
		v := f(p)
		res.probes++
		ob := outsideBy(p, lo, hi)
		if ob > tol {
			if v/diag < res.minMoatF {
				res.minMoatF = v / diag
			}
			if v < -tol && !math.IsNaN(v) {
				if res.witness == nil || v < res.witness.F {
					res.witness = &boxWitness{append([]float64(nil), p...), v, ob}
				}
			}
			best = append(best, cand{append([]float64(nil), p...), v})
			if len(best) > 64 {
				sort.Slice(best, func(i, j int) bool { return best[i].f < best[j].f })
				best = best[:16]
			}
		}
		return v
	}
	p := make([]float64, dim)
	// interior: is it a solid at all? (also remember some negative points for the rays)
	var negs [][]float64
	nInt := budget / 8
	for k := 0; k < nInt; k++ {
		for i := range p {
			p[i] = lo[i] + r.F()*size[i]
		}
		if v := f(p); v < 0 {
			res.solid = true
			if len(negs) < 32 {
				negs = append(negs, append([]float64(nil), p...))
			}
		}
		res.probes++
	}
	// thin shell just outside the faces (most outside material hugs the box)
	nShell := budget * 3 / 8
	for k := 0; k < nShell; k++ {
		for i := range p {
			switch r.I(6) {
			case 0:
				p[i] = lo[i]
			case 1:
				p[i] = hi[i]
			default:
				p[i] = lo[i] + r.F()*size[i]
			}
		}
		ax := r.I(dim)
		eps := diag * r.LogR(1e-8, 0.08)
		if r.Bool() {
			p[ax] = hi[ax] + eps
		} else {
			p[ax] = lo[ax] - eps
		}
		if r.P(0.3) { // push out of a second axis too (edges / corners)
			ax2 := r.I(dim)
			e2 := diag * r.LogR(1e-8, 0.08)
			if r.Bool() {
				p[ax2] = hi[ax2] + e2
			} else {
				p[ax2] = lo[ax2] - e2
			}
		}
		consider(p)
	}
	// moat up to 3x the box
	nMoat := budget / 8
	for k := 0; k < nMoat; k++ {
		sc := pickOne(r, []float64{1.5, 3})
		for i := range p {
			c := 0.5 * (lo[i] + hi[i])
			p[i] = c + (r.F()-0.5)*size[i]*sc
			if size[i] == 0 {
				p[i] = c + (r.F()-0.5)*diag*sc
			}
		}
		if outsideBy(p, lo, hi) <= tol {
			ax := r.I(dim)
			p[ax] = hi[ax] + diag*r.R(0, 1)
		}
		consider(p)
	}
	// rays from interior material marched past the box
	nRay := budget / 8
	for k := 0; k < nRay && len(negs) > 0; k++ {
		o := negs[r.I(len(negs))]
		d := make([]float64, dim)
		l := 0.0
		for i := range d {
			d[i] = r.N()
			l += d[i] * d[i]
		}
		l = math.Sqrt(l)
		// exit parameter
		tExit := math.Inf(1)
		for i := range d {
			d[i] /= l
			if d[i] > 0 {
				tExit = math.Min(tExit, (hi[i]-o[i])/d[i])
			} else if d[i] < 0 {
				tExit = math.Min(tExit, (lo[i]-o[i])/d[i])
			}
		}
		t := tExit + diag*r.LogR(1e-8, 0.3)
		for i := range p {
			p[i] = o[i] + t*d[i]
		}
		consider(p)
	}
	// directed search: shrinkingt Gaussian moves from the most promising outside points, staying outside the box
	sort.Slice(best, func(i, j int) bool { return best[i].f < best[j].f })
	if len(best) > 8 {
		best = best[:8]
	}
	starts := append([]cand(nil), best...)
	nLocal := budget / 4
	if len(starts) > 0 {
		per := nLocal / len(starts)
		for _, s := range starts {
			cur, cf := append([]float64(nil), s.p...), s.f
			rad := 0.05 * diag
			for k := 0; k < per; k++ {
				for i := range p {
					p[i] = cur[i] + r.N()*rad
				}
				if outsideBy(p, lo, hi) <= tol { // project back outside through the nearest face
					bi, bd := 0, math.Inf(1)
					for i := range p {
						if d := hi[i] - p[i]; d < bd {
							bi, bd = i, d
						}
						if d := p[i] - lo[i]; d < bd {
							bi, bd = i, d
						}
					}
					if hi[bi]-p[bi] < p[bi]-lo[bi] {
						p[bi] = hi[bi] + 2*tol + r.F()*rad*0.1
					} else {
						p[bi] = lo[bi] - 2*tol - r.F()*rad*0.1
					}
				}
				if v := consider(p); v < cf {
					copy(cur, p)
					cf = v
				} else {
					rad *= 0.93
				}
			}
		}
	}
	return res
}

func probeShape(c *Ctx, r *Rng, s2 sdf.SDF2, s3 sdf.SDF3, budget int) probeResult {
	if s3 != nil {
		bb := s3.BoundingBox()
		return probeBox(r, func(p []float64) float64 { return s3.Evaluate(v3.Vec{X: p[0], Y: p[1], Z: p[2]}) },
			[]float64{bb.Min.X, bb.Min.Y, bb.Min.Z}, []float64{bb.Max.X, bb.Max.Y, bb.Max.Z}, budget)
	}
	bb := s2.BoundingBox()
	return probeBox(r, func(p []float64) float64 { return s2.Evaluate(v2.Vec{X: p[0], Y: p[1]}) },
		[]float64{bb.Min.X, bb.Min.Y}, []float64{bb.Max.X, bb.Max.Y}, budget)
}

func boxOf(s2 sdf.SDF2, s3 sdf.SDF3) any {
	if s3 != nil {
		return s3.BoundingBox()
	}
	return s2.BoundingBox()
}

func checkC01(c *Ctx) {
	c.Rule("(a) catalog: every public constructor of sdf/ and obj/ x PRNG-drawn in-domain parameter vectors (out-of-domain draws are skipped " +
		"and counted); (b) random expression trees over all combinators (default min/max; blends are outside C01's enumerated domain). " +
		"Per shape: interior samples, a thin shell just outside every face/edge/corner, a moat up to 3x the box, rays from interior material " +
		"marched past the box, and a directed local search (shrinking Gaussian moves constrained to stay outside the box) from the lowest " +
		"outside values. Non-trivial = the shape has interior material (a sample with f<0 inside its box) and >= 1000 outside probes; " +
		"distinct = (constructor, parameter description) / tree description.")
	c.Assume("a violation needs f(p) < -1e-9*diag at a point more than 1e-9*diag outside the box; Offset/Shell are generated only over operands whose value bounds the box distance from below (otherwise their box is not meaningful); gyroid is exempt as documented")
	perEntry := c.Pick(20, 150)
	budget := c.Pick(6000, 40000)
	nTrees := c.Pick(3000, 30000)
	maxDepth := c.Pick(3, 5)

	// (a) catalog
	type job struct {
		e catEntry
		i int
	}
	var jobs []job
	for _, e := range catalog {
		if e.Unbounded || c01DefectClass(e.Name) {
			continue
		}
		for i := 0; i < perEntry; i++ {
			jobs = append(jobs, job{e, i})
		}
	}
	entrySolid := map[string]int{}
	parallelFor(len(jobs), func(j int) {
		e, i := jobs[j].e, jobs[j].i
		r := c.Rng("catalog", e.Name, i)
		sh, ok := e.Gen(r)
		if !ok {
			c.Count("catalog_out_of_domain_draws", 1)
			return
		}
		if strings.Contains(sh.Desc, "obj.DrainCover") && strings.Contains(sh.Desc, "CrossBarWeb:true") && !strings.Contains(sh.Desc, "CrossBarWidth:0 ") {
			c.Count("catalog_draws_in_known_defect_class_skipped", 1) // see c01Pinned: draincover-web-polymin-fillet
			return
		}
		b := budget
		if e.Heavy {
			b = budget / 6
		}
		res := probeShape(c, r, sh.S2, sh.S3, b)
		c.Eval(res.probes)
		judgeBox(c, res, e.Name, sh.Desc, boxOf(sh.S2, sh.S3), map[string]any{"entry": e.Name, "draw": i})
		if res.solid {
			c.mu.Lock()
			entrySolid[e.Name]++
			c.mu.Unlock()
		}
		if j%97 == 0 {
			c.Sample(map[string]any{"shape": sh.Desc, "box": boxOf(sh.S2, sh.S3), "probes": res.probes, "lowest_outside_value_over_diag": res.minMoatF})
		}
	})
	c.Obs("catalog_constructors_with_solid_instances", len(entrySolid))
	c.Obs("catalog_constructors_total", len(catalog))

	// (b) expression trees
	kindSeen := map[string]int{}
	parallelFor(nTrees, func(i int) {
		r := c.Rng("tree", i)
		scale := r.LogR(0.05, 100)
		var n *node
		if i%3 == 2 {
			n = gen2(r, r.IR(1, maxDepth), scale, genOpts{noBlend: true})
		} else {
			n = gen3(r, r.IR(1, maxDepth), scale, genOpts{noBlend: true})
		}
		if n == nil {
			return
		}
		res := probeShape(c, r, n.s2, n.s3, budget)
		c.Eval(res.probes)
		judgeBox(c, res, "tree", n.desc, boxOf(n.s2, n.s3), map[string]any{"tree_index": i})
		ks := map[string]bool{}
		kindsOf(n, ks)
		c.mu.Lock()
		for k := range ks {
			kindSeen[fmt.Sprintf("%dd/%s", n.dim, k)]++
		}
		c.mu.Unlock()
		if i < 2 {
			c.Sample(map[string]any{"tree": n.desc, "box": boxOf(n.s2, n.s3), "probes": res.probes, "lowest_outside_value_over_diag": res.minMoatF})
		}
	})
	c.Obs("combinator_kinds_exercised", kindSeen)
	// (c) histories: unions built from a caller-owned slice that the caller then reuses for other (far away) operands -
	// the box reported at construction must still hold what the union evaluates
	parallelFor(c.Pick(120, 1200), func(i int) {
		r := c.Rng("alias", i)
		scale := r.LogR(0.1, 50)
		var a *aliasCase
		if i%2 == 0 {
			a = aliasUnion3(r, scale)
		} else {
			a = aliasUnion2(r, scale)
		}
		a.scribble()
		res := probeShape(c, r, a.s2, a.s3, budget/4)
		// the operands the caller wrote into its slice afterwards lie 40-60 sizes away: look there too
		if a.s3 != nil {
			for k := 0; k < 12 && res.witness == nil; k++ {
				for _, p := range []v3.Vec{{X: scale * (40 + float64(k)), Y: scale * 35, Z: -scale * 30}, {X: -scale * (50 + float64(k)), Y: scale * 45}} {
					if v := a.s3.Evaluate(p); v < 0 {
						res.witness = &boxWitness{P: []float64{p.X, p.Y, p.Z}, F: v, Outside: 30 * scale}
					}
				}
			}
		} else {
			for k := 0; k < 12 && res.witness == nil; k++ {
				for _, p := range []v2.Vec{{X: scale * (40 + float64(k)), Y: scale * 35}, {X: -scale * (50 + float64(k)), Y: scale * 45}} {
					if v := a.s2.Evaluate(p); v < 0 {
						res.witness = &boxWitness{P: []float64{p.X, p.Y}, F: v, Outside: 30 * scale}
					}
				}
			}
		}
		c.Eval(res.probes)
		judgeBox(c, res, "history", a.desc+" after the caller reused its operand slice", boxOf(a.s2, a.s3), map[string]any{"alias_index": i})
	})
	// (d) machining: a part less a cutter that is itself not convex - a slab over one end of the part (its box spans the
	// part's box on the other axes, as a cutting tool's does) with a pocket in it, which leaves a pin / tenon standing on
	// the part; the slab's box reaches from inside the part to beyond, flush with, or short of the part's end
	parallelFor(c.Pick(400, 4000), func(i int) {
		r := c.Rng("machining", i)
		scale := r.LogR(0.1, 50)
		var s2 sdf.SDF2
		var s3 sdf.SDF3
		var desc string
		axis := r.IR(0, 2)
		side := float64(1 - 2*r.IR(0, 1))
		over := pickOne(r, []float64{0, 0, 1e-9, 0.1, 0.5, -0.05}) // how far the slab spans beyond the part's box sideways
		end := pickOne(r, []float64{0, 0.2, 1, -0.02})             // ... and beyond the part's end
		if i%3 == 2 {
			axis %= 2
			l := leaf2(r, scale)
			bb := l.s2.BoundingBox()
			sz, ctr := bb.Size(), bb.Center()
			cut := r.R(0.1, 0.6) * v2Get(sz, axis) // depth of the cut from the end
			ssz := sz.AddScalar(2 * over * scale)
			v2Set(&ssz, axis, cut+end*scale)
			sc := ctr
			v2Set(&sc, axis, v2Get(ctr, axis)+side*(v2Get(sz, axis)/2-cut+v2Get(ssz, axis)/2))
			slab := sdf.Transform2D(sdf.Box2D(ssz, 0), sdf.Translate2d(sc))
			pin, _ := sdf.Circle2D(r.R(0.05, 0.3) * math.Min(sz.X, sz.Y))
			pc := ctr
			v2Set(&pc, axis, v2Get(sc, axis))
			cutter := sdf.Difference2D(slab, sdf.Transform2D(pin, sdf.Translate2d(pc)))
			s2 = sdf.Difference2D(l.s2, cutter)
			desc = fmt.Sprintf("Difference2D(%s, slab over the %+g end of axis %d less a disc)", l.desc, side, axis)
		} else {
			l := leaf3(r, scale)
			bb := l.s3.BoundingBox()
			sz, ctr := bb.Size(), bb.Center()
			cut := r.R(0.1, 0.6) * sz.Get(axis)
			ssz := sz.AddScalar(2 * over * scale)
			ssz.Set(axis, cut+end*scale)
			sc := ctr
			sc.Set(axis, ctr.Get(axis)+side*(sz.Get(axis)/2-cut+ssz.Get(axis)/2))
			slab, err := sdf.Box3D(ssz, 0)
			if err != nil {
				return
			}
			pr := r.R(0.05, 0.3) * sz.MinComponent()
			var pin sdf.SDF3
			if r.P(0.5) {
				pin, _ = sdf.Sphere3D(pr * 1.5)
			} else {
				psz := v3.Vec{X: 2 * pr, Y: 2 * pr, Z: 2 * pr}
				psz.Set(axis, 3*ssz.Get(axis))
				pin, _ = sdf.Box3D(psz, 0)
			}
			pc := ctr
			pc.Set(axis, sc.Get(axis))
			cutter := sdf.Difference3D(sdf.Transform3D(slab, sdf.Translate3d(sc)), sdf.Transform3D(pin, sdf.Translate3d(pc)))
			if i%3 == 0 {
				s3 = sdf.Difference3D(l.s3, cutter)
				desc = fmt.Sprintf("Difference3D(%s, slab over the %+g end of axis %d less a pin)", l.desc, side, axis)
			} else {
				// the same cut made with Cut3D's cousin: intersect with the complement built the other way round
				rest := sdf.Difference3D(l.s3, sdf.Transform3D(slab, sdf.Translate3d(sc)))
				s3 = sdf.Union3D(rest, sdf.Intersect3D(l.s3, sdf.Transform3D(pin, sdf.Translate3d(pc))))
				desc = fmt.Sprintf("Union3D(Difference3D(%s, slab over the %+g end of axis %d), Intersect3D(part, pin))", l.desc, side, axis)
			}
		}
		res := probeShape(c, r, s2, s3, budget/2)
		c.Eval(res.probes)
		judgeBox(c, res, "machining", desc, boxOf(s2, s3), map[string]any{"machining_index": i})
	})
	c01Pinned(c)
	c.Floor(c.Pick(2000, 15000))
}

func judgeBox(c *Ctx, res probeResult, name, desc string, box any, extra map[string]any) {
	if res.badBox != "" {
		extra["shape"], extra["box"] = desc, box
		c.Violate("", fmt.Sprintf("box-malformed %s: %s: box=%v (%s)", name, res.badBox, box, desc), extra)
		return
	}
	if res.solid && res.probes >= 1000 {
		c.Distinct(desc)
	}
	if !math.IsInf(res.minMoatF, 1) && res.minMoatF > 0 {
		// smallest positive margin seen (how close the nearest outside probe came to material)
		c.MaxObs("closest_near_miss_neg_log10_margin", -math.Log10(res.minMoatF+1e-300))
	}
	if res.witness != nil {
		extra["shape"], extra["box"], extra["witness"] = desc, box, res.witness
		c.Violate("", fmt.Sprintf("box-leak %s: Evaluate=%g at p=%v which is %g outside BoundingBox=%v; shape: %s",
			name, res.witness.F, res.witness.P, res.witness.Outside, box, desc), extra)
	}
}

// c01DefectClass names catalogue entries that lie wholly inside a recorded known finding: triangle-mesh import decides
// the sign from the plane of the nearest of N neighbouring triangles, which is wrong near sharp edges and far from the
// mesh for any N (documented "artifacts"); the class is represented by pinned inputs in c01Pinned instead.
func c01DefectClass(name string) bool {
	return strings.HasPrefix(name, "obj.ImportSTL") || name == "obj.ImportTriMesh"
}

// c01Pinned keeps the inputs of repaired defects and of known findings in the workload forever (seed-independent).
func c01Pinned(c *Ctx) {
	r := newRng(1, "c01-pinned")
	// known finding: mesh import, few neighbours
	if s, err := obj.ImportSTL("/repo/files/bottle.stl", 8, 3, 5); err == nil && s != nil {
		res := probeShape(c, newRng(1, "c01-pinned-bottle"), nil, s, 20000)
		c.Eval(res.probes)
		if res.witness != nil {
			c.Violate("importstl-bottle-neighbours-8", fmt.Sprintf("box-leak obj.ImportSTL(bottle.stl, numNeighbors=8): Evaluate=%g at %v, %g outside the box", res.witness.F, res.witness.P, res.witness.Outside),
				map[string]any{"witness": res.witness})
		}
	}
	// known finding: PolyMin fillet of the drain cover's cross web bulges above the wall top
	dk := obj.DrainCoverParms{WallDiameter: 101.14571309685078, WallHeight: 13.546199408481355, WallThickness: 7.31617245579278, WallDraft: 0.036490959763739915,
		OuterWidth: 14.773456046144528, InnerWidth: 8.746494667391856, CoverThickness: 6.486296403219078, GrateNumber: 9, GrateWidth: 0.5981300742253685,
		GrateDraft: 0.08520009021000541, CrossBarWidth: 0.4050014383478754, CrossBarWeb: true}
	if s, err := obj.DrainCover(&dk); err == nil && s != nil {
		bb := s.BoundingBox()
		p := v3.Vec{X: 46.472223703791265, Y: 0.37762758975440475, Z: bb.Max.Z + 1e-3}
		c.Eval(1)
		if f := s.Evaluate(p); f < -1e-9*bb.Size().Length() {
			c.Violate("draincover-web-polymin-fillet", fmt.Sprintf("box-leak obj.DrainCover(CrossBarWeb, WallThickness=7.3): Evaluate=%g at %v, 1e-3 above the box top %g", f, p, bb.Max.Z),
				map[string]any{"parms": dk, "p": p, "f": f})
		}
	}
	// twisted extrusion of a profile whose far corner is its Min corner
	b := sdf.Transform2D(sdf.Box2D(v2.Vec{X: 2, Y: 2}, 0), sdf.Translate2d(v2.Vec{X: -4.5, Y: -4.5}))
	for _, s := range []struct {
		name string
		s    sdf.SDF3
	}{
		{"pinned/TwistExtrude3D(box at (-4.5,-4.5), h=10, twist=pi)", sdf.TwistExtrude3D(b, 10, math.Pi)},
		{"pinned/ScaleTwistExtrude3D(box at (-4.5,-4.5), h=10, twist=pi, scale 1.5)", sdf.ScaleTwistExtrude3D(b, 10, math.Pi, v2.Vec{X: 1.5, Y: 1.5})},
		{"pinned/ScaleTwistExtrude3D(Box2D(104.6,27.86;r=13.93), h=141.1, twist=3.711, scale (0.802,1.63))",
			sdf.ScaleTwistExtrude3D(sdf.Box2D(v2.Vec{X: 104.6, Y: 27.86}, 13.93), 141.1, 3.711, v2.Vec{X: 0.802, Y: 1.63})},
	} {
		res := probeShape(c, r, nil, s.s, 20000)
		c.Eval(res.probes)
		judgeBox(c, res, s.name, s.name, s.s.BoundingBox(), map[string]any{"pinned": s.name})
	}
	// 2D pins: three-arc cam with a small flank radius; closed Bezier curve whose last span ended 1 ulp off its start
	if cam, err := sdf.ThreeArcCam2D(2.8864046726501664, 2.500202241163852, 0.7688429773525772, 3.6993107434003876); err == nil {
		res := probeShape(c, r, cam, nil, 20000)
		c.Eval(res.probes)
		judgeBox(c, res, "pinned/ThreeArcCam2D(2.886,2.5,0.769,3.699)", "pinned/ThreeArcCam2D(2.886,2.5,0.769,3.699)", cam.BoundingBox(), map[string]any{"pinned": "threearccam"})
	}
	bz := sdf.NewBezier()
	bz.Add(69.08856956329626, -0.8755133920267034).HandleFwd(0, 6.746885621259628)
	bz.Add(81.53402555283289, 10.114562190281074).Handle(math.Pi/2, 7.509944793805362, 7.509944793805362)
	bz.Add(69.08856956329626, 26.59967556374274).HandleRev(0, 4.50107733632855)
	bz.Close()
	if m, err := bz.Mesh2D(); err == nil {
		bb := m.BoundingBox()
		for _, y := range []float64{bb.Min.Y, -0.8755133920267034, -0.8755133920267042, bb.Max.Y} {
			p := v2.Vec{X: bb.Min.X - 2.154, Y: y}
			c.Eval(1)
			if f := m.Evaluate(p); f < 0 {
				c.Violate("", fmt.Sprintf("box-leak pinned/closed-Bezier: Evaluate=%g at %v, 2.154 left of BoundingBox=%v", f, p, bb), map[string]any{"pinned": "bezier-closed-curve", "p": p})
			}
		}
	}
}

func v2Get(v v2.Vec, i int) float64 {
	if i == 0 {
		return v.X
	}
	return v.Y
}

func v2Set(v *v2.Vec, i int, x float64) {
	if i == 0 {
		v.X = x
	} else {
		v.Y = x
	}
}
