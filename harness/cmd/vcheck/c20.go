//go:build verif

// C20 - Delaunay triangulation is correct and its equality test is order-independent.
package main

import (
	"encoding/json"
	"fmt"
	"math"
	"os"
	"sort"
	"sync"

	"github.com/deadsy/sdfx/render"
	v2 "github.com/deadsy/sdfx/vec/v2"
)

func init() { checks["C20"] = checkC20 }

// Domain of the random workload ("points in general position", made robust for float64):
const (
	c20MuMin  = 1e-6 // every (Delaunay triangle, other point) pair is at least this far from cocircular, relative to min(R, extent)
	c20RMax   = 1000 // no Delaunay triangle has a circumradius above 1000 x extent (near-collinear hull triples)
	c20RMin   = 0.1  // ABSOLUTE: no Delaunay triangle has a circumradius below 0.1 (the library's absolute epsilon of 1e-12 on squared lengths is then < 1e-10 relative): small-scale defect class, pinned separately
	c20SepMin = 1e-5 // generator: points are pairwise at least 1e-5 x extent apart
	c20Depth  = 1e-9 // a point is "strictly inside" a circumcircle only beyond this relative depth
)

func c20Tris(ts render.TriangleISet) [][3]int {
	out := make([][3]int, len(ts))
	for i, t := range ts {
		out[i] = [3]int(t)
	}
	return out
}

func c20Lib(ts [][3]int) render.TriangleISet {
	out := make(render.TriangleISet, len(ts))
	for i, t := range ts {
		out[i] = render.TriangleI(t)
	}
	return out
}

// c20Fin makes a margin JSON-safe (+Inf = "no pair at all", e.g. n=3).
func c20Fin(x float64) float64 {
	if math.IsInf(x, 0) || math.IsNaN(x) {
		return math.MaxFloat64
	}
	return x
}

func c20Extent(p []v2.Vec) float64 {
	mn, mx := p[0], p[0]
	for _, q := range p {
		mn, mx = mn.Min(q), mx.Max(q)
	}
	return math.Max(mx.X-mn.X, mx.Y-mn.Y)
}

func c20SortedCopy(p []v2.Vec) []v2.Vec {
	q := append([]v2.Vec(nil), p...)
	sort.Slice(q, func(i, j int) bool {
		if q[i].X != q[j].X {
			return q[i].X < q[j].X
		}
		return q[i].Y < q[j].Y
	})
	return q
}

// c20Judge decides whether ts (indices into p) is the Delaunay triangulation of p:
// valid non-degenerate consistently wound triples, no duplicates, 2n-2-h of them, covering
// the hull area, no point strictly inside a circumcircle. With all of these, the set IS
// the (unique) Delaunay triangulation, and m holds its general-position margins.
func c20Judge(p []v2.Vec, ts [][3]int, h int, hullArea, ext float64) (kind, detail string, m c20Margin) {
	n := len(p)
	sign, area := 0.0, 0.0
	for _, t := range ts {
		for k := 0; k < 3; k++ {
			if t[k] < 0 || t[k] >= n || t[k] == t[(k+1)%3] {
				return "index", fmt.Sprintf("triple %v out of range / repeated index (n=%d)", t, n), m
			}
		}
		o := c20Orient(p[t[0]], p[t[1]], p[t[2]])
		if o == 0 {
			return "degenerate", fmt.Sprintf("triple %v is exactly collinear", t), m
		}
		if sign == 0 {
			sign = o
		} else if (o > 0) != (sign > 0) {
			return "orientation", fmt.Sprintf("triple %v wound opposite to %v", t, ts[0]), m
		}
		area += math.Abs(o) / 2
	}
	cn := c20Canon(ts)
	for i := 1; i < len(cn); i++ {
		if cn[i] == cn[i-1] {
			return "duplicate", fmt.Sprintf("triple %v returned twice", cn[i]), m
		}
	}
	if len(ts) != 2*n-2-h {
		return "count", fmt.Sprintf("%d triangles, want 2n-2-h = %d (n=%d h=%d)", len(ts), 2*n-2-h, n, h), m
	}
	if math.Abs(area-hullArea) > 1e-9*hullArea {
		return "area", fmt.Sprintf("triangle areas sum to %g, hull area %g", area, hullArea), m
	}
	m = c20Circles(p, ts, ext)
	if m.Depth > c20Depth {
		t := ts[m.WT]
		return "incircle", fmt.Sprintf("point %d %v lies inside the circumcircle of %v by %.3g x min(R,extent)", m.WP, p[m.WP], t, m.Depth), m
	}
	return "", "", m
}

func (m c20Margin) inDomain() bool {
	return m.Mu >= c20MuMin && m.RMax <= c20RMax && m.RMinAbs >= c20RMin
}

type c20Meta struct {
	Stream string   `json:"stream"`
	Index  int      `json:"index"`
	Dist   string   `json:"dist"`
	N      int      `json:"n"`
	Scale  float64  `json:"scale"`
	Offset float64  `json:"offset_over_extent"`
	Points []v2.Vec `json:"points,omitempty"`
}

type c20Stats struct {
	mu                    sync.Mutex
	minMu, minR, maxR     float64
	byDist, byN, byDomain map[string]int
}

// c20RunSet runs the fast (and for small n the slow) triangulation on one point set and
// judges the results. key != "" marks a pinned case (reported under that finding key and
// judged regardless of the workload margins, which are only recorded).
func c20RunSet(c *Ctx, st *c20Stats, p0 []v2.Vec, meta c20Meta, key string, slowMax int) (inDomain bool, truth c20Margin, h int, verdict string) {
	n := len(p0)
	if n <= 60 {
		meta.Points = p0
	}
	c.Eval(1)
	vs := make(v2.VecSet, n)
	copy(vs, p0)
	ts, err := render.Delaunay2d(vs)
	if err != nil {
		c.Violate(key, fmt.Sprintf("fast-error Delaunay2d returned %v for %d distinct points", err, n), meta)
		return
	}
	p := []v2.Vec(vs[:n])
	a, b := c20SortedCopy(p), c20SortedCopy(p0)
	for i := range a {
		if a[i] != b[i] {
			c.Violate(key, fmt.Sprintf("fast-points Delaunay2d changed the point set (n=%d): %v became %v", n, b[i], a[i]), meta)
			return
		}
	}
	hull, _ := c20Hull(p)
	h = len(hull)
	ext, hullArea := c20Extent(p), c20HullArea(p, hull)
	fast := c20Tris(ts)
	kind, detail, m := c20Judge(p, fast, h, hullArea, ext)
	truth = m
	if kind != "" {
		own := c20OwnDT(p, hull)
		if len(own) != 2*n-2-h {
			c.Inconclusive(fmt.Sprintf("oracle triangulation has %d triangles, expected %d (%s/%d)", len(own), 2*n-2-h, meta.Stream, meta.Index))
			return
		}
		truth = c20Circles(p, own, ext)
		if truth.Depth > 0 {
			c.Inconclusive(fmt.Sprintf("oracle triangulation not Delaunay (%s/%d)", meta.Stream, meta.Index))
			return
		}
	}
	inDomain = truth.inDomain()
	pre := ""
	if key != "" {
		pre = "pinned-"
	}
	verdict = "fast=ok"
	if kind != "" {
		verdict = "fast=" + kind
	}
	if kind != "" {
		if inDomain || key != "" {
			c.Violate(key, fmt.Sprintf("%sfast-%s Delaunay2d n=%d h=%d %s scale=%.3g offset/extent=%.3g: %s [set margins: mu=%.3g Rmin=%.3g Rmax/extent=%.3g]",
				pre, kind, n, h, meta.Dist, meta.Scale, meta.Offset, detail, truth.Mu, truth.RMinAbs, truth.RMax), meta)
		} else {
			c.Count("fast_wrong_outside_margins(not judged)", 1)
		}
	}
	// slow reference, own set comparison, and the library's own equality
	if n <= slowMax {
		sv := make(v2.VecSet, n)
		copy(sv, p)
		sl, err := render.Delaunay2dSlow(sv)
		if err != nil {
			c.Violate(key, fmt.Sprintf("slow-error Delaunay2dSlow returned %v for %d points", err, n), meta)
			return
		}
		slow := c20Tris(sl)
		same := c20SameSet(fast, slow)
		skind, sdetail, _ := c20Judge(p, slow, h, hullArea, ext)
		verdict += fmt.Sprintf(" slow=%s same=%v", map[bool]string{true: "ok", false: skind}[skind == ""], same)
		// the reference lifts the raw coordinates to z=|v|^2: its in-circle sign carries a relative error of about
		// 1e-16 x (|v|max/R)^2 (defect class pinned as delaunay-far-offset-1e6); it is judged with a 1000x margin from that.
		vmax := 0.0
		for _, q := range p {
			vmax = math.Max(vmax, q.Length())
		}
		slowDomain := inDomain && truth.Mu >= 1e-13*(vmax/truth.RMinAbs)*(vmax/truth.RMinAbs)
		if slowDomain || key != "" {
			c.Count("fast_vs_slow_compared", 1)
			if skind != "" {
				c.Violate(key, fmt.Sprintf("%sslow-%s Delaunay2dSlow n=%d %s scale=%.3g offset/extent=%.3g: %s [mu=%.3g]", pre, skind, n, meta.Dist, meta.Scale, meta.Offset, sdetail, truth.Mu), meta)
			} else if !same && kind == "" {
				c.Violate(key, fmt.Sprintf("%sfast!=slow Delaunay2d and Delaunay2dSlow differ as sets although both pass every other check, n=%d %s", pre, n, meta.Dist), meta)
			}
		} else if skind != "" || !same {
			c.Count("slow_differs_outside_margins(not judged)", 1)
		}
		// TriangleISet.Equals must agree with the harness's own set comparison (pure index combinatorics)
		if got := c20Lib(fast).Equals(c20Lib(slow)); got != same {
			c.Violate("", fmt.Sprintf("Equals-fast-slow TriangleISet.Equals(fast, slow) = %v but the sets are %s (n=%d, %d triangles)", got, map[bool]string{true: "equal", false: "different"}[same], n, len(fast)),
				map[string]any{"meta": meta, "T": fast, "Tother": slow})
		}
	}
	if st != nil && inDomain && kind == "" {
		st.mu.Lock()
		st.minMu, st.minR, st.maxR = math.Min(st.minMu, truth.Mu), math.Min(st.minR, truth.RMinAbs), math.Max(st.maxR, truth.RMax)
		st.mu.Unlock()
	}
	return
}

//-----------------------------------------------------------------------------
// generators (unit coordinates; scaled and offset afterwards)

var c20Dists = []string{"uniform", "clustered", "grid", "hullchain", "cocircular", "rows", "closepairs"}

func c20GenUnit(r *Rng, n int, dist string) []v2.Vec {
	p := make([]v2.Vec, 0, n)
	switch dist {
	case "uniform":
		asp := 1.0
		if r.P(0.4) {
			asp = r.LogR(0.05, 1)
		}
		for i := 0; i < n; i++ {
			p = append(p, v2.Vec{X: r.F(), Y: r.F() * asp})
		}
	case "clustered":
		k := r.IR(1, 4)
		ctr := make([]v2.Vec, k)
		sig := make([]float64, k)
		for i := range ctr {
			ctr[i], sig[i] = v2.Vec{X: r.F(), Y: r.F()}, r.LogR(0.01, 0.15)
		}
		bg := r.R(0, 0.3)
		for i := 0; i < n; i++ {
			if r.P(bg) {
				p = append(p, v2.Vec{X: r.F(), Y: r.F()})
			} else {
				j := r.I(k)
				p = append(p, v2.Vec{X: ctr[j].X + sig[j]*r.N(), Y: ctr[j].Y + sig[j]*r.N()})
			}
		}
	case "grid":
		m := int(math.Ceil(math.Sqrt(float64(n)))) + r.I(3)
		jit := r.LogR(0.01, 0.9)
		cells := r.Perm(m * m)[:n]
		for _, cidx := range cells {
			p = append(p, v2.Vec{X: (float64(cidx%m) + 0.5 + jit*r.R(-0.5, 0.5)) / float64(m), Y: (float64(cidx/m) + 0.5 + jit*r.R(-0.5, 0.5)) / float64(m)})
		}
	case "closepairs": // uniform points, a third of them with a companion a few 1e-5 of the extent away in a random direction
		for len(p) < n {
			q := v2.Vec{X: r.F(), Y: r.F()}
			p = append(p, q)
			if len(p) < n && r.P(0.5) {
				s, cs := math.Sincos(r.R(0, 2*math.Pi))
				d := r.LogR(1.5e-5, 2e-4)
				p = append(p, v2.Vec{X: q.X + d*cs, Y: q.Y + d*s})
			}
		}
	case "rows": // pairs of points share exactly the same y (no three collinear): equal coordinates are general position too
		for i := 0; i < n; i += 2 {
			y := r.F()
			p = append(p, v2.Vec{X: r.F(), Y: y})
			if i+1 < n {
				if r.P(0.8) {
					p = append(p, v2.Vec{X: r.F(), Y: y})
				} else {
					p = append(p, v2.Vec{X: p[len(p)-1].X, Y: r.F()}) // or the same x
				}
			}
		}
		for i := len(p) - 1; i > 0; i-- { // shuffle: the sharing points need not be adjacent in the input
			j := r.I(i + 1)
			p[i], p[j] = p[j], p[i]
		}
	case "cocircular": // all points within a relative nu of one circle (0-2 interior points): every in-circle decision is close
		nu := r.LogR(3e-6, 1e-2)
		for i, inner := 0, r.I(3); i < n; i++ {
			a, rad := r.R(0, 2*math.Pi), 0.5*(1+nu*r.R(-1, 1))
			if i >= 3 && i < 3+inner {
				rad = r.R(0, 0.3)
			}
			p = append(p, v2.Vec{X: 0.5 + rad*math.Cos(a), Y: 0.5 + rad*math.Sin(a)})
		}
	default: // hullchain: the four sides of the unit square bulge outwards by a sagitta >= 1e-3 and carry many near-collinear points
		hc := r.IR(n/4+1, n/2+1)
		if hc > n {
			hc = n
		}
		var sag [4]float64
		for i := range sag {
			sag[i] = r.LogR(1e-3, 0.05)
		}
		// points computed exactly on one parabola are cocircular to ~1e-15 (an x-sorted prefix of them is then not in
		// general position at float64 resolution): the chain carries noise of at least 1e-7 x extent
		noise := r.LogR(1e-7, 1e-4)
		corner := []v2.Vec{{X: 0, Y: 0}, {X: 1, Y: 0}, {X: 1, Y: 1}, {X: 0, Y: 1}}
		normal := []v2.Vec{{X: 0, Y: -1}, {X: 1, Y: 0}, {X: 0, Y: 1}, {X: -1, Y: 0}}
		for i := 0; i < hc; i++ {
			s, t := i%4, r.F()
			if i < 4 {
				t = 0
			}
			a, b := corner[s], corner[(s+1)%4]
			q := a.Add(b.Sub(a).MulScalar(t)).Add(normal[s].MulScalar(sag[s]*4*t*(1-t) + noise*r.R(-1, 1)))
			p = append(p, q)
		}
		// some points just INSIDE a side (depth 1e-3..1e-2 below the chord): flat hull triangles with circumradius up to ~125 x extent
		for near := r.I(4); near > 0 && len(p) < n; near-- {
			s, t := r.I(4), r.R(0.05, 0.95)
			a, b := corner[s], corner[(s+1)%4]
			p = append(p, a.Add(b.Sub(a).MulScalar(t)).Sub(normal[s].MulScalar(r.LogR(1e-3, 1e-2))))
		}
		for len(p) < n {
			p = append(p, v2.Vec{X: r.R(0.02, 0.98), Y: r.R(0.02, 0.98)})
		}
	}
	if (dist == "grid" || dist == "hullchain") && r.P(0.5) {
		s, cs := math.Sincos(r.R(0, 2*math.Pi))
		for i, q := range p {
			p[i] = v2.Vec{X: 0.5 + cs*(q.X-0.5) - s*(q.Y-0.5), Y: 0.5 + s*(q.X-0.5) + cs*(q.Y-0.5)}
		}
	}
	return p
}

// scale classes (log-uniform inside); class 0 lies mostly inside the library's absolute-epsilon defect class and is kept small
var c20ScaleClasses = [][2]float64{{1e-3, 1}, {1, 1e2}, {1e2, 1e4}, {1e4, 1e6}}

func c20PickScaleClass(r *Rng) int {
	if r.P(0.1) {
		return 0
	}
	return 1 + r.I(3)
}

// c20MinSep returns the smallest pairwise distance (points sorted by x, sweep).
func c20MinSep(p []v2.Vec) float64 {
	q := c20SortedCopy(p)
	best := math.Inf(1)
	for i := range q {
		for j := i + 1; j < len(q) && q[j].X-q[i].X < best; j++ {
			best = math.Min(best, q[j].Sub(q[i]).Length())
		}
	}
	return best
}

// c20GenSet returns a set of points pairwise >= 1e-5 x extent apart whose hull has no exactly collinear points.
func c20GenSet(r *Rng, n int, dist string, sc, oc int) (pts []v2.Vec, scale, off float64) {
	for {
		u := c20GenUnit(r, n, dist)
		scale = r.LogR(c20ScaleClasses[sc][0], c20ScaleClasses[sc][1])
		switch oc {
		case 1:
			off = r.R(0, 1)
		case 2:
			off = r.R(1, 10)
		case 3:
			off = r.LogR(1e3, 1e6)
		}
		ext := c20Extent(u) * scale
		s, cs := math.Sincos(r.R(0, 2*math.Pi))
		d := v2.Vec{X: cs * off * ext, Y: s * off * ext}
		pts = make([]v2.Vec, n)
		for i, q := range u {
			pts[i] = v2.Vec{X: (q.X-0.5)*scale + d.X, Y: (q.Y-0.5)*scale + d.Y}
		}
		if c20MinSep(pts) < c20SepMin*c20Extent(pts) {
			continue
		}
		if hull, col := c20Hull(pts); col || len(hull) < 3 {
			continue
		}
		return pts, scale, off
	}
}

func c20NClass(n int) string {
	switch {
	case n < 5:
		return "n3-4"
	case n <= 15:
		return "n5-15"
	case n <= 80:
		return "n16-80"
	case n <= 400:
		return "n81-400"
	}
	return "n401+"
}

// c20Case: the i-th point set of the random workload (pure function of seed, tier and i).
func c20Case(c *Ctx, i int) (pts []v2.Vec, meta c20Meta, sc, oc int) {
	r := c.Rng("set", i)
	var n int
	switch k := i % 20; {
	case k == 0:
		n = r.IR(3, 4)
	case k < 5:
		n = r.IR(5, 15)
	case k < 13:
		n = r.IR(16, 80)
	case k == 19 && !c.Quick:
		n = r.IR(401, 1000)
	default:
		n = r.IR(81, 400)
	}
	dist := c20Dists[(i/20)%len(c20Dists)]
	if dist == "cocircular" {
		n = min(n, 60)
	}
	sc, oc = c20PickScaleClass(r), r.I(3)
	if (dist == "closepairs" || dist == "uniform") && r.P(0.4) {
		oc = 3 // far from the origin relative to the spacing of the points
	}
	pts, scale, off := c20GenSet(r, n, dist, sc, oc)
	return pts, c20Meta{Stream: "set", Index: i, Dist: dist, N: n, Scale: scale, Offset: off}, sc, oc
}

// replay: re-runs one recorded case (a point set given by its points or by stream index; an Equals pair).
func init() {
	replays["C20"] = func(c *Ctx, path string) {
		var rp struct {
			Tier string
			Seed uint64
			Key  string
			Case struct {
				c20Meta
				Meta      *c20Meta
				T, Tother [][3]int
			}
		}
		b, err := os.ReadFile(path)
		if err == nil {
			err = json.Unmarshal(b, &rp)
		}
		if err != nil {
			c.Inconclusive("replay file: " + err.Error())
			return
		}
		c.Seed, c.Tier, c.Quick = rp.Seed, rp.Tier, rp.Tier == "quick"
		m := rp.Case.c20Meta
		if rp.Case.Meta != nil {
			m = *rp.Case.Meta
		}
		switch {
		case rp.Case.T != nil:
			c.Eval(1)
			if eq, same := c20EqualsSafe(rp.Case.T, rp.Case.Tother), c20SameSet(rp.Case.T, rp.Case.Tother); eq != same {
				c.Violate("", fmt.Sprintf("Equals-replay TriangleISet.Equals = %v, sets equal = %v", eq, same), rp.Case)
			}
		case m.Points != nil:
			c20RunSet(c, nil, m.Points, m, rp.Key, 80)
		case m.Stream == "set":
			pts, meta, _, _ := c20Case(c, m.Index)
			c20RunSet(c, nil, pts, meta, "", 80)
		default:
			for _, pin := range c20PinnedSets() {
				if "pinned:"+pin.key == m.Stream {
					c20RunSet(c, nil, pin.pts, m, pin.key, 80)
				}
			}
		}
		c.Distinct("replay/a")
		c.Distinct("replay/b")
	}
}

//-----------------------------------------------------------------------------

func checkC20(c *Ctx) {
	c.Rule("point sets: n in 3..400 (thorough: 5% in 401..1000) x {uniform (also up to 20:1 aspect), gaussian clusters, jittered grid (jitter>=1% of a cell), nearly cocircular rings (relative noise 3e-6..1e-2, n<=60), near-collinear hull chains with sagitta>=1e-3 " +
		"carrying up to n/2 points incl. points just inside the hull} x scale 1e-3..1e6 (4 classes) x offset {0, <=1, 1..10} x extent; points pairwise >=1e-5 x extent apart, no exactly collinear hull " +
		"points (exact predicate). A set is judged only if its TRUE Delaunay triangulation is robustly unique: cocircularity margin mu>=1e-6, every circumradius <=1000 x extent and >=0.1 absolute " +
		"(the slow reference additionally needs mu>=1e-13(|v|max/Rmin)^2). Distinct non-trivial = (n class, distribution, scale class, offset class) " +
		"of judged sets with n>=5 and interior points (h<n). Equals: exhaustive 2- and 3-subsets of the 20 canonical triples over 5 indices + random synthetic sets with many shared " +
		"first/second indices + real triangulations, all shuffled/rotated; distinct = (source, set size class).")
	c.Assume("float64 coordinates are exact rationals: orientation and in-circle signs are decided exactly (filter + math/big)")
	c.Assume("sets below the stated robustness margins are run but not judged (float64 cannot be expected to decide them); far-offset / flat-hull / tiny-scale inputs are pinned separately")
	if msg := c20SelfTest(); msg != "" {
		c.Inconclusive("oracle self-test failed: " + msg)
		return
	}

	c20Equals(c)
	c20Pinned(c)

	nSets := c.Pick(24000, 300000)
	st := &c20Stats{minMu: math.Inf(1), minR: math.Inf(1), byDist: map[string]int{}, byN: map[string]int{}, byDomain: map[string]int{}}
	parallelFor(nSets, func(i int) {
		pts, meta, sc, oc := c20Case(c, i)
		n, dist := meta.N, meta.Dist
		dom, truth, h, _ := c20RunSet(c, st, pts, meta, "", 80)
		st.mu.Lock()
		st.byDist[dist]++
		st.byN[c20NClass(n)]++
		switch {
		case dom:
			st.byDomain["judged"]++
		case truth.Mu < c20MuMin:
			st.byDomain["skipped:mu<1e-6"]++
		case truth.RMax > c20RMax:
			st.byDomain["skipped:R>1000extent"]++
		default:
			st.byDomain["skipped:Rmin<0.1(abs)"]++
		}
		st.mu.Unlock()
		if dom && n >= 5 && h < n {
			c.Distinct(fmt.Sprintf("dt/%s/%s/scale%d/off%d", c20NClass(n), dist, sc, oc))
		}
		if i < 3 && n <= 60 {
			c.Sample(map[string]any{"meta": meta, "hull_vertices": h, "mu": c20Fin(truth.Mu)})
		}
	})
	c.Obs("sets_by_distribution", st.byDist)
	c.Obs("sets_by_n_class", st.byN)
	c.Obs("sets_by_domain_verdict", st.byDomain)
	c.Obs("min_cocircularity_margin_mu_among_judged", c20Fin(st.minMu))
	c.Obs("min_abs_circumradius_among_judged", c20Fin(st.minR))
	c.Obs("max_circumradius_over_extent_among_judged", st.maxR)
	c.Floor(c.Pick(60, 140))
}

//-----------------------------------------------------------------------------
// TriangleISet.Equals / TriangleI.Canonical / TriangleIByIndex

func c20SizeClass(n int) string {
	switch {
	case n <= 3:
		return fmt.Sprint(n)
	case n <= 10:
		return "4-10"
	case n <= 100:
		return "11-100"
	}
	return "101+"
}

// c20Shuffled returns the triangles of t in a random order, each triple randomly rotated.
func c20Shuffled(r *Rng, t [][3]int) [][3]int {
	out := make([][3]int, len(t))
	for i, j := range r.Perm(len(t)) {
		k := r.I(3)
		out[i] = [3]int{t[j][k], t[j][(k+1)%3], t[j][(k+2)%3]}
	}
	return out
}

// c20EqualsOn checks, for `shuffles` reorderings of set t: equal to itself, not equal to a set with one
// reversed triple / one foreign triple. Returns false after the first violation of a set.
func c20EqualsOn(c *Ctx, r *Rng, src string, t [][3]int, shuffles int) bool {
	in := map[[3]int]bool{}
	maxIdx := 0
	for _, x := range c20Canon(t) {
		in[x] = true
		maxIdx = max(maxIdx, x[0], x[1], x[2])
	}
	fails := 0
	for s := 0; s < shuffles; s++ {
		b := c20Shuffled(r, t)
		c.Eval(1)
		if !c20Lib(t).Equals(c20Lib(b)) || !c20Lib(b).Equals(c20Lib(t)) {
			fails++
			if fails == 1 {
				c.Violate("", fmt.Sprintf("Equals-permutation TriangleISet.Equals is false for a reordering/rotation of the same %d triangles (%s): T=%v T'=%v", len(t), src, c20TrimSet(t), c20TrimSet(b)),
					map[string]any{"source": src, "T": t, "Tother": b})
			}
			continue
		}
		if s%4 != 0 {
			continue
		}
		// negatives
		j := r.I(len(b))
		if c20EqualsSafe(t, b[:len(b)-1]) || c20EqualsSafe(b[:len(b)-1], t) {
			c.Violate("", fmt.Sprintf("Equals-subset TriangleISet.Equals is true (or panics) for a set and the same set with one triangle removed (%d triangles, %s)", len(t), src),
				map[string]any{"source": src, "T": t, "Tother": b[:len(b)-1]})
			return false
		}
		rev := [3]int{b[j][0], b[j][2], b[j][1]}
		if cr := c20Canon([][3]int{rev})[0]; !in[cr] {
			d := append([][3]int(nil), b...)
			d[j] = rev
			if c20Lib(t).Equals(c20Lib(d)) {
				c.Violate("", fmt.Sprintf("Equals-winding TriangleISet.Equals is true although triple %v was replaced by its mirror image %v (%d triangles, %s)", b[j], rev, len(t), src),
					map[string]any{"source": src, "T": t, "Tother": d})
				return false
			}
		}
		for try := 0; try < 20; try++ {
			f := [3]int{r.I(maxIdx + 2), r.I(maxIdx + 2), r.I(maxIdx + 2)}
			if f[0] == f[1] || f[1] == f[2] || f[0] == f[2] || in[c20Canon([][3]int{f})[0]] {
				continue
			}
			d := append([][3]int(nil), b...)
			d[j] = f
			if c20Lib(t).Equals(c20Lib(d)) {
				c.Violate("", fmt.Sprintf("Equals-foreign TriangleISet.Equals is true although triple %v was replaced by %v (%d triangles, %s)", b[j], f, len(t), src),
					map[string]any{"source": src, "T": t, "Tother": d})
				return false
			}
			break
		}
	}
	if fails > 0 {
		c.Count("equals_false_on_same_set_shuffles", int64(fails))
		c.Count("equals_sets_with_failures", 1)
	}
	return fails == 0
}

// c20EqualsSafe calls the library's Equals on copies; a panic counts as "true" (wrong answer for differing sets).
func c20EqualsSafe(a, b [][3]int) (eq bool) {
	defer func() {
		if recover() != nil {
			eq = true
		}
	}()
	return c20Lib(a).Equals(c20Lib(b))
}

func c20TrimSet(t [][3]int) string {
	if len(t) <= 8 {
		return fmt.Sprint(t)
	}
	return fmt.Sprintf("%v...(%d more)", t[:8], len(t)-8)
}

func c20Equals(c *Ctx) {
	// (a) TriangleI.Canonical on every rotation of every triple over 5 indices; collect the 20 canonical triples
	var canon [][3]int
	for a := 0; a < 5; a++ {
		for b := 0; b < 5; b++ {
			for d := 0; d < 5; d++ {
				if a == b || b == d || a == d {
					continue
				}
				t := render.TriangleI{a, b, d}
				t.Canonical()
				want := c20Canon([][3]int{{a, b, d}})[0]
				c.Eval(1)
				if [3]int(t) != want {
					c.Violate("", fmt.Sprintf("Canonical TriangleI{%d,%d,%d}.Canonical() = %v, want %v (lowest index first, winding kept)", a, b, d, t, want), map[string]any{"triple": []int{a, b, d}})
				}
				if a < b && a < d {
					canon = append(canon, [3]int{a, b, d})
				}
			}
		}
	}
	// (b) exhaustive small sets: every order and rotation of every 2- and 3-subset
	minimal := ""
	for size := 2; size <= 3; size++ {
		bad := 0
		var rec func(start int, cur [][3]int)
		rec = func(start int, cur [][3]int) {
			if len(cur) == size {
				ok := true
				perms := [][]int{{0, 1}, {1, 0}}
				if size == 3 {
					perms = [][]int{{0, 1, 2}, {0, 2, 1}, {1, 0, 2}, {1, 2, 0}, {2, 0, 1}, {2, 1, 0}}
				}
				rots := 1
				for i := 0; i < size; i++ {
					rots *= 3
				}
				for _, pm := range perms {
					for rc := 0; rc < rots && ok; rc++ {
						b := make([][3]int, size)
						x := rc
						for i, j := range pm {
							k := x % 3
							x /= 3
							b[i] = [3]int{cur[j][k], cur[j][(k+1)%3], cur[j][(k+2)%3]}
						}
						c.Eval(1)
						if !c20Lib(cur).Equals(c20Lib(b)) {
							ok = false
							bad++
							if minimal == "" {
								minimal = fmt.Sprintf("%v vs %v", cur, b)
							}
							if bad == 1 {
								c.Violate("", fmt.Sprintf("Equals-permutation TriangleISet.Equals is false for a reordering/rotation of the same %d triangles (exhaustive): T=%v T'=%v", size, cur, b),
									map[string]any{"source": "exhaustive", "T": append([][3]int(nil), cur...), "Tother": b})
							}
						}
					}
				}
				if ok {
					c.Distinct(fmt.Sprintf("equals/exhaustive/size%d", size))
				}
				return
			}
			for i := start; i < len(canon); i++ {
				rec(i+1, append(cur, canon[i]))
			}
		}
		rec(0, nil)
		c.Count(fmt.Sprintf("equals_exhaustive_size%d_sets_failing", size), int64(bad))
	}
	if minimal != "" {
		c.Obs("equals_minimal_witness", minimal)
	}
	// (c) random synthetic sets with many shared first / second indices, and real triangulations
	nSets, shuffles := c.Pick(40, 250), c.Pick(50, 200)
	parallelFor(nSets, func(i int) {
		r := c.Rng("equals", i)
		var t [][3]int
		src := "synthetic"
		if i%4 == 3 {
			src = "triangulation"
			n := r.IR(5, 150)
			pts, _, _ := c20GenSet(r, n, c20Dists[r.I(4)], 1, 0)
			ts, _ := render.Delaunay2d(append(v2.VecSet(nil), pts...))
			t = c20Tris(ts)
		} else {
			m, idx := r.IR(2, 60), r.IR(4, 12)
			seen := map[[3]int]bool{}
			for len(t) < m && len(seen) < idx*(idx-1)*(idx-2)/3 {
				f := [3]int{r.I(idx), r.I(idx), r.I(idx)}
				if f[0] == f[1] || f[1] == f[2] || f[0] == f[2] {
					continue
				}
				k := c20Canon([][3]int{f})[0]
				if !seen[k] {
					seen[k] = true
					t = append(t, f)
				}
			}
		}
		if len(t) < 2 {
			return
		}
		if c20EqualsOn(c, r, src, t, shuffles) {
			c.Distinct(fmt.Sprintf("equals/%s/size%s", src, c20SizeClass(len(t))))
		}
	})
}

//-----------------------------------------------------------------------------
// pinned inputs outside the random workload (generated without the PRNG)

// c20R2 is the i-th point of a fixed pseudo-uniform sequence in the unit square: a closed-form integer hash of i
// (murmur3 finaliser), independent of VERIF_SEED and of prng.go, so a pinned key always denotes the same input.
func c20R2(i int) v2.Vec {
	h := func(z uint64) float64 {
		z = (z ^ (z >> 33)) * 0xff51afd7ed558ccd
		z = (z ^ (z >> 33)) * 0xc4ceb9fe1a85ec53
		return float64((z^(z>>33))>>11) / (1 << 53)
	}
	return v2.Vec{X: h(uint64(2*i + 1)), Y: h(uint64(2*i + 2))}
}

type c20Pin struct {
	key  string
	pts  []v2.Vec
	note string
}

func c20PinnedSets() []c20Pin {
	r2 := func(n int, scale float64, off v2.Vec) []v2.Vec {
		p := make([]v2.Vec, n)
		for i := range p {
			p[i] = c20R2(i + 1).MulScalar(scale).Add(off)
		}
		return p
	}
	var pins []c20Pin
	grid := func(m int, jit float64, off v2.Vec) []v2.Vec {
		var p []v2.Vec
		for i := 0; i < m*m; i++ {
			q := c20R2(i + 1)
			p = append(p, v2.Vec{X: (float64(i%m) + 0.5 + jit*(q.X-0.5)) / float64(m), Y: (float64(i/m) + 0.5 + jit*(q.Y-0.5)) / float64(m)}.Add(off))
		}
		return p
	}
	flat := func(depth float64, n int) []v2.Vec {
		p := []v2.Vec{{X: 0, Y: 0}, {X: 1, Y: 0}, {X: 0.5, Y: depth}}
		for i := 1; i <= n; i++ {
			q := c20R2(i)
			p = append(p, v2.Vec{X: 0.05 + 0.9*q.X, Y: 0.05 + 0.9*q.Y})
		}
		return p
	}
	clustered := func(n int, scale float64) []v2.Vec {
		p := r2(n, 1, v2.Vec{})
		for i := 0; i < n; i += 2 { // every other point goes into a 0.02-wide cluster
			p[i] = v2.Vec{X: 0.3 + 0.02*p[i].X, Y: 0.6 + 0.02*p[i].Y}
		}
		for i := range p {
			p[i] = p[i].MulScalar(scale)
		}
		return p
	}
	pins = append(pins,
		c20Pin{"delaunay-flat-hull/inward-depth-1e-5-n43", flat(1e-5, 40), "a point 1e-5 x extent inside a hull edge: hull triangle with circumradius 12500 x extent (> 4096 x super triangle)"},
		c20Pin{"delaunay-flat-hull/inward-depth-1e-4-n43", flat(1e-4, 40), "same with depth 1e-4 (circumradius 1250 x extent): expected to hold"},
		c20Pin{"delaunay-far-offset-1000/seedless-grid8-jitter-1e-3", grid(8, 1e-3, v2.Vec{X: 1000, Y: -1000}), "8x8 grid, jitter 1e-3 cell, offset 1000 x extent: flat hull triangles (circumradius 1.1e4 x extent)"},
		c20Pin{"delaunay-far-offset-1000/seedless-grid8-jitter-1e-2", grid(8, 1e-2, v2.Vec{X: 1000, Y: -1000}), "same with jitter 1e-2 (circumradius 1.1e3 x extent): expected to hold - the offset alone is harmless"},
		c20Pin{"delaunay-far-offset-1e6/seedless-grid8-jitter-0.5", grid(8, 0.5, v2.Vec{X: 1e6, Y: -1e6}), "offset 1e6 x extent: the slow reference lifts with |v|^2 of the raw coordinates and loses the in-circle sign"},
		c20Pin{"delaunay-small-scale-1e-3/hash-clustered-n200", clustered(200, 1e-3), "extent 1e-3 with a 2e-5 wide cluster: squared lengths ~1e-12 are below the absolute epsilon"},
		c20Pin{"delaunay-small-scale-1e-4/hash-uniform-n400", r2(400, 1e-4, v2.Vec{}), "extent 1e-4, 400 uniform points"},
	)
	return pins
}

func c20Pinned(c *Ctx) {
	res := map[string]string{}
	for _, pin := range c20PinnedSets() {
		hull, col := c20Hull(pin.pts)
		if col || len(hull) < 3 || c20MinSep(pin.pts) == 0 {
			c.Inconclusive("pinned set " + pin.key + " is not in general position")
			continue
		}
		_, truth, h, verdict := c20RunSet(c, nil, pin.pts, c20Meta{Stream: "pinned:" + pin.key, N: len(pin.pts), Dist: "pinned"}, pin.key, 80)
		res[pin.key] = fmt.Sprintf("%s | n=%d h=%d mu=%.3g Rmin=%.3g Rmax/extent=%.3g | %s", verdict, len(pin.pts), h, truth.Mu, truth.RMinAbs, truth.RMax, pin.note)
	}
	c.Obs("pinned_inputs", res)
}
