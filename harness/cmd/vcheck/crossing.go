//go:build verif

// Offline checker over the recorded event log: every mesh vertex must be the
// linear zero crossing of a lattice edge whose recorded endpoint values
// straddle zero (epsilon snapping near a node is accepted).
package main

import (
	"fmt"
	"math"
	"sort"
)

const snapEps = 1e-12 // the renderer's documented snap distance for values next to the iso level

// axisLocate returns the lattice indices lo<=hi (in cell-corner units) bracketing x on one axis;
// on==true if x coincides with corner coordinate lo.
func axisLocate(coords []float64, stride int, x, tol float64) (lo, hi int, on bool, ok bool) {
	n := (len(coords)-1)/stride + 1
	get := func(i int) float64 { return coords[i*stride] }
	i := sort.Search(n, func(i int) bool { return get(i) >= x-tol })
	if i < n && math.Abs(get(i)-x) <= tol {
		return i, i, true, true
	}
	if i == 0 || i >= n {
		return 0, 0, false, false
	}
	return i - 1, i, false, true
}

// crossingOK decides whether a vertex at parameter position `pos` (0..1 measured from node a to node b
// along the edge of length len) is explained by endpoint values va, vb.
func crossingOK(va, vb, t, tolT float64) bool {
	if (va < 0) == (vb < 0) {
		return false
	}
	ca, cb := math.Abs(va) < snapEps, math.Abs(vb) < snapEps
	if ca && cb {
		return t >= -tolT && t <= 1+tolT
	}
	want := va / (va - vb)
	if math.Abs(t-want) <= tolT {
		return true
	}
	if ca && math.Abs(t) <= tolT {
		return true
	}
	if cb && math.Abs(t-1) <= tolT {
		return true
	}
	return false
}

// explain2 checks one 2D endpoint against the lattice and values. val returns the value at corner (i,j).
func explain2(l *lattice2, val func(i, j int) (float64, bool), x, y float64) (bool, string) {
	cs := l.cellSize()
	// a renderer may form a cell's corners as origin+size while it samples at base+i*size: the two differ by rounding
	// at the magnitude of the coordinates, not of the cell
	mag := math.Max(math.Max(math.Abs(l.xs[0]), math.Abs(l.xs[len(l.xs)-1])), math.Max(math.Abs(l.ys[0]), math.Abs(l.ys[len(l.ys)-1])))
	tol := 1e-9*math.Min(cs.X, cs.Y) + 64*2.3e-16*mag
	ilo, ihi, onx, okx := axisLocate(l.xs, l.stride, x, tol)
	jlo, jhi, ony, oky := axisLocate(l.ys, l.stride, y, tol)
	if !okx || !oky {
		return false, "outside the sampled lattice"
	}
	if !onx && !ony {
		return false, fmt.Sprintf("not on any lattice line (nearest lines: x %.3g, y %.3g away; cell %.3g x %.3g)",
			math.Min(math.Abs(x-l.xs[ilo*l.stride]), math.Abs(x-l.xs[ihi*l.stride])), math.Min(math.Abs(y-l.ys[jlo*l.stride]), math.Abs(y-l.ys[jhi*l.stride])), cs.X, cs.Y)
	}
	cx, cy := l.cells()
	try := func(i0, j0, i1, j1 int, t float64, length float64) bool {
		if i0 < 0 || j0 < 0 || i1 > cx || j1 > cy {
			return false
		}
		va, oka := val(i0, j0)
		vb, okb := val(i1, j1)
		if !oka || !okb {
			return false
		}
		return crossingOK(va, vb, t, 1e-9+tol/length)
	}
	switch {
	case onx && ony: // on a node: any incident edge may explain it
		i, j := ilo, jlo
		return try(i, j, i+1, j, 0, cs.X) || try(i-1, j, i, j, 1, cs.X) || try(i, j, i, j+1, 0, cs.Y) || try(i, j-1, i, j, 1, cs.Y), "node not explained by any incident straddling edge"
	case onx: // on a vertical lattice line, between jlo and jhi
		a, b := l.ys[jlo*l.stride], l.ys[jhi*l.stride]
		return try(ilo, jlo, ilo, jhi, (y-a)/(b-a), b-a), "edge endpoints do not straddle / wrong interpolation"
	default:
		a, b := l.xs[ilo*l.stride], l.xs[ihi*l.stride]
		return try(ilo, jlo, ihi, jlo, (x-a)/(b-a), b-a), "edge endpoints do not straddle / wrong interpolation"
	}
}

// explain3 checks one 3D vertex.
func explain3(l *lattice3, val func(i, j, k int) (float64, bool), x, y, z float64) (bool, string) {
	cs := l.cellSize()
	mag := 0.0
	for _, ax := range [][]float64{l.xs, l.ys, l.zs} {
		mag = math.Max(mag, math.Max(math.Abs(ax[0]), math.Abs(ax[len(ax)-1])))
	}
	tol := 1e-9*cs.MinComponent() + 64*2.3e-16*mag // see explain2
	var lo, hi [3]int
	var on [3]bool
	p := [3]float64{x, y, z}
	axes := [3][]float64{l.xs, l.ys, l.zs}
	for a := 0; a < 3; a++ {
		var ok bool
		lo[a], hi[a], on[a], ok = axisLocate(axes[a], l.stride, p[a], tol)
		if !ok {
			return false, "outside the sampled lattice"
		}
	}
	nOn := 0
	for a := 0; a < 3; a++ {
		if on[a] {
			nOn++
		}
	}
	if nOn < 2 {
		return false, "not on any lattice edge"
	}
	cx, cy, cz := l.cells()
	lim := [3]int{cx, cy, cz}
	get := func(idx [3]int) (float64, bool) {
		for a := 0; a < 3; a++ {
			if idx[a] < 0 || idx[a] > lim[a] {
				return 0, false
			}
		}
		return val(idx[0], idx[1], idx[2])
	}
	size := [3]float64{cs.X, cs.Y, cs.Z}
	tryEdge := func(base [3]int, axis int, t float64) bool {
		a := base
		b := base
		b[axis]++
		va, oka := get(a)
		vb, okb := get(b)
		if !oka || !okb {
			return false
		}
		return crossingOK(va, vb, t, 1e-9+tol/size[axis])
	}
	if nOn == 3 {
		base := lo
		for a := 0; a < 3; a++ {
			if tryEdge(base, a, 0) {
				return true, ""
			}
			b := base
			b[a]--
			if tryEdge(b, a, 1) {
				return true, ""
			}
		}
		return false, "node not explained by any incident straddling edge"
	}
	for a := 0; a < 3; a++ {
		if !on[a] {
			c0, c1 := axes[a][lo[a]*l.stride], axes[a][hi[a]*l.stride]
			if tryEdge(lo, a, (p[a]-c0)/(c1-c0)) {
				return true, ""
			}
			return false, "edge endpoints do not straddle / wrong interpolation"
		}
	}
	return false, "unreachable"
}
