//go:build verif

// C11 - nothing written by a renderer is lost, duplicated or reordered before the sink.
package main

import (
	"bytes"
	"encoding/binary"
	"encoding/xml"
	"fmt"
	"hash/fnv"
	"math"
	"os"
	"path/filepath"
	"runtime"
	"sort"
	"strconv"
	"strings"
	"sync"
	"time"

	"github.com/deadsy/sdfx/render"
	"github.com/deadsy/sdfx/sdf"
	"github.com/hpinc/go3mf"
	"github.com/yofu/dxf"
	"github.com/yofu/dxf/entity"
)

func init() {
	checks["C11"] = checkC11
	shardFns["c11"] = shardC11
}

func checkC11(c *Ctx) {
	c.Rule("scripted Render3/Render2 implementations emit uniquely numbered items (id encoded in float32-exact coordinates) into " +
		"ToTriangles/ToSTL/To3MF/ToDXF/ToSVG and into bare Triangle3Buffer/Line2Buffer with a caller-owned channel: item counts 0,1,2,T-1,T,T+1, " +
		"2T-1,2T,2T+1,1000,5000 (thorough: every count 0..4T+3) x batch partitions (singles, one batch, empty batches interleaved, PRNG sizes, " +
		"sizes straddling T) x 1..8 producer goroutines with PRNG yields x slow/fast consumer; the sink contents are read back (slice, channel " +
		"batches, STL count field + records, go3mf, dxf reader, SVG XML) and every id must appear exactly once, in order for one producer. " +
		"Runs in race-instrumented children. Non-trivial = history with a flush at the threshold and a final partial flush, or >= 2 producers " +
		"whose items really interleaved at the sink; distinct = (sink, count, partition, producers, observed interleaving fingerprint).")
	c.Assume("with unique ids exactly-once and order are decidable exactly, so no linearizability search is needed; batch contiguity is not demanded (the statement asks for the multiset with several producers)")
	nshards := c.Pick(16, 64)
	c.runSharded("c11", nshards, 16, true, 30*time.Minute)
	c.Floor(c.Pick(300, 3000))
}

// multi-producer scripted renderers
type c11Plan struct {
	Sink      string  `json:"sink"`
	Count     int     `json:"count"`
	Partition string  `json:"partition"`
	Producers int     `json:"producers"`
	Batches   [][]int `json:"-"` // per producer: batch sizes
	Slow      bool    `json:"slow_consumer"`
	Seed      string  `json:"stream"`
}

func c11Batches(r *Rng, n int, partition string, T int) []int {
	var out []int
	left := n
	for left > 0 || len(out) == 0 {
		var b int
		switch partition {
		case "singles":
			b = 1
		case "one":
			b = left
		case "empties":
			if r.Bool() {
				b = 0
			} else {
				b = 1 + r.I(5)
			}
		case "straddle":
			b = pickOne(r, []int{T - 1, T, T + 1, 1, 2*T + 1, 0})
		case "multipart": // a renderer made of several parts, each part ends with Close (as every library renderer does)
			b = pickOne(r, []int{1, 3, 10, T - 1, T, T + 2, r.I(2*T + 2)})
			if len(out) > 0 && out[len(out)-1] >= 0 && r.P(0.4) {
				out = append(out, -1)
			}
		default:
			b = r.I(2*T + 2)
		}
		if b > left {
			b = left
		}
		out = append(out, b)
		left -= b
		if n == 0 {
			break
		}
	}
	if partition == "empties" {
		out = append(out, 0)
	}
	return out
}

// id layout: producer p owns ids p, p+P, p+2P, ... so single-producer order is id order
func c11Tri(id int) *sdf.Triangle3 {
	f := float64(id)
	if id%97 == 3 { // thin but valid: two corners differ in float64 and coincide after float32 rounding
		return &sdf.Triangle3{{X: f}, {X: f, Y: 1, Z: 5}, {X: f, Y: 1 + 1e-9, Z: 5 + 2e-9}}
	}
	return &sdf.Triangle3{{X: f}, {X: f, Y: 1}, {X: f, Z: 1}}
}
func c11Line(id int) *sdf.Line2 {
	f := float64(id)
	return &sdf.Line2{{X: f}, {X: f, Y: 1}}
}

// what a renderer leaves in its batch slice after Write returned: an item no plan contains (read back as an unknown id)
var (
	c11JunkTri  = c11Tri(7_000_000)
	c11JunkLine = c11Line(7_000_000)
)

type c11R3 struct {
	plan *c11Plan
	r    *Rng
}

func (s *c11R3) Info(sdf.SDF3) string { return "scripted" }
func (s *c11R3) Render(_ sdf.SDF3, out sdf.Triangle3Writer) {
	c11Produce(s.plan, s.r, func(ids []int) {
		ts := make([]*sdf.Triangle3, len(ids))
		for i, id := range ids {
			ts[i] = c11Tri(id)
		}
		out.Write(ts)
		// the slice is the renderer's: it reuses it for its next batch (Write has taken what it needs)
		for i := range ts {
			ts[i] = c11JunkTri
		}
	}, func() { out.Close() })
	out.Close()
}

type c11R2 struct {
	plan *c11Plan
	r    *Rng
}

func (s *c11R2) Info(sdf.SDF2) string { return "scripted" }
func (s *c11R2) Render(_ sdf.SDF2, out sdf.Line2Writer) {
	c11Produce(s.plan, s.r, func(ids []int) {
		ls := make([]*sdf.Line2, len(ids))
		for i, id := range ids {
			ls[i] = c11Line(id)
		}
		out.Write(ls)
		for i := range ls {
			ls[i] = c11JunkLine
		}
	}, func() { out.Close() })
	out.Close()
}

// c11Produce runs the producers; write is called once per batch.
func c11Produce(plan *c11Plan, r *Rng, write func(ids []int), closeFn func()) {
	P := plan.Producers
	var wg sync.WaitGroup
	for p := 0; p < P; p++ {
		yields := make([]int, len(plan.Batches[p]))
		for i := range yields {
			yields[i] = r.I(4)
		}
		run := func(p int) {
			next := p
			for bi, b := range plan.Batches[p] {
				if b < 0 {
					closeFn() // end of one part of a multi-part render
					continue
				}
				ids := make([]int, b)
				for i := range ids {
					ids[i] = next
					next += P
				}
				write(ids)
				for y := 0; y < yields[bi]; y++ {
					runtime.Gosched()
				}
			}
		}
		if P == 1 {
			run(0)
		} else {
			wg.Add(1)
			go func(p int) { defer wg.Done(); run(p) }(p)
		}
	}
	wg.Wait()
}

func c11ReadSTL(path string) ([]int, error) {
	b, err := os.ReadFile(path)
	if err != nil {
		return nil, err
	}
	if len(b) < 84 {
		return nil, fmt.Errorf("short file %d", len(b))
	}
	n := int(binary.LittleEndian.Uint32(b[80:84]))
	if len(b) != 84+50*n {
		return nil, fmt.Errorf("count field %d disagrees with file length %d (%d records)", n, len(b), (len(b)-84)/50)
	}
	ids := make([]int, n)
	for i := 0; i < n; i++ {
		ids[i] = int(math.Float32frombits(binary.LittleEndian.Uint32(b[84+50*i+12:])))
	}
	return ids, nil
}

func c11Read3MF(path string) ([]int, error) {
	r, err := go3mf.OpenReader(path)
	if err != nil {
		return nil, err
	}
	defer r.Close()
	var m go3mf.Model
	if err := r.Decode(&m); err != nil {
		return nil, err
	}
	var ids []int
	for _, o := range m.Resources.Objects {
		if o.Mesh == nil {
			continue
		}
		for _, t := range o.Mesh.Triangles.Triangle {
			ids = append(ids, int(o.Mesh.Vertices.Vertex[t.V1].X()))
		}
	}
	return ids, nil
}

func c11ReadDXF(path string) ([]int, error) {
	d, err := dxf.FromFile(path)
	if err != nil {
		return nil, err
	}
	var ids []int
	for _, e := range d.Entities() {
		if l, ok := e.(*entity.Line); ok {
			ids = append(ids, int(math.Round(l.Start[0])))
		}
	}
	return ids, nil
}

func c11ReadSVG(path string) ([]int, error) {
	b, err := os.ReadFile(path)
	if err != nil {
		return nil, err
	}
	var doc struct {
		Lines []struct {
			X1 string `xml:"x1,attr"`
		} `xml:"line"`
	}
	if err := xml.Unmarshal(b, &doc); err != nil {
		return nil, err
	}
	var ids []int
	for _, l := range doc.Lines {
		f, err := strconv.ParseFloat(l.X1, 64)
		if err != nil {
			return nil, err
		}
		ids = append(ids, int(math.Round(f)))
	}
	return ids, nil
}

func shardC11(c *Ctx, shard, nshards int) {
	dir := scratch()
	defer cleanupScratch()
	sinks := []string{"ToTriangles", "Triangle3Buffer", "Line2Buffer", "Triangle3Buffer-queued", "Line2Buffer-queued", "ToSTL", "To3MF", "ToDXF", "ToSVG"}
	partitions := []string{"singles", "one", "empties", "straddle", "random", "multipart"}
	caseNo := 0
	shape3, _ := sdf.Sphere3D(1)
	shape2, _ := sdf.Circle2D(1)
	for _, sink := range sinks {
		T := 256
		if strings.HasPrefix(sink, "Line2Buffer") || sink == "ToDXF" || sink == "ToSVG" {
			T = 128
		}
		counts := []int{0, 1, 2, T - 1, T, T + 1, 2*T - 1, 2 * T, 2*T + 1, 1000, 5000}
		if !c.Quick {
			counts = counts[:0]
			for n := 0; n <= 4*T+3; n++ {
				counts = append(counts, n)
			}
			counts = append(counts, 5000, 20000, 100000)
		}
		for _, n := range counts {
			for pi, part := range partitions {
				for _, P := range []int{1, 2, 3, 8} {
					if part == "multipart" && P != 1 {
						continue // Close from one producer while others write has no defined meaning
					}
					if !c.Quick && n > 2*T+1 && (pi+n+P)%4 != 0 {
						continue // thin out the large thorough grid
					}
					if part == "singles" && n > 3000 {
						continue
					}
					caseNo++
					if (caseNo-1)%nshards != shard {
						continue
					}
					r := c.Rng("case", sink, n, part, P)
					plan := &c11Plan{Sink: sink, Count: n, Partition: part, Producers: P, Slow: r.P(0.3), Seed: fmt.Sprintf("case/%s/%d/%s/%d", sink, n, part, P)}
					// split n items over P producers, then each producer's share into batches
					for p := 0; p < P; p++ {
						share := n / P
						if p < n%P {
							share++
						}
						plan.Batches = append(plan.Batches, c11Batches(r, share, part, T))
					}
					c11RunCase(c, plan, r, T, dir, shape3, shape2)
				}
			}
		}
	}
}

// c11Preexisting: in some histories the output path already holds a file from an earlier export - a longer one (a finer
// render of a bigger part through a stock renderer) or unrelated bytes. What the sink holds afterwards must be this render only.
func c11Preexisting(c *Ctx, r *Rng, path string, plan *c11Plan) {
	switch r.I(5) {
	case 0:
		sph, _ := sdf.Sphere3D(1)
		cir, _ := sdf.Circle2D(1)
		cells := 10 + plan.Count/40
		if cells > 60 {
			cells = 60
		}
		switch filepath.Ext(path) {
		case ".stl":
			render.ToSTL(sph, path, render.NewMarchingCubesUniform(cells))
		case ".3mf":
			render.To3MF(sph, path, render.NewMarchingCubesUniform(cells))
		case ".dxf":
			render.ToDXF(cir, path, render.NewMarchingSquaresUniform(40*cells))
		case ".svg":
			render.ToSVG(cir, path, render.NewMarchingSquaresUniform(40*cells))
		}
		c.Count("histories_with_an_earlier_export_at_the_path", 1)
	case 1:
		os.WriteFile(path, bytes.Repeat([]byte("stale bytes of an earlier, longer file\n"), 200+plan.Count*8), 0644)
		c.Count("histories_with_unrelated_bytes_at_the_path", 1)
	}
}

func c11RunCase(c *Ctx, plan *c11Plan, r *Rng, T int, dir string, shape3 sdf.SDF3, shape2 sdf.SDF2) {
	var got []int
	var err error
	var batchSizes []int
	path := filepath.Join(dir, "c11out")
	switch plan.Sink {
	case "ToTriangles":
		ts := render.ToTriangles(shape3, &c11R3{plan, r})
		for _, t := range ts {
			got = append(got, int(t[0].X))
		}
	case "Triangle3Buffer":
		ch := make(chan []*sdf.Triangle3)
		done := make(chan struct{})
		go func() {
			for ts := range ch {
				batchSizes = append(batchSizes, len(ts))
				for _, t := range ts {
					got = append(got, int(t[0].X))
				}
				if plan.Slow {
					for y := 0; y < 20; y++ {
						runtime.Gosched()
					}
				}
			}
			close(done)
		}()
		(&c11R3{plan, r}).Render(shape3, sdf.NewTriangle3Buffer(ch))
		close(ch)
		<-done
	case "Line2Buffer":
		ch := make(chan []*sdf.Line2)
		done := make(chan struct{})
		go func() {
			for ls := range ch {
				batchSizes = append(batchSizes, len(ls))
				for _, l := range ls {
					got = append(got, int(l[0].X))
				}
				if plan.Slow {
					for y := 0; y < 20; y++ {
						runtime.Gosched()
					}
				}
			}
			close(done)
		}()
		(&c11R2{plan, r}).Render(shape2, sdf.NewLine2Buffer(ch))
		close(ch)
		<-done
	case "Triangle3Buffer-queued": // a buffered caller-owned channel drained only after the renderer has returned
		ch := make(chan []*sdf.Triangle3, 1<<16)
		(&c11R3{plan, r}).Render(shape3, sdf.NewTriangle3Buffer(ch))
		close(ch)
		for ts := range ch {
			batchSizes = append(batchSizes, len(ts))
			for _, t := range ts {
				got = append(got, int(t[0].X))
			}
		}
	case "Line2Buffer-queued":
		ch := make(chan []*sdf.Line2, 1<<16)
		(&c11R2{plan, r}).Render(shape2, sdf.NewLine2Buffer(ch))
		close(ch)
		for ls := range ch {
			batchSizes = append(batchSizes, len(ls))
			for _, l := range ls {
				got = append(got, int(l[0].X))
			}
		}
	case "ToSTL":
		path += ".stl"
		c11Preexisting(c, r, path, plan)
		render.ToSTL(shape3, path, &c11R3{plan, r})
		got, err = c11ReadSTL(path)
	case "To3MF":
		path += ".3mf"
		c11Preexisting(c, r, path, plan)
		render.To3MF(shape3, path, &c11R3{plan, r})
		got, err = c11Read3MF(path)
	case "ToDXF":
		path += ".dxf"
		c11Preexisting(c, r, path, plan)
		render.ToDXF(shape2, path, &c11R2{plan, r})
		got, err = c11ReadDXF(path)
	case "ToSVG":
		path += ".svg"
		c11Preexisting(c, r, path, plan)
		render.ToSVG(shape2, path, &c11R2{plan, r})
		got, err = c11ReadSVG(path)
	}
	os.Remove(path)
	c.Eval(1)
	tag := fmt.Sprintf("%s count=%d partition=%s producers=%d", plan.Sink, plan.Count, plan.Partition, plan.Producers)
	replay := map[string]any{"plan": plan, "batches": plan.Batches}
	if err != nil {
		c.Violate("", fmt.Sprintf("sink-unreadable %s: %v", tag, err), replay)
		return
	}
	// exactly once
	seen := make(map[int]int, len(got))
	for _, id := range got {
		seen[id]++
	}
	lost, dup, alien := 0, 0, 0
	firstLost, firstDup := -1, -1
	for id := 0; id < plan.Count; id++ {
		switch k := seen[id]; {
		case k == 0:
			if lost == 0 {
				firstLost = id
			}
			lost++
		case k > 1:
			if dup == 0 {
				firstDup = id
			}
			dup++
		}
	}
	for id := range seen {
		if id < 0 || id >= plan.Count {
			alien++
		}
	}
	if lost+dup+alien > 0 || len(got) != plan.Count {
		replay["delivered"] = len(got)
		c.Violate("", fmt.Sprintf("not-exactly-once %s: %d delivered; %d ids lost (first %d), %d duplicated (first %d), %d unknown", tag, len(got), lost, firstLost, dup, firstDup, alien), replay)
		return
	}
	if plan.Producers == 1 && !sort.IntsAreSorted(got) {
		at := 0
		for i := 1; i < len(got); i++ {
			if got[i] < got[i-1] {
				at = i
				break
			}
		}
		c.Violate("", fmt.Sprintf("reordered %s: single-producer sequence changed at position %d (%d after %d)", tag, at, got[at], got[at-1]), replay)
		return
	}
	// bare buffers: no empty deliveries, nothing delivered after the threshold is exceeded without a flush
	for _, b := range batchSizes {
		if b == 0 {
			c.Count("empty_channel_deliveries", 1)
		}
	}
	// interleaving fingerprint: sequence of producer ids at the sink
	h := fnv.New64a()
	switches := 0
	for i, id := range got {
		p := id % plan.Producers
		h.Write([]byte{byte(p)})
		if i > 0 && p != got[i-1]%plan.Producers {
			switches++
		}
	}
	nontrivial := false
	if plan.Producers == 1 {
		nontrivial = plan.Count > T && plan.Count%T != 0
	} else {
		nontrivial = switches >= plan.Producers // producers really overlapped at the sink
	}
	if nontrivial {
		c.Distinct(fmt.Sprintf("%s/%x", tag, h.Sum64()))
	}
	c.Count("items_accounted_for", int64(len(got)))
	if plan.Producers > 1 {
		c.Count("multi_producer_histories", 1)
		if switches >= plan.Producers {
			c.Count("multi_producer_histories_with_real_interleaving", 1)
		}
	}
	if plan.Count == 2*T+1 && plan.Producers == 2 && plan.Partition == "straddle" {
		c.Sample(map[string]any{"plan": plan, "batches": plan.Batches, "delivered": len(got), "producer_switches_at_sink": switches, "channel_batches": batchSizes})
	}
	_ = strings.Join
}
