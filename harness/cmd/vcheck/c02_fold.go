//go:build verif

// C02 addition: a blend installed on a union is the installed function folded over the operands' own values, in operand
// order - also when an operand is itself a union (plain or blended), when the blend is installed on an inner union after
// the outer one was built, and for unions of many operands.
package main

import (
	"fmt"
	"github.com/deadsy/sdfx/vec/v2i"
	"github.com/deadsy/sdfx/vec/v3i"
	"math"

	"github.com/deadsy/sdfx/sdf"
	v2 "github.com/deadsy/sdfx/vec/v2"
	v3 "github.com/deadsy/sdfx/vec/v3"
)

func c02Fold(c *Ctx) {
	n := c.Pick(1200, 20000)
	parallelFor(n, func(i int) {
		r := c.Rng("fold", i)
		scale := r.LogR(0.1, 50)
		k := scale * r.LogR(0.02, 2)
		mins := []struct {
			name string
			f    sdf.MinFunc
		}{{"PolyMin", sdf.PolyMin(k)}, {"RoundMin", sdf.RoundMin(k)}, {"ChamferMin", sdf.ChamferMin(k)}}
		mf := mins[(i/6)%3]
		nOps := pickOne(r, []int{2, 2, 3, 4, 16, 17, 24, 40})
		// 0 flat, 1 first operand is a plain union, 2 first operand is a union blended later, 3 flat wide;
		// 4 / 5: the outer union keeps the plain minimum and its first operand is a union blended after / before the outer
		// union was built (an outer union must not look through a nested union whose minimum can still change)
		mode := i % 6
		outerPlain := mode >= 4
		if outerPlain {
			mf.name, mf.f = "Min", math.Min
		}
		dim := 3 - (i/6)%2
		fold := func(vals []float64, f sdf.MinFunc) float64 {
			d := vals[0]
			for _, v := range vals[1:] {
				d = f(d, v)
			}
			return d
		}
		var desc string
		var eval func(r *Rng) (got, want float64, p any)
		if dim == 3 {
			leafAt := func() sdf.SDF3 {
				l := leaf3(r, scale)
				return sdf.Transform3D(l.s3, sdf.Translate3d(v3.Vec{X: r.R(-2, 2) * scale, Y: r.R(-2, 2) * scale, Z: r.R(-1, 1) * scale}))
			}
			var ops []sdf.SDF3
			for j := 0; j < nOps; j++ {
				ops = append(ops, leafAt())
			}
			var inner *sdf.UnionSDF3
			var x, y sdf.SDF3
			innerF := sdf.MinFunc(math.Min)
			if mode == 1 || mode == 2 || outerPlain {
				x, y = leafAt(), leafAt()
				inner = sdf.Union3D(x, y).(*sdf.UnionSDF3)
				ops[0] = inner
				if mode == 5 {
					innerF = sdf.PolyMin(k / 2)
					inner.SetMin(innerF)
				}
			}
			u := sdf.Union3D(ops...).(*sdf.UnionSDF3)
			if !outerPlain {
				u.SetMin(mf.f)
			}
			if mode == 2 || mode == 4 { // the inner blend is installed after the outer union exists
				innerF = sdf.PolyMin(k / 2)
				inner.SetMin(innerF)
			}
			bb := u.BoundingBox()
			desc = fmt.Sprintf("Union3D[%d operands, mode %d]+%s(k=%.4g)", nOps, mode, mf.name, k)
			eval = func(r *Rng) (float64, float64, any) {
				p := samplePoint3(r, bb, nil)
				vals := make([]float64, len(ops))
				for j, o := range ops {
					vals[j] = o.Evaluate(p)
				}
				if inner != nil {
					vals[0] = innerF(x.Evaluate(p), y.Evaluate(p))
				}
				return u.Evaluate(p), fold(vals, mf.f), p
			}
		} else {
			leafAt := func() sdf.SDF2 {
				l := leaf2(r, scale)
				return sdf.Transform2D(l.s2, sdf.Translate2d(v2.Vec{X: r.R(-2, 2) * scale, Y: r.R(-2, 2) * scale}))
			}
			var ops []sdf.SDF2
			for j := 0; j < nOps; j++ {
				ops = append(ops, leafAt())
			}
			var inner *sdf.UnionSDF2
			var x, y sdf.SDF2
			innerF := sdf.MinFunc(math.Min)
			if mode == 1 || mode == 2 || outerPlain {
				x, y = leafAt(), leafAt()
				inner = sdf.Union2D(x, y).(*sdf.UnionSDF2)
				ops[0] = inner
				if mode == 5 {
					innerF = sdf.PolyMin(k / 2)
					inner.SetMin(innerF)
				}
			}
			u := sdf.Union2D(ops...).(*sdf.UnionSDF2)
			// history: evaluate once with the default minimum before the blend is installed
			bb := u.BoundingBox()
			warm := samplePoint2(r, bb, nil)
			u.Evaluate(warm)
			if !outerPlain {
				u.SetMin(mf.f)
			}
			if mode == 2 || mode == 4 {
				innerF = sdf.PolyMin(k / 2)
				inner.SetMin(innerF)
			}
			desc = fmt.Sprintf("Union2D[%d operands, mode %d]+%s(k=%.4g)", nOps, mode, mf.name, k)
			first := true
			eval = func(r *Rng) (float64, float64, any) {
				p := samplePoint2(r, bb, nil)
				if outerPlain {
					// the plain outer union prunes by box distance; a blended operand may dip below the distance to its own
					// box (known finding C16), so the nested union is judged where it cannot be pruned: inside its box
					ib := inner.BoundingBox()
					p = v2.Vec{X: r.R(ib.Min.X, ib.Max.X), Y: r.R(ib.Min.Y, ib.Max.Y)}
				} else if first { // the very point evaluated before SetMin
					p, first = warm, false
				}
				vals := make([]float64, len(ops))
				for j, o := range ops {
					vals[j] = o.Evaluate(p)
				}
				if inner != nil {
					vals[0] = innerF(x.Evaluate(p), y.Evaluate(p))
				}
				return u.Evaluate(p), fold(vals, mf.f), p
			}
		}
		blended := false
		for q := 0; q < 200; q++ {
			got, want, p := eval(r)
			tol := 1e-9 * (scale + math.Abs(want))
			if math.Abs(got-want) > tol || math.IsNaN(got) != math.IsNaN(want) {
				c.Violate("", fmt.Sprintf("blend-fold %s at p=%v: Evaluate=%.12g, installed function folded over the operand values=%.12g", desc, p, got, want),
					map[string]any{"shape": desc, "p": p, "got": got, "want": want, "index": i})
				break
			}
			if q > 0 {
				blended = true
			}
		}
		c.Eval(200)
		if blended {
			c.Distinct(fmt.Sprintf("blendfold/%dd/%s/%d/%d/%d", dim, mf.name, nOps, mode, i%7))
		}
	})
}

// c02LateBlend: construction-order equivalence. The same operands are combined twice: once the blend is installed on the
// union / difference before it is wrapped into another combinator, once after the whole expression has been built. Nothing
// may be computed from the unblended node at construction time and kept: both expressions must evaluate bit-identically.
func c02LateBlend(c *Ctx) {
	n := c.Pick(900, 9000)
	parallelFor(n, func(i int) {
		r := c.Rng("lateblend", i)
		scale := r.LogR(0.1, 50)
		k := scale * r.LogR(0.05, 2)
		dim := 3 - i%2
		// everything random is drawn once; build() is a pure function of these draws
		x3, y3 := leaf3(r, scale), leaf3(r, scale)
		x2, y2 := leaf2(r, scale), leaf2(r, scale)
		off3 := v3.Vec{X: r.R(-1, 1) * scale, Y: r.R(-1, 1) * scale, Z: r.R(-1, 1) * scale}
		off2 := v2.Vec{X: off3.X, Y: off3.Y}
		useDiff := r.P(0.3)
		wrap := r.I(12)
		h3 := v3.Vec{X: scale * r.R(0.2, 1.5), Y: scale * r.R(0.2, 1.5), Z: scale * r.R(0.2, 1.5)}
		ang := r.R(0.1, 6.2)
		d := scale * r.R(0.05, 0.4)
		m3, _ := rigid3(r, scale)
		m2, _ := rigid2(r, scale)
		other3 := sdf.Transform3D(leaf3(r, scale).s3, sdf.Translate3d(v3.Vec{X: 2.5 * scale}))
		other2 := sdf.Transform2D(leaf2(r, scale).s2, sdf.Translate2d(v2.Vec{X: 2.5 * scale}))
		wname := ""
		build := func(blendFirst bool) (s2 sdf.SDF2, s3 sdf.SDF3, later func()) {
			later = func() {}
			if dim == 3 {
				b := sdf.Transform3D(y3.s3, sdf.Translate3d(off3))
				var node sdf.SDF3
				var set func()
				if useDiff {
					dn := sdf.Difference3D(x3.s3, b).(*sdf.DifferenceSDF3)
					node, set = dn, func() { dn.SetMax(sdf.PolyMax(k)) }
				} else {
					un := sdf.Union3D(x3.s3, b).(*sdf.UnionSDF3)
					node, set = un, func() { un.SetMin(sdf.PolyMin(k)) }
				}
				if blendFirst {
					set()
				} else {
					later = set
				}
				switch wrap {
				case 0:
					s3, wname = sdf.Elongate3D(node, h3), "Elongate3D"
				case 1:
					s3, wname = sdf.Transform3D(node, m3), "Transform3D"
				case 2:
					s3, wname = sdf.Offset3D(node, d), "Offset3D"
				case 3:
					s3, _ = sdf.Shell3D(node, d)
					wname = "Shell3D"
				case 4:
					s3, wname = sdf.Array3D(node, v3i.Vec{X: 2, Y: 2, Z: 1}, h3.MulScalar(3)), "Array3D"
				case 5:
					s3, wname = sdf.RotateCopy3D(sdf.Transform3D(node, sdf.Translate3d(v3.Vec{X: 3 * scale})), 5), "RotateCopy3D"
				case 6:
					s3, wname = sdf.RotateUnion3D(sdf.Transform3D(node, sdf.Translate3d(v3.Vec{X: 3 * scale})), 4, sdf.RotateZ(ang)), "RotateUnion3D"
				case 7:
					s3, wname = sdf.Cut3D(node, v3.Vec{}, v3.Vec{X: 1, Y: 0.3, Z: -0.2}), "Cut3D"
				case 8:
					s3, wname = sdf.Intersect3D(node, other3), "Intersect3D"
				case 9:
					s3, wname = sdf.Difference3D(node, other3), "Difference3D"
				case 10:
					s3, wname = sdf.ScaleUniform3D(node, 1.7), "ScaleUniform3D"
				default:
					s3, wname = sdf.Union3D(node, other3), "Union3D"
				}
				return
			}
			b := sdf.Transform2D(y2.s2, sdf.Translate2d(off2))
			var node sdf.SDF2
			var set func()
			if useDiff {
				dn := sdf.Difference2D(x2.s2, b).(*sdf.DifferenceSDF2)
				node, set = dn, func() { dn.SetMax(sdf.PolyMax(k)) }
			} else {
				un := sdf.Union2D(x2.s2, b).(*sdf.UnionSDF2)
				node, set = un, func() { un.SetMin(sdf.PolyMin(k)) }
			}
			if blendFirst {
				set()
			} else {
				later = set
			}
			switch wrap {
			case 0:
				s2, wname = sdf.Elongate2D(node, v2.Vec{X: h3.X, Y: h3.Y}), "Elongate2D"
			case 1:
				s2, wname = sdf.Transform2D(node, m2), "Transform2D"
			case 2:
				s2, wname = sdf.Offset2D(node, d), "Offset2D"
			case 3:
				s2, wname = sdf.Array2D(node, v2i.Vec{X: 2, Y: 3}, v2.Vec{X: 3 * h3.X, Y: 3 * h3.Y}), "Array2D"
			case 4:
				s2, wname = sdf.RotateCopy2D(sdf.Transform2D(node, sdf.Translate2d(v2.Vec{X: 3 * scale})), 5), "RotateCopy2D"
			case 5:
				s2, wname = sdf.RotateUnion2D(sdf.Transform2D(node, sdf.Translate2d(v2.Vec{X: 3 * scale})), 4, sdf.Rotate2d(ang)), "RotateUnion2D"
			case 6:
				s2, wname = sdf.Cut2D(node, v2.Vec{}, v2.Vec{X: 1, Y: 0.3}), "Cut2D"
			case 7:
				s3, wname = sdf.Extrude3D(node, h3.Z), "Extrude3D"
			case 8:
				s3, wname = sdf.TwistExtrude3D(node, h3.Z, ang), "TwistExtrude3D"
			case 9:
				s3, wname = sdf.ScaleExtrude3D(node, h3.Z, v2.Vec{X: 0.6, Y: 1.4}), "ScaleExtrude3D"
			case 10:
				s2, wname = sdf.Intersect2D(node, other2), "Intersect2D"
			default:
				s2, wname = sdf.Union2D(node, other2), "Union2D"
			}
			return
		}
		e2, e3, _ := build(true)
		l2, l3, later := build(false)
		if e2 == nil && e3 == nil || l2 == nil && l3 == nil {
			return
		}
		later()
		c.Eval(1)
		for q := 0; q < 120; q++ {
			var a, b float64
			var p any
			if l3 != nil {
				pp := samplePoint3(r, l3.BoundingBox(), nil)
				if q%3 == 0 { // near the origin of the node: cores of elongations, axes of copies
					pp = v3.Vec{X: r.N() * 0.3 * scale, Y: r.N() * 0.3 * scale, Z: r.N() * 0.3 * scale}
				}
				a, b, p = l3.Evaluate(pp), e3.Evaluate(pp), pp
			} else {
				pp := samplePoint2(r, l2.BoundingBox(), nil)
				if q%3 == 0 {
					pp = v2.Vec{X: r.N() * 0.3 * scale, Y: r.N() * 0.3 * scale}
				}
				a, b, p = l2.Evaluate(pp), e2.Evaluate(pp), pp
			}
			if math.Float64bits(a) != math.Float64bits(b) && !(math.IsNaN(a) && math.IsNaN(b)) {
				c.Violate("", fmt.Sprintf("construction-order %s around a %dD %s: blend installed after wrapping gives %.17g, before wrapping %.17g at p=%v",
					wname, dim, map[bool]string{true: "difference+PolyMax", false: "union+PolyMin"}[useDiff], a, b, p), map[string]any{"wrapper": wname, "index": i, "p": p})
				return
			}
		}
		c.Distinct(fmt.Sprintf("lateblend/%d/%s/%v", dim, wname, useDiff))
	})
}
