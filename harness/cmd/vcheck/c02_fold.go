//go:build verif

// C02 addition: a blend installed on a union is the installed function folded over the operands' own values, in operand
// order - also when an operand is itself a union (plain or blended), when the blend is installed on an inner union after
// the outer one was built, and for unions of many operands.
package main

import (
	"fmt"
	"math"

	"github.com/deadsy/sdfx/sdf"
	v2 "github.com/deadsy/sdfx/vec/v2"
	v3 "github.com/deadsy/sdfx/vec/v3"
)

func c02Fold(c *Ctx) {
	n := c.Pick(1200, 20000)
	parallelFor(n, func(i int) {
		r := c.Rng("fold", i)
		scale := r.LogR(0.1, 50)
		k := scale * r.LogR(0.02, 2)
		mins := []struct {
			name string
			f    sdf.MinFunc
		}{{"PolyMin", sdf.PolyMin(k)}, {"RoundMin", sdf.RoundMin(k)}, {"ChamferMin", sdf.ChamferMin(k)}}
		mf := mins[(i/6)%3]
		nOps := pickOne(r, []int{2, 2, 3, 4, 16, 17, 24, 40})
		// 0 flat, 1 first operand is a plain union, 2 first operand is a union blended later, 3 flat wide;
		// 4 / 5: the outer union keeps the plain minimum and its first operand is a union blended after / before the outer
		// union was built (an outer union must not look through a nested union whose minimum can still change)
		mode := i % 6
		outerPlain := mode >= 4
		if outerPlain {
			mf.name, mf.f = "Min", math.Min
		}
		dim := 3 - (i/6)%2
		fold := func(vals []float64, f sdf.MinFunc) float64 {
			d := vals[0]
			for _, v := range vals[1:] {
				d = f(d, v)
			}
			return d
		}
		var desc string
		var eval func(r *Rng) (got, want float64, p any)
		if dim == 3 {
			leafAt := func() sdf.SDF3 {
				l := leaf3(r, scale)
				return sdf.Transform3D(l.s3, sdf.Translate3d(v3.Vec{X: r.R(-2, 2) * scale, Y: r.R(-2, 2) * scale, Z: r.R(-1, 1) * scale}))
			}
			var ops []sdf.SDF3
			for j := 0; j < nOps; j++ {
				ops = append(ops, leafAt())
			}
			var inner *sdf.UnionSDF3
			var x, y sdf.SDF3
			innerF := sdf.MinFunc(math.Min)
			if mode == 1 || mode == 2 || outerPlain {
				x, y = leafAt(), leafAt()
				inner = sdf.Union3D(x, y).(*sdf.UnionSDF3)
				ops[0] = inner
				if mode == 5 {
					innerF = sdf.PolyMin(k / 2)
					inner.SetMin(innerF)
				}
			}
			u := sdf.Union3D(ops...).(*sdf.UnionSDF3)
			if !outerPlain {
				u.SetMin(mf.f)
			}
			if mode == 2 || mode == 4 { // the inner blend is installed after the outer union exists
				innerF = sdf.PolyMin(k / 2)
				inner.SetMin(innerF)
			}
			bb := u.BoundingBox()
			desc = fmt.Sprintf("Union3D[%d operands, mode %d]+%s(k=%.4g)", nOps, mode, mf.name, k)
			eval = func(r *Rng) (float64, float64, any) {
				p := samplePoint3(r, bb, nil)
				vals := make([]float64, len(ops))
				for j, o := range ops {
					vals[j] = o.Evaluate(p)
				}
				if inner != nil {
					vals[0] = innerF(x.Evaluate(p), y.Evaluate(p))
				}
				return u.Evaluate(p), fold(vals, mf.f), p
			}
		} else {
			leafAt := func() sdf.SDF2 {
				l := leaf2(r, scale)
				return sdf.Transform2D(l.s2, sdf.Translate2d(v2.Vec{X: r.R(-2, 2) * scale, Y: r.R(-2, 2) * scale}))
			}
			var ops []sdf.SDF2
			for j := 0; j < nOps; j++ {
				ops = append(ops, leafAt())
			}
			var inner *sdf.UnionSDF2
			var x, y sdf.SDF2
			innerF := sdf.MinFunc(math.Min)
			if mode == 1 || mode == 2 || outerPlain {
				x, y = leafAt(), leafAt()
				inner = sdf.Union2D(x, y).(*sdf.UnionSDF2)
				ops[0] = inner
				if mode == 5 {
					innerF = sdf.PolyMin(k / 2)
					inner.SetMin(innerF)
				}
			}
			u := sdf.Union2D(ops...).(*sdf.UnionSDF2)
			// history: evaluate once with the default minimum before the blend is installed
			bb := u.BoundingBox()
			warm := samplePoint2(r, bb, nil)
			u.Evaluate(warm)
			if !outerPlain {
				u.SetMin(mf.f)
			}
			if mode == 2 || mode == 4 {
				innerF = sdf.PolyMin(k / 2)
				inner.SetMin(innerF)
			}
			desc = fmt.Sprintf("Union2D[%d operands, mode %d]+%s(k=%.4g)", nOps, mode, mf.name, k)
			first := true
			eval = func(r *Rng) (float64, float64, any) {
				p := samplePoint2(r, bb, nil)
				if outerPlain {
					// the plain outer union prunes by box distance; a blended operand may dip below the distance to its own
					// box (known finding C16), so the nested union is judged where it cannot be pruned: inside its box
					ib := inner.BoundingBox()
					p = v2.Vec{X: r.R(ib.Min.X, ib.Max.X), Y: r.R(ib.Min.Y, ib.Max.Y)}
				} else if first { // the very point evaluated before SetMin
					p, first = warm, false
				}
				vals := make([]float64, len(ops))
				for j, o := range ops {
					vals[j] = o.Evaluate(p)
				}
				if inner != nil {
					vals[0] = innerF(x.Evaluate(p), y.Evaluate(p))
				}
				return u.Evaluate(p), fold(vals, mf.f), p
			}
		}
		blended := false
		for q := 0; q < 200; q++ {
			got, want, p := eval(r)
			tol := 1e-9 * (scale + math.Abs(want))
			if math.Abs(got-want) > tol || math.IsNaN(got) != math.IsNaN(want) {
				c.Violate("", fmt.Sprintf("blend-fold %s at p=%v: Evaluate=%.12g, installed function folded over the operand values=%.12g", desc, p, got, want),
					map[string]any{"shape": desc, "p": p, "got": got, "want": want, "index": i})
				break
			}
			if q > 0 {
				blended = true
			}
		}
		c.Eval(200)
		if blended {
			c.Distinct(fmt.Sprintf("blendfold/%dd/%s/%d/%d/%d", dim, mf.name, nOps, mode, i%7))
		}
	})
}
