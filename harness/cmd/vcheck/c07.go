//go:build verif

// C07 - hierarchical (octree / quadtree) rendering loses nothing.
package main

import (
	"fmt"
	"math"
	"os"
	"sync"
	"sync/atomic"
	"time"

	"github.com/deadsy/sdfx/render"
	"github.com/deadsy/sdfx/sdf"
	v2 "github.com/deadsy/sdfx/vec/v2"
	v3 "github.com/deadsy/sdfx/vec/v3"
)

func init() { checks["C07"] = checkC07 }

type c07Case struct {
	Index   int    `json:"index"`
	Dim     int    `json:"dim"`
	Cells   int    `json:"mesh_cells"`
	Family  string `json:"family"`
	Shape   string `json:"shape"`
	ScaleK  int    `json:"scale_pow2"`
	EvalsP  int64  `json:"evaluations_pruned"`
	EvalsU  int64  `json:"evaluations_unpruned"`
	TrisP   int    `json:"items_pruned"`
	TrisU   int    `json:"items_unpruned"`
	Comment string `json:"comment,omitempty"`
}

type triKey [9]float64

func checkC07(c *Ctx) {
	c.Rule("1-Lipschitz shapes (spheres, boxes, rounded boxes, capsules, unions/differences) wrapped with a prescribed bounding box so that " +
		"features can be positioned relative to the learned octree/quadtree: sphere tangent (+-delta) to a face of a coarse cube, surface " +
		"through a coarse cube's corner, features smaller than a coarse cube sitting in its corner, far-apart small features, random placements; " +
		"all octree depths 2..7(quick)/8. Oracle 1 (metamorphic): render(f) vs render(2^-k f) as multisets. Oracle 2 (independent): the harness " +
		"evaluates every finest cell of the lattice itself - every generic sign-changing cell must own output, every output item must lie in a " +
		"sign-changing cell. Non-trivial = the pruned render used strictly fewer evaluations than the unpruned one and emitted >= 1 item.")
	c.Assume("the shapes are 1-Lipschitz (the property's premise): exact primitives and min/max compositions of them")
	n3 := c.Pick(90, 2000)
	n2 := c.Pick(200, 5000)
	depths := map[string]bool{}
	if os.Getenv("VCHECK_ONLY") == "weakdeep" { // debugging aid
		c07WeakDeep(c)
		return
	}
	parallelFor(n3, func(i int) { c07Run3(c, i, depths) })
	parallelFor(n2, func(i int) { c07Run2(c, i, depths) })
	c07HighRes(c)
	c07HighRes2(c)
	c07Reuse(c)
	c07WeakDeep(c)
	// word size: the same high-resolution cases in a build of this harness for a platform whose int has 32 bits (lattice
	// indices packed into machine words, sizes and counts held in int)
	if bin := os.Getenv("VCHECK_386_BIN"); bin != "" {
		if _, err := os.Stat(bin); err == nil {
			c.runShardedBin("c07-wordsize", 1, 1, false, 30*time.Minute, bin)
			c.Count("word_size_variant_runs_GOARCH_386", 1)
		}
	} else {
		c.Count("word_size_variant_not_built", 1)
	}
	c.mu.Lock()
	ds := []string{}
	for k := range depths {
		ds = append(ds, k)
	}
	c.mu.Unlock()
	c.Obs("tree_depths_reached", sortedStrings(ds))
	c.Floor(c.Pick(100, 2000))
}

func init() {
	shardFns["c07-wordsize"] = func(c *Ctx, shard, nshards int) {
		c.Quick = true // the quick case lists (rods up to 1023 cells, bars up to 40000) are enough to cross the 32-bit limits
		c07HighRes(c)
		c07HighRes2(c)
	}
}

func sortedStrings(s []string) []string {
	for i := range s {
		for j := i + 1; j < len(s); j++ {
			if s[j] < s[i] {
				s[i], s[j] = s[j], s[i]
			}
		}
	}
	return s
}

//-----------------------------------------------------------------------------
// 3D

// c07Shape3 builds the composed field for case i inside box bb, using lattice lat for hostile placement.
func c07Shape3(r *Rng, lat *lattice3, bb sdf.Box3, family int) (func(p v3.Vec) float64, string, string) {
	cx, cy, cz := lat.cells()
	cell := lat.cellSize().X
	// pick a coarse cube: level L spans m = 2^(L-1) cells, aligned to multiples of m (cells)
	maxL := 1
	for (1 << uint(maxL)) <= minInt3(cx, cy, cz) {
		maxL++
	}
	pickCube := func() (v3.Vec, float64, int) {
		L := r.IR(2, maxL)
		m := 1 << uint(L-1)
		for m > minInt3(cx, cy, cz) {
			L--
			m >>= 1
		}
		ox, oy, oz := r.I(cx/m)*m, r.I(cy/m)*m, r.I(cz/m)*m
		return lat.corner(ox, oy, oz), float64(m) * cell, L
	}
	sphereAt := func(ctr v3.Vec, rad float64) func(v3.Vec) float64 {
		return func(p v3.Vec) float64 { return p.Sub(ctr).Length() - rad }
	}
	inside := func(p v3.Vec, margin float64) v3.Vec { // keep features inside bb with a margin
		lo, hi := bb.Min.AddScalar(margin), bb.Max.SubScalar(margin)
		return p.Clamp(lo, hi)
	}
	switch family {
	case 0: // small sphere sitting in the corner of a coarse cube
		o, side, L := pickCube()
		rad := cell * r.R(1.2, 2.5)
		corner := o.Add(v3.Vec{X: float64(r.I(2)) * side, Y: float64(r.I(2)) * side, Z: float64(r.I(2)) * side})
		ctr := o.AddScalar(side / 2)
		dir := corner.Sub(ctr).Normalize()
		gap := cell * r.R(0.01, 0.5)
		sc := inside(corner.Sub(dir.MulScalar(gap+rad*math.Sqrt(3))), rad+2*cell) // inscribed in the corner octant
		return sphereAt(sc, rad), "corner-feature", fmt.Sprintf("sphere r=%.4g in the corner of a level-%d cube (side %.4g) at %v", rad, L, side, sc)
	case 1: // sphere tangent to a face of a coarse cube, penetrating / missing by delta
		o, side, L := pickCube()
		rad := cell * r.R(1.5, 6)
		axis := r.I(3)
		delta := cell * pickOne(r, []float64{1e-9, 1e-6, 1e-3, 0.05, 0.3, -1e-9, -1e-6, -1e-3, -0.05})
		ctr := o.AddScalar(side / 2)
		sc := ctr
		sc.Set(axis, ctr.Get(axis)+side/2+rad-delta) // outside across the +axis face, penetrating by delta
		// slide along the face
		for a := 0; a < 3; a++ {
			if a != axis {
				sc.Set(a, ctr.Get(a)+r.R(-0.5, 0.5)*side)
			}
		}
		sc2 := inside(sc, rad+2*cell)
		return sphereAt(sc2, rad), "face-tangent", fmt.Sprintf("sphere r=%.4g tangent (delta=%.3g) to a face of a level-%d cube, centre %v", rad, delta, L, sc2)
	case 2: // box whose corner/face passes exactly through a coarse cube's corner
		o, side, L := pickCube()
		corner := o.Add(v3.Vec{X: float64(r.I(2)) * side, Y: float64(r.I(2)) * side, Z: float64(r.I(2)) * side})
		half := v3.Vec{X: cell * r.R(1.5, 5), Y: cell * r.R(1.5, 5), Z: cell * r.R(1.5, 5)}
		bc := inside(corner.Add(half.Mul(v3.Vec{X: r.Sign(), Y: r.Sign(), Z: r.Sign()})), half.MaxComponent()+2*cell)
		return func(p v3.Vec) float64 {
			d := p.Sub(bc).Abs().Sub(half)
			return d.Max(v3.Vec{}).Length() + math.Min(d.MaxComponent(), 0)
		}, "through-corner", fmt.Sprintf("box half=%v with a vertex on the corner of a level-%d cube, centre %v", half, L, bc)
	case 3: // thin plate inside one coarse cube
		o, side, L := pickCube()
		th := cell * r.R(0.6, 1.5)
		half := v3.Vec{X: cell * r.R(1.5, 3), Y: cell * r.R(1.5, 3), Z: th / 2}
		bc := inside(o.Add(v3.Vec{X: r.R(0.1, 0.9) * side, Y: r.R(0.1, 0.9) * side, Z: r.R(0.1, 0.9) * side}), half.MaxComponent()+2*cell)
		return func(p v3.Vec) float64 {
			d := p.Sub(bc).Abs().Sub(half)
			return d.Max(v3.Vec{}).Length() + math.Min(d.MaxComponent(), 0)
		}, "thin-plate", fmt.Sprintf("plate half=%v in a level-%d cube, centre %v", half, L, bc)
	case 6: // a sphere outside a coarse cube that clips one of its corners by a tiny fraction of the half diagonal: the centre
		// value is just below the radius at which the cube may be skipped
		o, side, L := pickCube()
		ctr := o.AddScalar(side / 2)
		bc := bb.Center()
		sg := func(a, b float64) float64 {
			if b >= a {
				return 1
			}
			return -1
		}
		dir := v3.Vec{X: sg(ctr.X, bc.X), Y: sg(ctr.Y, bc.Y), Z: sg(ctr.Z, bc.Z)}.Normalize() // the corner towards the middle of the box
		hd := 0.5 * math.Sqrt(3) * side
		eps := pickOne(r, []float64{1e-9, 1e-7, 1e-6, 3e-6, 1e-5, 2e-5, 1e-4, 1e-3, 1e-2})
		rad := cell * r.R(2, 8)
		sc := ctr.Add(dir.MulScalar(hd*(1-eps) + rad))
		return sphereAt(sc, rad), "corner-clip", fmt.Sprintf("sphere r=%.4g outside a level-%d cube (side %.4g), clipping its corner by %.0e of the half diagonal, centre %v", rad, L, side, eps, sc)
	case 4: // far-apart small features
		k := r.IR(2, 5)
		var cs []v3.Vec
		var rs []float64
		for j := 0; j < k; j++ {
			rad := cell * r.R(1.2, 3)
			cs = append(cs, inside(v3.Vec{X: r.R(bb.Min.X, bb.Max.X), Y: r.R(bb.Min.Y, bb.Max.Y), Z: r.R(bb.Min.Z, bb.Max.Z)}, rad+2*cell))
			rs = append(rs, rad)
		}
		return func(p v3.Vec) float64 {
			d := math.Inf(1)
			for j := range cs {
				d = math.Min(d, p.Sub(cs[j]).Length()-rs[j])
			}
			return d
		}, "far-apart", fmt.Sprintf("%d small spheres %v radii %v", k, cs, rs)
	default: // real sdfx CSG of exact primitives, random placement
		a, _ := sdf.Sphere3D(cell * r.R(2, 6))
		b, _ := sdf.Box3D(v3.Vec{X: cell * r.R(2, 8), Y: cell * r.R(2, 8), Z: cell * r.R(2, 8)}, cell*r.R(0, 0.9))
		ctr := bb.Center()
		m := sdf.Translate3d(ctr.Add(v3.Vec{X: r.R(-3, 3) * cell, Y: r.R(-3, 3) * cell, Z: r.R(-3, 3) * cell})).Mul(sdf.Rotate3d(v3.Vec{X: r.N(), Y: r.N(), Z: r.N()}.Normalize(), r.R(0, 6.28)))
		var s sdf.SDF3
		if r.Bool() {
			s = sdf.Union3D(sdf.Transform3D(a, sdf.Translate3d(ctr)), sdf.Transform3D(b, m))
		} else {
			s = sdf.Difference3D(sdf.Transform3D(a, sdf.Translate3d(ctr)), sdf.Transform3D(b, m))
		}
		return s.Evaluate, "csg", "sdfx union/difference of sphere and rounded box near the box centre"
	}
}

var c07Gate = newGate(12_000_000) // sum of lattice nodes in flight: the unpruned render keeps every node in the renderer's cache (~225 bytes each)

type latKey3 struct {
	bb    sdf.Box3
	cells int
}
type latEntry3 struct {
	once sync.Once
	lat  *lattice3
	err  error
}

var latCache3 sync.Map

func cachedLattice3(rd render.Render3, bb sdf.Box3, cells int) (*lattice3, error) {
	e, _ := latCache3.LoadOrStore(latKey3{bb, cells}, &latEntry3{})
	en := e.(*latEntry3)
	en.once.Do(func() { en.lat, en.err = learnLattice3(rd, bb) })
	return en.lat, en.err
}

func minInt3(a, b, c int) int {
	if b < a {
		a = b
	}
	if c < a {
		a = c
	}
	return a
}

func c07Run3(c *Ctx, i int, depths map[string]bool) {
	r := c.Rng("3d", i)
	cells := pickOne(r, []int{3, 5, 8, 10, 12, 16, 20, 24, 28, 32, 36, 40})
	if i%13 == 0 {
		cells = 64 // deep tree: a coarse cube much larger than a resolvable feature
	}
	if !c.Quick && r.P(0.25) {
		cells = pickOne(r, []int{48, 64, 80, 100, 120})
	}
	// the lattice depends only on (box, cells): boxes come from a small per-resolution pool so that the
	// (expensive, fully unpruned) learning render is shared between cases
	rb := c.Rng("box3", cells, r.I(c.Pick(2, 12)))
	scale := rb.LogR(0.3, 30)
	half := v3.Vec{X: scale * rb.R(0.6, 1), Y: scale * rb.R(0.6, 1), Z: scale * rb.R(0.6, 1)}
	ctr := v3.Vec{X: rb.R(-2, 2) * scale, Y: rb.R(-2, 2) * scale, Z: rb.R(-2, 2) * scale}
	bb := sdf.Box3{Min: ctr.Sub(half), Max: ctr.Add(half)}
	rd := render.NewMarchingCubesOctree(cells)
	defer c07Gate.enter(octreeNodes(cells))()
	lat, err := cachedLattice3(rd, bb, cells)
	if err != nil {
		c.Inconclusive("learn3: " + err.Error())
		return
	}
	if i%9 == 4 {
		c07Aborted3(r, bb, cells)
	}
	fn, family, desc := c07Shape3(r, lat, bb, i%7)
	if i%11 == 5 && lat.stride == 2 {
		// a field that is undefined (NaN) exactly at centres of finest cubes - the points the octree tests for emptiness but
		// no cell corner ever reads (e.g. a zero-radius blend on a mirror plane gives 0/0 there). An undefined centre value
		// is no evidence that a cube is empty.
		odd := func(coords []float64) map[float64]bool {
			m := map[float64]bool{}
			for j := 1; j < len(coords); j += 2 {
				m[coords[j]] = true
			}
			return m
		}
		ox, oy, oz := odd(lat.xs), odd(lat.ys), odd(lat.zs)
		base := fn
		sel := r.I(3)
		fn = func(p v3.Vec) float64 {
			hit := ox[p.X] && oy[p.Y] && oz[p.Z]
			if sel == 1 {
				hit = ox[p.X] // a whole plane of centres
			}
			if hit {
				return math.NaN()
			}
			return base(p)
		}
		family += "+nan-at-cell-centres"
	}
	cs := c07Case{Index: i, Dim: 3, Cells: cells, Family: family, Shape: desc}
	// pruned render
	var nP, nU, affected3 int64
	var kk int
	recP := &fieldSDF3{bb: bb, fn: func(p v3.Vec) float64 {
		v := fn(p)
		atomic.AddInt64(&nP, 1)
		if a := math.Abs(v); a >= snapEps && math.Ldexp(a, -kk) < snapEps {
			atomic.AddInt64(&affected3, 1)
		}
		return v
	}}
	// unpruned render: 2^-k f with k such that every value is below the smallest half diagonal
	maxAbs := 0.0
	for _, p := range bb.Vertices() {
		maxAbs = math.Max(maxAbs, math.Abs(fn(p)))
	}
	maxAbs += bb.Size().Length() // 1-Lipschitz: no value in the box exceeds a corner value + diagonal
	cell := lat.cellSize().MinComponent()
	k := 0
	for math.Ldexp(maxAbs, -k) >= 0.25*cell {
		k++
	}
	cs.ScaleK = k
	kk = k
	tp := render.ToTriangles(recP, rd)
	recU := &fieldSDF3{bb: bb, fn: func(p v3.Vec) float64 { atomic.AddInt64(&nU, 1); return math.Ldexp(fn(p), -k) }}
	tu := render.ToTriangles(recU, rd)
	cs.EvalsP, cs.EvalsU, cs.TrisP, cs.TrisU = nP, nU, len(tp), len(tu)
	c.Eval(1)
	c.mu.Lock()
	depths[fmt.Sprintf("octree:%d", bitsLen(len(lat.xs)-1))] = true
	c.mu.Unlock()
	if len(tu) > 0 && nP < nU {
		c.Distinct(fmt.Sprintf("3d/%s/%d/%d", family, cells, i))
		c.MaxObs("best_pruning_ratio_evals_unpruned_over_pruned", float64(nU)/float64(nP))
	}
	if i < 3 {
		c.Sample(cs)
	}
	// oracle 1: multisets must agree
	affected := affected3
	missing, extra := diffTriangles(tp, tu, 1e-6*cell)
	if missing+extra > 0 {
		if affected > 0 {
			c.Count("cases_skipped_scaled_value_crossed_snap_epsilon", 1)
		} else {
			c.Violate("", fmt.Sprintf("octree-loss cells=%d %s: pruned render has %d triangles, exhaustive (2^-%d f) has %d; %d missing, %d extra; evaluations %d vs %d; %s",
				cells, family, len(tp), k, len(tu), missing, extra, nP, nU, desc), cs)
		}
	}
	// oracle 2: independent sweep over all finest cells
	ncx, ncy, ncz := lat.cells()
	if int64(ncx+1)*int64(ncy+1)*int64(ncz+1) > 3_000_000 {
		return
	}
	vals := make([]float64, (ncx+1)*(ncy+1)*(ncz+1))
	at := func(a, b, e int) float64 { return vals[(a*(ncy+1)+b)*(ncz+1)+e] }
	for a := 0; a <= ncx; a++ {
		for b := 0; b <= ncy; b++ {
			for e := 0; e <= ncz; e++ {
				vals[(a*(ncy+1)+b)*(ncz+1)+e] = fn(lat.corner(a, b, e))
			}
		}
	}
	owned := make(map[[3]int]int)
	spurious := 0
	var spur v3.Vec
	btol := 1e-6 * cell
	for _, t := range tp {
		g := t[0].Add(t[1]).Add(t[2]).DivScalar(3)
		// a triangle lying in a lattice plane belongs to the cells on both sides
		as := cellsNear(lat.xs, lat.stride, g.X, btol)
		bs := cellsNear(lat.ys, lat.stride, g.Y, btol)
		es := cellsNear(lat.zs, lat.stride, g.Z, btol)
		okAny := false
		for _, a := range as {
			for _, b := range bs {
				for _, e := range es {
					owned[[3]int{a, b, e}]++
					neg, pos := 0, 0
					for q := 0; q < 8; q++ {
						if at(a+q&1, b+(q>>1)&1, e+(q>>2)&1) < 0 {
							neg++
						} else {
							pos++
						}
					}
					if neg > 0 && pos > 0 {
						okAny = true
					}
				}
			}
		}
		if !okAny {
			spurious++
			spur = g
		}
	}
	lost := 0
	var lostCell [3]int
	tau := 1e-9 * cell
	for a := 0; a < ncx; a++ {
		for b := 0; b < ncy; b++ {
			for e := 0; e < ncz; e++ {
				neg, pos, generic := 0, 0, true
				for q := 0; q < 8; q++ {
					v := at(a+q&1, b+(q>>1)&1, e+(q>>2)&1)
					if math.Abs(v) < tau {
						generic = false
					}
					if v < 0 {
						neg++
					} else {
						pos++
					}
				}
				if generic && neg > 0 && pos > 0 && owned[[3]int{a, b, e}] == 0 {
					if lost == 0 {
						lostCell = [3]int{a, b, e}
					}
					lost++
				}
			}
		}
	}
	c.Count("finest_cells_swept_by_independent_oracle", int64(ncx*ncy*ncz))
	if lost > 0 {
		c.Violate("", fmt.Sprintf("octree-lost-cells cells=%d %s: %d sign-changing finest cells own no triangle (first cell %v at %v); %s",
			cells, family, lost, lostCell, lat.corner(lostCell[0], lostCell[1], lostCell[2]), desc), cs)
	}
	if spurious > 0 {
		c.Violate("", fmt.Sprintf("octree-spurious cells=%d %s: %d triangles lie in cells without a sign change (e.g. centroid %v); %s", cells, family, spurious, spur, desc), cs)
	}
}

func bitsLen(n int) int {
	k := 0
	for n > 0 {
		k++
		n >>= 1
	}
	return k
}

// cellsNear returns the cells whose closed extent contains x within tol (one or two; none if outside).
func cellsNear(coords []float64, stride int, x, tol float64) []int {
	a, b := cellOf(coords, stride, x-tol), cellOf(coords, stride, x+tol)
	switch {
	case a < 0 && b < 0:
		return nil
	case a < 0:
		return []int{b}
	case b < 0 || a == b:
		return []int{a}
	}
	return []int{a, b}
}

// cellOf returns the cell index (corner units) containing x, or -1.
func cellOf(coords []float64, stride int, x float64) int {
	n := (len(coords) - 1) / stride
	lo, hi := 0, n
	if x < coords[0] || x > coords[n*stride] {
		return -1
	}
	for hi-lo > 1 {
		mid := (lo + hi) / 2
		if coords[mid*stride] <= x {
			lo = mid
		} else {
			hi = mid
		}
	}
	return lo
}

// diffTriangles compares two triangle lists as multisets: exact first, then within tol (zero-area leftovers dropped).
func diffTriangles(a, b []*sdf.Triangle3, tol float64) (missing, extra int) {
	key := func(t *sdf.Triangle3) triKey {
		return triKey{t[0].X, t[0].Y, t[0].Z, t[1].X, t[1].Y, t[1].Z, t[2].X, t[2].Y, t[2].Z}
	}
	cnt := map[triKey]int{}
	for _, t := range b {
		cnt[key(t)]++
	}
	var la []*sdf.Triangle3
	for _, t := range a {
		k := key(t)
		if cnt[k] > 0 {
			cnt[k]--
		} else {
			la = append(la, t)
		}
	}
	var lb []*sdf.Triangle3
	for _, t := range b {
		k := key(t)
		if cnt[k] > 0 {
			cnt[k]--
			lb = append(lb, t)
		}
	}
	if len(la) == 0 && len(lb) == 0 {
		return 0, 0
	}
	near := func(p, q v3.Vec) bool {
		return math.Abs(p.X-q.X) <= tol && math.Abs(p.Y-q.Y) <= tol && math.Abs(p.Z-q.Z) <= tol
	}
	sliver := func(t *sdf.Triangle3) bool { return near(t[0], t[1]) || near(t[1], t[2]) || near(t[2], t[0]) }
	used := make([]bool, len(lb))
	for _, t := range la {
		if sliver(t) {
			continue
		}
		found := false
		for j, u := range lb {
			if !used[j] && near(t[0], u[0]) && near(t[1], u[1]) && near(t[2], u[2]) {
				used[j], found = true, true
				break
			}
		}
		if !found {
			extra++ // present in a (pruned) but not in b
		}
	}
	for j, u := range lb {
		if !used[j] && !sliver(u) {
			missing++ // present in b (exhaustive) but not in a
		}
	}
	return missing, extra
}

//-----------------------------------------------------------------------------
// 2D

type segKey [4]float64

// c07Aborted2 / c07Aborted3 start a render of a disc / ball filling much of the box and let the shape panic after a few hundred
// evaluations; the panic is recovered here.
func c07Aborted2(r *Rng, bb sdf.Box2, cells int) {
	n, limit := 0, r.IR(50, 900)
	ctr, rad := bb.Center(), 0.4*bb.Size().X
	bad := &fieldSDF2{bb: bb, fn: func(p v2.Vec) float64 {
		if n++; n > limit {
			panic("c07: shape gives up")
		}
		return p.Sub(ctr).Length() - rad
	}}
	func() {
		defer func() { recover() }()
		collectLines(render.NewMarchingSquaresQuadtree(cells), bad)
	}()
}

func c07Aborted3(r *Rng, bb sdf.Box3, cells int) {
	var n int64
	limit := int64(r.IR(50, 3000))
	ctr, rad := bb.Center(), 0.4*bb.Size().X
	bad := &fieldSDF3{bb: bb, fn: func(p v3.Vec) float64 {
		if atomic.AddInt64(&n, 1) > limit {
			panic("c07: shape gives up")
		}
		return p.Sub(ctr).Length() - rad
	}}
	func() {
		defer func() { recover() }()
		render.ToTriangles(bad, render.NewMarchingCubesOctree(cells))
	}()
}

func c07Run2(c *Ctx, i int, depths map[string]bool) {
	r := c.Rng("2d", i)
	cells := pickOne(r, []int{3, 5, 8, 13, 16, 24, 32, 50, 64, 100, 128, 200, 256})
	scale := r.LogR(0.3, 30)
	half := v2.Vec{X: scale * r.R(0.6, 1), Y: scale * r.R(0.6, 1)}
	ctr := v2.Vec{X: r.R(-2, 2) * scale, Y: r.R(-2, 2) * scale}
	bb := sdf.Box2{Min: ctr.Sub(half), Max: ctr.Add(half)}
	rd := render.NewMarchingSquaresQuadtree(cells)
	lat, err := learnLattice2(rd, bb)
	if err != nil {
		c.Inconclusive("learn2: " + err.Error())
		return
	}
	if i%7 == 3 {
		// history: an earlier render of another outline at the same resolution was aborted - its shape panicked part-way and
		// the caller recovered (a user shape with a bug, a cancelled job). Nothing of it may survive into the next render.
		c07Aborted2(r, bb, cells)
	}
	cx, cy := lat.cells()
	cell := lat.cellSize().X
	maxL := 1
	for (1 << uint(maxL)) <= minInt3(cx, cy, cx) {
		maxL++
	}
	L := r.IR(2, maxL)
	m := 1 << uint(L-1)
	for m > minInt3(cx, cy, cx) {
		L--
		m >>= 1
	}
	o := lat.corner(r.I(cx/m)*m, r.I(cy/m)*m)
	side := float64(m) * cell
	inside := func(p v2.Vec, margin float64) v2.Vec {
		return p.Clamp(bb.Min.AddScalar(margin), bb.Max.SubScalar(margin))
	}
	var fn func(p v2.Vec) float64
	var family, desc string
	switch i % 6 {
	case 5: // a circle outside a coarse square that clips one of its corners by a tiny fraction of the half diagonal
		cc := o.AddScalar(side / 2)
		bc := bb.Center()
		dir := v2.Vec{X: 1, Y: 1}
		if bc.X < cc.X {
			dir.X = -1
		}
		if bc.Y < cc.Y {
			dir.Y = -1
		}
		dir = dir.Normalize()
		hd := 0.5 * math.Sqrt2 * side
		eps := pickOne(r, []float64{1e-9, 1e-7, 1e-6, 3e-6, 1e-5, 2e-5, 1e-4, 1e-3, 1e-2})
		rad := cell * r.R(2, 8)
		sc := cc.Add(dir.MulScalar(hd*(1-eps) + rad))
		fn = func(p v2.Vec) float64 { return p.Sub(sc).Length() - rad }
		family, desc = "corner-clip", fmt.Sprintf("circle r=%.4g outside a level-%d square (side %.4g), clipping its corner by %.0e of the half diagonal, centre %v", rad, L, side, eps, sc)
	case 0:
		rad := cell * r.R(1.2, 2.5)
		corner := o.Add(v2.Vec{X: float64(r.I(2)) * side, Y: float64(r.I(2)) * side})
		dir := corner.Sub(o.AddScalar(side / 2)).Normalize()
		sc := inside(corner.Sub(dir.MulScalar(cell*r.R(0.01, 0.5)+rad*math.Sqrt2)), rad+2*cell)
		fn = func(p v2.Vec) float64 { return p.Sub(sc).Length() - rad }
		family, desc = "corner-feature", fmt.Sprintf("circle r=%.4g in the corner of a level-%d square (side %.4g) at %v", rad, L, side, sc)
	case 1:
		rad := cell * r.R(1.5, 6)
		delta := cell * pickOne(r, []float64{1e-9, 1e-6, 1e-3, 0.05, 0.3, -1e-9, -1e-6, -1e-3, -0.05})
		cc := o.AddScalar(side / 2)
		sc := v2.Vec{X: cc.X + side/2 + rad - delta, Y: cc.Y + r.R(-0.5, 0.5)*side}
		if r.Bool() {
			sc = v2.Vec{X: cc.X + r.R(-0.5, 0.5)*side, Y: cc.Y + side/2 + rad - delta}
		}
		sc = inside(sc, rad+2*cell)
		fn = func(p v2.Vec) float64 { return p.Sub(sc).Length() - rad }
		family, desc = "face-tangent", fmt.Sprintf("circle r=%.4g tangent (delta=%.3g) to a side of a level-%d square, centre %v", rad, delta, L, sc)
	case 2:
		corner := o.Add(v2.Vec{X: float64(r.I(2)) * side, Y: float64(r.I(2)) * side})
		hf := v2.Vec{X: cell * r.R(1.5, 5), Y: cell * r.R(1.5, 5)}
		bc := inside(corner.Add(hf.Mul(v2.Vec{X: r.Sign(), Y: r.Sign()})), hf.MaxComponent()+2*cell)
		fn = func(p v2.Vec) float64 {
			d := p.Sub(bc).Abs().Sub(hf)
			return d.Max(v2.Vec{}).Length() + math.Min(d.MaxComponent(), 0)
		}
		family, desc = "through-corner", fmt.Sprintf("box half=%v with a vertex on the corner of a level-%d square, centre %v", hf, L, bc)
	case 3:
		k := r.IR(2, 5)
		var cs []v2.Vec
		var rs []float64
		for j := 0; j < k; j++ {
			rad := cell * r.R(1.2, 3)
			cs = append(cs, inside(v2.Vec{X: r.R(bb.Min.X, bb.Max.X), Y: r.R(bb.Min.Y, bb.Max.Y)}, rad+2*cell))
			rs = append(rs, rad)
		}
		fn = func(p v2.Vec) float64 {
			d := math.Inf(1)
			for j := range cs {
				d = math.Min(d, p.Sub(cs[j]).Length()-rs[j])
			}
			return d
		}
		family, desc = "far-apart", fmt.Sprintf("%d small circles %v radii %v", k, cs, rs)
	default:
		a, _ := sdf.Circle2D(cell * r.R(2, 6))
		b := sdf.Box2D(v2.Vec{X: cell * r.R(2, 8), Y: cell * r.R(2, 8)}, cell*r.R(0, 0.9))
		bc := bb.Center()
		mm := sdf.Translate2d(bc.Add(v2.Vec{X: r.R(-3, 3) * cell, Y: r.R(-3, 3) * cell})).Mul(sdf.Rotate2d(r.R(0, 6.28)))
		var s sdf.SDF2
		if r.Bool() {
			s = sdf.Union2D(sdf.Transform2D(a, sdf.Translate2d(bc)), sdf.Transform2D(b, mm))
		} else {
			s = sdf.Difference2D(sdf.Transform2D(a, sdf.Translate2d(bc)), sdf.Transform2D(b, mm))
		}
		fn = s.Evaluate
		family, desc = "csg", "sdfx union/difference of circle and rounded box near the box centre"
	}
	cs := c07Case{Index: i, Dim: 2, Cells: cells, Family: family, Shape: desc}
	var nP, nU, affected2 int64
	var kk int
	recP := &fieldSDF2{bb: bb, fn: func(p v2.Vec) float64 {
		v := fn(p)
		nP++
		if a := math.Abs(v); a >= snapEps && math.Ldexp(a, -kk) < snapEps {
			affected2++
		}
		return v
	}}
	maxAbs := bb.Size().Length()
	for _, p := range bb.Vertices() {
		maxAbs = math.Max(maxAbs, math.Abs(fn(p))+bb.Size().Length())
	}
	k := 0
	for math.Ldexp(maxAbs, -k) >= 0.25*cell {
		k++
	}
	cs.ScaleK = k
	kk = k
	lp := collectLines(rd, recP)
	recU := &fieldSDF2{bb: bb, fn: func(p v2.Vec) float64 { nU++; return math.Ldexp(fn(p), -k) }}
	lu := collectLines(rd, recU)
	cs.EvalsP, cs.EvalsU, cs.TrisP, cs.TrisU = nP, nU, len(lp), len(lu)
	c.Eval(1)
	c.mu.Lock()
	depths[fmt.Sprintf("quadtree:%d", bitsLen(len(lat.xs)-1))] = true
	c.mu.Unlock()
	if len(lu) > 0 && nP < nU {
		c.Distinct(fmt.Sprintf("2d/%s/%d/%d", family, cells, i))
	}
	if i < 2 {
		c.Sample(cs)
	}
	affected := affected2
	cnt := map[segKey]int{}
	for _, l := range lu {
		cnt[segKey{l[0].X, l[0].Y, l[1].X, l[1].Y}]++
	}
	extra := 0
	for _, l := range lp {
		kk := segKey{l[0].X, l[0].Y, l[1].X, l[1].Y}
		if cnt[kk] > 0 {
			cnt[kk]--
		} else {
			extra++
		}
	}
	missing := 0
	for _, v := range cnt {
		missing += v
	}
	if missing+extra > 0 {
		if affected > 0 {
			c.Count("cases_skipped_scaled_value_crossed_snap_epsilon", 1)
		} else {
			c.Violate("", fmt.Sprintf("quadtree-loss cells=%d %s: pruned render has %d segments, exhaustive (2^-%d f) has %d; %d missing, %d extra; evaluations %d vs %d; %s",
				cells, family, len(lp), k, len(lu), missing, extra, nP, nU, desc), cs)
		}
	}
	// independent sweep
	vals := make([]float64, (cx+1)*(cy+1))
	for a := 0; a <= cx; a++ {
		for b := 0; b <= cy; b++ {
			vals[a*(cy+1)+b] = fn(lat.corner(a, b))
		}
	}
	owned := map[[2]int]int{}
	spurious := 0
	for _, l := range lp {
		g := l[0].Add(l[1]).MulScalar(0.5)
		as, bs := cellsNear(lat.xs, lat.stride, g.X, 1e-6*cell), cellsNear(lat.ys, lat.stride, g.Y, 1e-6*cell)
		if len(as) == 0 || len(bs) == 0 {
			spurious++
			continue
		}
		for _, a := range as {
			for _, b := range bs {
				owned[[2]int{a, b}]++
			}
		}
	}
	lost := 0
	var lostCell [2]int
	tau := 1e-9 * cell
	for a := 0; a < cx; a++ {
		for b := 0; b < cy; b++ {
			neg, pos, generic := 0, 0, true
			for q := 0; q < 4; q++ {
				v := vals[(a+q&1)*(cy+1)+b+(q>>1)&1]
				if math.Abs(v) < tau {
					generic = false
				}
				if v < 0 {
					neg++
				} else {
					pos++
				}
			}
			if generic && neg > 0 && pos > 0 && owned[[2]int{a, b}] == 0 {
				if lost == 0 {
					lostCell = [2]int{a, b}
				}
				lost++
			}
		}
	}
	c.Count("finest_cells_swept_by_independent_oracle", int64(cx*cy))
	if lost > 0 {
		c.Violate("", fmt.Sprintf("quadtree-lost-cells cells=%d %s: %d sign-changing finest cells own no segment (first cell %v at %v); %s",
			cells, family, lost, lostCell, lat.corner(lostCell[0], lostCell[1]), desc), cs)
	}
	if spurious > 0 {
		c.Violate("", fmt.Sprintf("quadtree-spurious cells=%d %s: %d segments outside the lattice; %s", cells, family, spurious, desc), cs)
	}
}

//-----------------------------------------------------------------------------
// Oracle 3: lattices too large for an exhaustive reference (index arithmetic, cache keys, level counts only go wrong
// for big indices). Necessary conditions for "loses nothing": the mesh is closed, every vertex is within a cell of the
// surface and every resolvable surface point is within a cell diagonal of the mesh.

func c07HighRes(c *Ctx) {
	type hr struct {
		axis, cells int
	}
	// incl. resolutions next to powers of two (the octree's depth is derived from the cell count: no slack on either side)
	cases := []hr{{1, 520}, {2, 520}, {0, 520}, {2, 640}, {0, 255}, {1, 256}, {2, 257}, {1, 511}, {0, 512}, {2, 1023}}
	if !c.Quick {
		cases = append(cases, hr{1, 640}, hr{0, 1030}, hr{1, 1030}, hr{2, 1030}, hr{1, 2100}, hr{1, 255}, hr{2, 255}, hr{0, 510}, hr{2, 511}, hr{0, 1019}, hr{1, 1023}, hr{0, 1024}, hr{2, 1025}, hr{0, 2047})
	}
	parallelFor(len(cases), func(i int) {
		k := cases[i]
		r := c.Rng("highres", i)
		sz := v3.Vec{X: 0.3, Y: 0.3, Z: 0.3}
		sz.Set(k.axis, 10)
		rod, _ := sdf.Box3D(sz, 0.05)
		ofs := v3.Vec{X: r.R(-1, 1), Y: r.R(-1, 1), Z: r.R(-1, 1)}
		s := sdf.Transform3D(rod, sdf.Translate3d(ofs))
		ts := render.ToTriangles(s, render.NewMarchingCubesOctree(k.cells))
		c.Eval(1)
		h := 10.0 / float64(k.cells)
		diag := h * math.Sqrt(3)
		desc := fmt.Sprintf("rounded rod 10x0.3x0.3 along axis %d at %v", k.axis, ofs)
		cs := c07Case{Index: i, Dim: 3, Cells: k.cells, Family: "high-resolution", Shape: desc, TrisP: len(ts)}
		if len(ts) == 0 {
			c.Violate("", fmt.Sprintf("octree-highres cells=%d %s: no triangles", k.cells, desc), cs)
			return
		}
		rep := checkClosed3(ts, 1e-6*h)
		worst := 0.0
		for _, t := range ts {
			for q := 0; q < 3; q++ {
				if f := math.Abs(s.Evaluate(t[q])); f > worst {
					worst = f
				}
			}
		}
		grid := newTriGrid(ts, diag)
		far, checked := 0.0, 0
		for q := 0; q < 3000; q++ {
			// points on the rod's surface: take a point on the axis segment, push out to the surface along a random normal
			u := v3.Vec{X: r.N(), Y: r.N(), Z: r.N()}
			u.Set(k.axis, 0)
			if u.Length() == 0 {
				continue
			}
			u = u.Normalize()
			p := ofs
			p.Set(k.axis, ofs.Get(k.axis)+r.R(-4.8, 4.8))
			a, b := p, p.Add(u.MulScalar(0.5)) // f(a) < 0 < f(b)
			for it := 0; it < 50; it++ {
				m := a.Add(b).MulScalar(0.5)
				if s.Evaluate(m) < 0 {
					a = m
				} else {
					b = m
				}
			}
			checked++
			if d := grid.dist(a, 2); d > far {
				far = d
			}
		}
		c.Count("highres_surface_points_checked", int64(checked))
		switch {
		case rep.Unbalanced > 0:
			c.Violate("", fmt.Sprintf("octree-highres cells=%d %s: mesh is open: %d unmatched directed edges (first %v) in %d triangles", k.cells, desc, rep.Unbalanced, rep.FirstBadEdge, len(ts)), cs)
		case worst > h:
			c.Violate("", fmt.Sprintf("octree-highres cells=%d %s: a vertex is %g from the surface (cell %g)", k.cells, desc, worst, h), cs)
		case far > diag:
			c.Violate("", fmt.Sprintf("octree-highres cells=%d %s: a surface point is %g (or more) from the mesh, cell diagonal %g: part of the surface is missing", k.cells, desc, far, diag), cs)
		default:
			c.Distinct(fmt.Sprintf("3d/highres/%d/%d", k.axis, k.cells))
		}
	})
}

//-----------------------------------------------------------------------------
// Renderer values reused for several parts: what a renderer emits for a part must not depend on what it rendered before.

func c07Reuse(c *Ctx) {
	seqs := c.Pick(6, 60)
	parallelFor(seqs, func(i int) {
		r := c.Rng("reuse", i)
		cells := pickOne(r, []int{20, 33, 48, 60})
		oct := render.NewMarchingCubesOctree(cells)
		quad := render.NewMarchingSquaresQuadtree(cells * 3)
		uni := render.NewMarchingCubesUniform(cells / 2)
		sizes := []float64{1, 1.25, 0.8, 2.2, 1, 3.1, 0.5}
		for step, sz0 := range sizes {
			sz := sz0 * r.R(0.95, 1.05)
			var s3 sdf.SDF3
			var s2 sdf.SDF2
			var desc string
			if step%3 == 2 {
				b, _ := sdf.Box3D(v3.Vec{X: 3 * sz, Y: 2 * sz, Z: sz}, 0.2*sz)
				s3, desc = b, fmt.Sprintf("rounded box scale %.3g", sz)
				s2 = sdf.Box2D(v2.Vec{X: 3 * sz, Y: 2 * sz}, 0.2*sz)
			} else {
				sp, _ := sdf.Sphere3D(sz)
				s3, desc = sp, fmt.Sprintf("sphere r=%.3g", sz)
				s2, _ = sdf.Circle2D(sz)
			}
			cs := c07Case{Index: i, Dim: 3, Cells: cells, Family: "renderer-reuse", Shape: fmt.Sprintf("step %d: %s", step, desc)}
			a, b := render.ToTriangles(s3, oct), render.ToTriangles(s3, render.NewMarchingCubesOctree(cells))
			if m, e := diffTriangles(a, b, 0); m+e > 0 || len(a) != len(b) {
				c.Violate("", fmt.Sprintf("octree-history cells=%d step %d (%s): a renderer value that rendered other parts before emits %d triangles, a fresh one %d (%d missing, %d extra)", cells, step, desc, len(a), len(b), m, e), cs)
			}
			ua, ub := render.ToTriangles(s3, uni), render.ToTriangles(s3, render.NewMarchingCubesUniform(cells/2))
			if m, e := diffTriangles(ua, ub, 0); m+e > 0 || len(ua) != len(ub) {
				c.Violate("", fmt.Sprintf("uniform-history cells=%d step %d (%s): reused renderer %d triangles, fresh %d", cells/2, step, desc, len(ua), len(ub)), cs)
			}
			la, lb := collectLines(quad, s2), collectLines(render.NewMarchingSquaresQuadtree(cells*3), s2)
			same := len(la) == len(lb)
			for k := 0; same && k < len(la); k++ {
				same = *la[k] == *lb[k]
			}
			if !same {
				c.Violate("", fmt.Sprintf("quadtree-history cells=%d step %d (%s): reused renderer %d segments, fresh %d (or different coordinates)", cells*3, step, desc, len(la), len(lb)), cs)
			}
			c.Eval(3)
			if step > 0 {
				c.Distinct(fmt.Sprintf("reuse/%d/%d/%d", cells, i, step))
			}
		}
	})
}

// c07HighRes2 : the quadtree analogue of the big-lattice oracle.
func c07HighRes2(c *Ctx) {
	cells := []int{33000, 40000}
	if !c.Quick {
		cells = append(cells, 70000, 140000)
	}
	type k2 struct{ axis, cells int }
	var cases []k2
	for _, n := range cells {
		cases = append(cases, k2{0, n}, k2{1, n})
	}
	parallelFor(len(cases), func(i int) {
		k := cases[i]
		r := c.Rng("highres2", i)
		sz := v2.Vec{X: 1000, Y: 1}
		if k.axis == 1 {
			sz = v2.Vec{X: 1, Y: 1000}
		}
		ofs := v2.Vec{X: r.R(-50, 50), Y: r.R(-50, 50)}
		s := sdf.Transform2D(sdf.Box2D(sz, 0.2), sdf.Translate2d(ofs))
		ls := collectLines(render.NewMarchingSquaresQuadtree(k.cells), s)
		c.Eval(1)
		h := 1000.0 / float64(k.cells)
		desc := fmt.Sprintf("rounded bar 1000x1 along axis %d at %v", k.axis, ofs)
		cs := c07Case{Index: i, Dim: 2, Cells: k.cells, Family: "high-resolution", Shape: desc, TrisP: len(ls)}
		rep := checkClosed2(ls, 1e-6*h)
		perim := 2*(1000-0.4) + 2*(1-0.4) + 2*math.Pi*0.2
		worst := 0.0
		for _, l := range ls {
			for q := 0; q < 2; q++ {
				if f := math.Abs(s.Evaluate(l[q])); f > worst {
					worst = f
				}
			}
		}
		switch {
		case len(ls) == 0:
			c.Violate("", fmt.Sprintf("quadtree-highres cells=%d %s: no segments", k.cells, desc), cs)
		case rep.OddDegree > 0:
			c.Violate("", fmt.Sprintf("quadtree-highres cells=%d %s: contour is open: %d endpoints of odd degree (first %v) in %d segments", k.cells, desc, rep.OddDegree, rep.FirstOdd, len(ls)), cs)
		case worst > h:
			c.Violate("", fmt.Sprintf("quadtree-highres cells=%d %s: an endpoint is %g from the boundary (cell %g)", k.cells, desc, worst, h), cs)
		case math.Abs(rep.Length-perim) > 0.001*perim:
			c.Violate("", fmt.Sprintf("quadtree-highres cells=%d %s: total length %g, perimeter %g: segments lost or duplicated", k.cells, desc, rep.Length, perim), cs)
		default:
			c.Distinct(fmt.Sprintf("2d/highres/%d/%d", k.axis, k.cells))
		}
	})
}

//-----------------------------------------------------------------------------
// Oracle 4: weak fields on deep trees. At resolutions where an unpruned reference is out of reach the metamorphic pair
// render(f) / render(2^-k f) is still affordable when the features are tiny: 2^-k f has the same zero set, signs and
// interpolation ratios, only fewer cubes can be skipped. Tiny balls sit next to every corner of the (padded) bounding
// box and inside it, so that whatever order the tree is walked in, a deep chain of undecided cubes comes first or last.

type c07Balls3 struct {
	c    []v3.Vec
	r    []float64
	k    float64
	bb   sdf.Box3
	snap *atomic.Int64 // evaluations whose scaled value falls below the library's absolute snap epsilon while the unscaled one does not
}

// c07SnapCrossed: the renderers treat |value| < 1e-12 as zero, so a node that close to the surface in the scaled field only
// (not in f itself) legitimately moves the few items around it. Counted with a margin of a factor 4 either way.
func c07SnapCrossed(d, k float64) bool {
	return k != 1 && math.Abs(d*k) < 4e-12 && math.Abs(d) > 0.25e-12
}

func (s *c07Balls3) Evaluate(p v3.Vec) float64 {
	d := math.Inf(1)
	for i := range s.c {
		d = math.Min(d, p.Sub(s.c[i]).Length()-s.r[i])
	}
	if s.snap != nil && c07SnapCrossed(d, s.k) {
		s.snap.Add(1)
	}
	return d * s.k
}
func (s *c07Balls3) BoundingBox() sdf.Box3 { return s.bb }

type c07Disc2 struct {
	c    v2.Vec
	r    float64
	k    float64
	bb   sdf.Box2
	snap *atomic.Int64
}

func (s *c07Disc2) Evaluate(p v2.Vec) float64 {
	d := p.Sub(s.c).Length() - s.r
	if s.snap != nil && c07SnapCrossed(d, s.k) {
		s.snap.Add(1)
	}
	return d * s.k
}
func (s *c07Disc2) BoundingBox() sdf.Box2 { return s.bb }

func c07WeakDeep(c *Ctx) {
	type wd struct {
		cells int
		kpow  int
	}
	cases := []wd{{8200, 2}, {10000, 2}, {4100, 3}, {16300, 2}, {21000, 2}}
	if !c.Quick {
		cases = append(cases, wd{10000, 3}, wd{33000, 2}, wd{8111, 2}, wd{2050, 4}, wd{16222, 2}, wd{40000, 1}, wd{66000, 2})
	}
	parallelFor(len(cases), func(i int) {
		k := cases[i]
		r := c.Rng("weakdeep", i)
		h := 2.0 / float64(k.cells)
		bb := sdf.Box3{Min: v3.Vec{X: -1, Y: -1, Z: -1}, Max: v3.Vec{X: 1, Y: 1, Z: 1}}
		var snap atomic.Int64
		mk := func(scale float64) *c07Balls3 {
			s := &c07Balls3{k: scale, bb: bb, snap: &snap}
			rr := c.Rng("weakdeep-balls", i)
			for corner := 0; corner < 8; corner++ {
				// a ball of a few cells, a few cells from a corner of the box (the renderer pads the box by 1 %)
				p := v3.Vec{X: -1.01 + h*rr.R(2, 5), Y: -1.01 + h*rr.R(2, 5), Z: -1.01 + h*rr.R(2, 5)}
				if corner&1 != 0 {
					p.X = -p.X
				}
				if corner&2 != 0 {
					p.Y = -p.Y
				}
				if corner&4 != 0 {
					p.Z = -p.Z
				}
				s.c = append(s.c, p)
				s.r = append(s.r, h*rr.R(1.2, 1.9))
			}
			for q := 0; q < 3; q++ {
				s.c = append(s.c, v3.Vec{X: rr.R(-0.9, 0.9), Y: rr.R(-0.9, 0.9), Z: rr.R(-0.9, 0.9)})
				s.r = append(s.r, h*rr.R(5, 25))
			}
			return s
		}
		_ = r
		scale := math.Ldexp(1, -k.kpow)
		a := render.ToTriangles(mk(1), render.NewMarchingCubesOctree(k.cells))
		b := render.ToTriangles(mk(scale), render.NewMarchingCubesOctree(k.cells))
		c.Eval(2)
		desc := fmt.Sprintf("11 balls of 1..25 cells, one next to each corner of [-1,1]^3 and 3 inside, field f vs f*2^-%d", k.kpow)
		cs := c07Case{Index: i, Dim: 3, Cells: k.cells, Family: "weak-field-deep-tree", Shape: desc, TrisP: len(a), TrisU: len(b), ScaleK: k.kpow}
		// both renders may lose the same part (a tree that does not reach the far end of the box): every ball must be there
		balls := mk(1)
		got := make([]int, len(balls.c))
		for _, t := range a {
			for q := range balls.c {
				if d := t[0].Sub(balls.c[q]).Length(); d < balls.r[q]+2*h {
					got[q]++
					break
				}
			}
		}
		for q, n := range got {
			// a ball of radius >= 1.2 cells crosses lattice edges whatever its position: it has triangles
			if n == 0 {
				c.Violate("", fmt.Sprintf("octree-weak-deep cells=%d %s: ball %d (r=%.3g cells at %v) has no triangle at all in the render of f", k.cells, desc, q, balls.r[q]/h, balls.c[q]), cs)
				return
			}
		}
		if m, e := diffTriangles(a, b, 0); m+e > 0 || len(a) != len(b) || len(a) == 0 {
			if n := snap.Load(); n > 0 && len(a) > 0 && int64(m+e) <= 80*n {
				// a lattice node lies within 1e-12/scale of the surface: the (at most 8 cubes x 5 triangles, either render) around it may differ
				c.Count("cases_skipped_scaled_value_crossed_snap_epsilon", 1)
				return
			}
			c.Violate("", fmt.Sprintf("octree-weak-deep cells=%d %s: %d triangles from f, %d from the weaker field (%d only in the first, %d only in the second)", k.cells, desc, len(a), len(b), m, e), cs)
			return
		}
		c.Distinct(fmt.Sprintf("3d/weakdeep/%d/%d", k.cells, k.kpow))
	})
	// 2D: a field so weak that no square at all can be skipped, on lattices of more than 2^24 squares
	cells2 := []int{4000} // 1.01*4000 cells fill the 4096-cell root square: every quadrant holds part of the disc
	if !c.Quick {
		cells2 = append(cells2, 3000, 2100, 4050)
	}
	parallelFor(len(cells2), func(i int) {
		n := cells2[i]
		r := c.Rng("weakdeep2", i)
		bb := sdf.Box2{Min: v2.Vec{X: -1.3, Y: -1.3}, Max: v2.Vec{X: 1.3, Y: 1.3}}
		ctr := v2.Vec{X: r.R(-0.2, 0.2), Y: r.R(-0.2, 0.2)}
		rad := r.R(0.8, 1.05)
		var snap atomic.Int64
		la := collectLines(render.NewMarchingSquaresQuadtree(n), &c07Disc2{ctr, rad, 1, bb, nil})
		lb := collectLines(render.NewMarchingSquaresQuadtree(n), &c07Disc2{ctr, rad, math.Ldexp(1, -12), bb, &snap})
		c.Eval(2)
		desc := fmt.Sprintf("disc r=%.4g at %v in [-1.3,1.3]^2, field f vs f*2^-12 (no square can be skipped)", rad, ctr)
		cs := c07Case{Index: i, Dim: 2, Cells: n, Family: "weak-field-deep-tree", Shape: desc, TrisP: len(la), TrisU: len(lb), ScaleK: 12}
		cnt := map[sdf.Line2]int{}
		for _, l := range la {
			cnt[*l]++
		}
		extra := 0
		for _, l := range lb {
			if cnt[*l] > 0 {
				cnt[*l]--
			} else {
				extra++
			}
		}
		missing := 0
		for _, v := range cnt {
			missing += v
		}
		if missing+extra > 0 || len(la) == 0 {
			if k := snap.Load(); k > 0 && len(la) > 0 && int64(missing+extra) <= 16*k {
				// a node within 1e-12 * 2^12 = 4e-9 of the circle: the (at most 4 squares x 2 segments, either render) around it may differ
				c.Count("cases_skipped_scaled_value_crossed_snap_epsilon", 1)
				c.Obs(fmt.Sprintf("weakdeep2_%d_items_differing_next_to_snapped_nodes", n), map[string]any{"nodes": k, "items": missing + extra})
				return
			}
			c.Violate("", fmt.Sprintf("quadtree-weak-deep cells=%d %s: %d segments from f, %d from the weaker field (%d only in the first, %d only in the second)", n, desc, len(la), len(lb), missing, extra), cs)
			return
		}
		c.Distinct(fmt.Sprintf("2d/weakdeep/%d", n))
	})
}
