//go:build verif

// C05 - marching-cubes meshes are closed and consistently outward-oriented.
package main

import (
	"fmt"
	"math"
	"os"
	"time"

	"github.com/deadsy/sdfx/render"
	"github.com/deadsy/sdfx/sdf"
	v3 "github.com/deadsy/sdfx/vec/v3"
)

func init() {
	checks["C05"] = checkC05
	shardFns["c05"] = shardC05
}

type mcRenderer struct {
	name string
	mk   func(cells int) render.Render3
}

var mcRenderers = []mcRenderer{
	{"uniform", func(n int) render.Render3 { return render.NewMarchingCubesUniform(n) }},
	{"octree", func(n int) render.Render3 { return render.NewMarchingCubesOctree(n) }},
}

// magnitude classes for prescribed corner values
var magClassNames = []string{"uniform", "zeros", "subeps", "equal", "tiny-vs-big", "uniform2", "zeros+subeps", "uniform3"}

func drawMagnitude(r *Rng, class int) float64 {
	switch class % 8 {
	case 1:
		if r.P(0.35) {
			return 0
		}
	case 2:
		if r.P(0.5) {
			return 1e-13 * r.R(0.1, 5)
		}
	case 3:
		return 0.25
	case 4:
		if r.Bool() {
			return 1e-6
		}
		return 0.5
	case 6:
		switch r.I(3) {
		case 0:
			return 0
		case 1:
			return 1e-13
		}
	}
	return r.R(0.02, 0.5)
}

func checkC05(c *Ctx) {
	c.Rule("real MarchingCubesUniform/Octree renders of lattice-lookup fields (lattice learned by a recording pass): all 256 sign " +
		"configurations of one interior cell, all 3x4096 sign patterns of two face-adjacent cells, each with several corner-magnitude " +
		"draws (uniform, exact zeros, sub-epsilon, equal, 1e-6 vs 0.5); random full-lattice sign fields; analytic scenes incl. surfaces " +
		"through lattice nodes. Non-trivial = render emitted >= 1 triangle; distinct = (renderer, family, sign pattern, magnitude class).")
	c.Assume("vertices are welded at 1e-6 of the cell edge as the property states; lattice boundary nodes are kept outside (surface inside the sampled box)")
	nshards := c.Pick(64, 1024)
	c.runSharded("c05", nshards, 16, false, 30*time.Minute)
	c.Exhaustive(true)
	// every one of the 254 emitting configurations must have been driven, by both renderers
	for _, r := range mcRenderers {
		seen := 0
		for i := 1; i < 255; i++ {
			if c.Counter(fmt.Sprintf("cfg/%s/%d", r.name, i)) > 0 {
				seen++
			}
		}
		c.Obs("cell_configurations_observed_"+r.name, seen)
		if seen < 254 {
			c.Inconclusive(fmt.Sprintf("%s: only %d of 254 emitting cell configurations observed", r.name, seen))
		}
	}
	// fold per-config counters into one number to keep the evidence readable
	c.mu.Lock()
	for k := range c.counters {
		if len(k) > 4 && k[:4] == "cfg/" {
			delete(c.counters, k)
		}
	}
	c.mu.Unlock()
	c.Floor(1000)
}

type c05Case struct {
	Renderer string    `json:"renderer"`
	Family   string    `json:"family"`
	Axis     int       `json:"axis,omitempty"`
	Pattern  int       `json:"pattern"`
	MagClass string    `json:"magnitude_class"`
	Draw     int       `json:"draw"`
	Cells    int       `json:"mesh_cells"`
	Values   []float64 `json:"corner_values,omitempty"`
	Scene    string    `json:"scene,omitempty"`
}

func shardC05(c *Ctx, shard, nshards int) {
	draws := c.Pick(8, 64)
	nRandom := c.Pick(3000, 120000)
	nScenes := c.Pick(900, 9000)
	caseNo := 0
	mine := func() bool { caseNo++; return (caseNo-1)%nshards == shard }

	for _, rk := range mcRenderers {
		cells := 3
		bb := sdf.Box3{Min: v3.Vec{X: -1.5, Y: -1.5, Z: -1.5}, Max: v3.Vec{X: 1.5, Y: 1.5, Z: 1.5}}
		rd := rk.mk(cells)
		lat, err := learnLattice3(rd, bb)
		if err != nil {
			c.Inconclusive(rk.name + ": " + err.Error())
			continue
		}
		cx, cy, cz := lat.cells()
		if cx < 4 || cy < 3 || cz < 3 {
			c.Inconclusive(fmt.Sprintf("%s: lattice %dx%dx%d too small for the pair enumeration", rk.name, cx, cy, cz))
			continue
		}
		cell := lat.cellSize().MinComponent()
		f := newLookupField3(lat, bb, 1e-30)

		run := func(cs c05Case, negSubstantial bool) {
			ts := render.ToTriangles(f, rd)
			c.Eval(1)
			recordConfigs(c, rk.name, lat, f)
			if f.offLattice > 0 {
				c.Inconclusive(fmt.Sprintf("%s: %d off-lattice queries", rk.name, f.offLattice))
				f.offLattice = 0
				return
			}
			if len(ts) == 0 {
				return
			}
			c.Distinct(fmt.Sprintf("%s/%s/%d/%d/%s", cs.Renderer, cs.Family, cs.Axis, cs.Pattern, cs.MagClass))
			rep := checkClosed3(ts, 1e-6*cell)
			judgeMesh(c, rep, cs, negSubstantial, f.vals)
		}

		// (a) one interior cell, all 256 configurations
		for pat := 0; pat < 256; pat++ {
			for d := 0; d < draws; d++ {
				if !mine() {
					continue
				}
				r := c.Rng("single", rk.name, pat, d)
				f.fill(0.3)
				neg := false
				k := 0
				for dx := 0; dx < 2; dx++ {
					for dy := 0; dy < 2; dy++ {
						for dz := 0; dz < 2; dz++ {
							m := drawMagnitude(r, d)
							if pat&(1<<k) != 0 {
								m = -m
								if m < -1e-3 {
									neg = true
								}
							}
							*f.at(1+dx, 1+dy, 1+dz) = m
							k++
						}
					}
				}
				cs := c05Case{Renderer: rk.name, Family: "single-cell", Pattern: pat, MagClass: magClassNames[d%8], Draw: d, Cells: cells}
				if pat == 37 && d == 0 {
					c.Sample(cs)
				}
				run(cs, neg)
			}
		}
		// (b) two face-adjacent cells, 12 free corners, three axes
		for axis := 0; axis < 3; axis++ {
			for pat := 0; pat < 4096; pat++ {
				for d := 0; d < draws; d++ {
					if !mine() {
						continue
					}
					r := c.Rng("pair", rk.name, axis, pat, d)
					f.fill(0.3)
					neg := false
					k := 0
					for a := 0; a < 3; a++ { // along the shared axis: 3 node layers
						for b := 0; b < 2; b++ {
							for e := 0; e < 2; e++ {
								m := drawMagnitude(r, d)
								if pat&(1<<k) != 0 {
									m = -m
									if m < -1e-3 {
										neg = true
									}
								}
								var p *float64
								switch axis {
								case 0:
									p = f.at(1+a, 1+b, 1+e)
								case 1:
									p = f.at(1+b, 1+a, 1+e)
								default:
									p = f.at(1+b, 1+e, 1+a)
								}
								*p = m
								k++
							}
						}
					}
					cs := c05Case{Renderer: rk.name, Family: "cell-pair", Axis: axis, Pattern: pat, MagClass: magClassNames[d%8], Draw: d, Cells: cells}
					if pat == 1234 && d == 1 && axis == 2 {
						c.Sample(cs)
					}
					run(cs, neg)
				}
			}
		}
		// (d) random full-lattice sign fields (dense ambiguity), interior nodes only
		for i := 0; i < nRandom; i++ {
			if !mine() {
				continue
			}
			r := c.Rng("random", rk.name, i)
			f.fill(0.3)
			pNeg := r.R(0.1, 0.9)
			neg := false
			for a := 1; a < cx; a++ {
				for b := 1; b < cy; b++ {
					for e := 1; e < cz; e++ {
						m := drawMagnitude(r, i)
						if r.P(pNeg) {
							m = -m
							if m < -1e-3 {
								neg = true
							}
						}
						*f.at(a, b, e) = m
					}
				}
			}
			cs := c05Case{Renderer: rk.name, Family: "random-field", Pattern: i, MagClass: magClassNames[i%8], Cells: cells}
			run(cs, neg)
		}
	}

	// (e) analytic scenes at random resolutions and alignments, incl. surfaces through lattice nodes
	for i := 0; i < nScenes; i++ {
		if !mine() {
			continue
		}
		if only := os.Getenv("VCHECK_ONLY"); only != "" && only != fmt.Sprint(i) { // debugging aid
			continue
		}
		r := c.Rng("scene", i)
		rk := mcRenderers[i%2]
		cells := r.IR(4, c.Pick(14, 28))
		s, desc := c05Scene(r)
		if i%3 == 2 { // random 1-Lipschitz expression tree (the octree renderer's premise), boxes as the library computes them
			if n := gen3(r, r.IR(1, 3), r.LogR(0.2, 20), genOpts{lip1Only: true}); n != nil && n.lip1 && !n.mayBeEmpty() {
				s, desc = n.s3, "tree: "+n.desc
			}
		}
		if s == nil {
			continue
		}
		if r.P(0.35) {
			// the same part in other units (metres ... micrometres) and away from the origin: closure must not depend on
			// the absolute size of a cell or on the magnitude of the coordinates
			k := pickOne(r, []float64{1e-5, 1e-4, 1e-3, 1e-2, 1e3, 1e6})
			s = sdf.ScaleUniform3D(s, k)
			desc = fmt.Sprintf("ScaleUniform3D[%g](%s)", k, desc)
			if r.P(0.4) {
				far := s.BoundingBox().Size().MaxComponent() * pickOne(r, []float64{10, 1e3, 1e5})
				t := v3.Vec{X: far * r.R(-1, 1), Y: far * r.R(-1, 1), Z: far * r.R(-1, 1)}
				s = sdf.Transform3D(s, sdf.Translate3d(t))
				desc = fmt.Sprintf("Translate%v %s", t, desc)
			}
		}
		rd := rk.mk(cells)
		if r.P(0.4) {
			// snap: translate the scene so that a lattice node lies exactly on a feature plane/centre
			if lat, err := learnLattice3(rd, s.BoundingBox()); err == nil {
				cxx, cyy, czz := lat.cells()
				node := lat.corner(r.IR(1, cxx-1), r.IR(1, cyy-1), r.IR(1, czz-1))
				ctr := s.BoundingBox().Center()
				// move the shape centre onto a node: for boxes/spheres centred in their box this puts faces /
				// poles on lattice planes when sizes are multiples of the cell
				s = sdf.Transform3D(s, sdf.Translate3d(node.Sub(ctr)))
				desc += fmt.Sprintf(" snapped-to-node%v", node)
			}
		}
		if r.P(0.3) {
			// asking a renderer to describe its job for another part (what the file writers do before they render) must not
			// leave anything behind for the next render
			other, _ := sdf.Sphere3D(r.LogR(0.01, 100))
			_ = rd.Info(sdf.Transform3D(other, sdf.Translate3d(v3.Vec{X: r.R(-50, 50), Y: r.R(-50, 50), Z: r.R(-50, 50)})))
		}
		ts := render.ToTriangles(s, rd)
		c.Eval(1)
		if len(ts) == 0 {
			continue
		}
		bb := s.BoundingBox()
		cell := bb.Size().MaxComponent() / float64(cells)
		cs := c05Case{Renderer: rk.name, Family: "scene", Pattern: i, Cells: cells, Scene: desc, MagClass: "analytic"}
		c.Distinct(fmt.Sprintf("%s/scene/%d", rk.name, i))
		if i < 4 {
			c.Sample(cs)
		}
		rep := checkClosed3(ts, 1e-6*cell)
		if dbg := os.Getenv("VCHECK_DEBUG_FILE"); dbg != "" {
			if f, err := os.OpenFile(dbg, os.O_APPEND|os.O_CREATE|os.O_WRONLY, 0644); err == nil {
				fmt.Fprintf(f, "scene %d %s cells=%d cell=%g box=%v volume=%g\n", i, desc, cells, cell, bb, rep.Volume)
				for _, t := range ts {
					fmt.Fprintf(f, "  tri %v f=%g %g %g\n", *t, s.Evaluate(t[0]), s.Evaluate(t[1]), s.Evaluate(t[2]))
				}
				f.Close()
			}
		}
		// a part thinner than two cells along an axis can reach the lattice with a single layer of nodes that lie on its surface
		// (values within the renderer's epsilon of zero): the mesh is then a closed but flat, zero-volume double sheet. Positive
		// volume is demanded of parts the lattice can resolve; closure and distinct vertices of every mesh.
		resolvable := bb.Size().MinComponent() >= 2*cell
		if resolvable && rep.Volume == 0 && len(ts) > 0 {
			// the same artefact inside a thick bounding box (two thin rings one above the other): every vertex of the mesh lies
			// in one lattice plane
			for a := 0; a < 3 && resolvable; a++ {
				flat := true
				for _, t := range ts {
					for k := 0; k < 3; k++ {
						flat = flat && t[k].Get(a) == ts[0][0].Get(a)
					}
				}
				if flat {
					resolvable = false
				}
			}
		}
		if !resolvable {
			c.Count("scenes_thinner_than_two_cells_judged_on_closure_only", 1)
		}
		judgeMesh(c, rep, cs, resolvable, nil)
	}
}

func judgeMesh(c *Ctx, rep meshReport, cs c05Case, wantPositiveVolume bool, vals []float64) {
	c.Count("triangles_checked", int64(rep.Triangles))
	if rep.NaN > 0 {
		cs.Values = vals
		c.Violate("", fmt.Sprintf("mc-nan %s %s pattern=%d: %d non-finite vertex coordinates", cs.Renderer, cs.Family, cs.Pattern, rep.NaN), cs)
		return
	}
	if rep.Unbalanced > 0 {
		cs.Values = vals
		c.Violate("", fmt.Sprintf("mc-open %s %s axis=%d pattern=%d mag=%s: %d unmatched directed edges (first %v) in %d triangles",
			cs.Renderer, cs.Family, cs.Axis, cs.Pattern, cs.MagClass, rep.Unbalanced, rep.FirstBadEdge, rep.Triangles), cs)
	}
	if rep.IdenticalVert > 0 {
		cs.Values = vals
		c.Violate("", fmt.Sprintf("mc-degenerate %s %s pattern=%d mag=%s: %d triangles with two identical vertices",
			cs.Renderer, cs.Family, cs.Pattern, cs.MagClass, rep.IdenticalVert), cs)
	}
	if wantPositiveVolume && rep.Unbalanced == 0 && !(rep.Volume > 0) {
		cs.Values = vals
		c.Violate("", fmt.Sprintf("mc-orientation %s %s axis=%d pattern=%d mag=%s: enclosed signed volume %g is not positive (%d triangles)",
			cs.Renderer, cs.Family, cs.Axis, cs.Pattern, cs.MagClass, rep.Volume, rep.Triangles), cs)
	}
}

// recordConfigs notes which of the 256 configurations the prescribed values put into cells.
func recordConfigs(c *Ctx, rname string, lat *lattice3, f *lookupField3) {
	cx, cy, cz := lat.cells()
	// corner order of the renderer is irrelevant here: any fixed order enumerates the same set of
	// sign assignments up to relabelling, so canonicalise on the library's documented corner order
	off := [8][3]int{{0, 0, 0}, {1, 0, 0}, {1, 1, 0}, {0, 1, 0}, {0, 0, 1}, {1, 0, 1}, {1, 1, 1}, {0, 1, 1}}
	local := map[int]int64{}
	for a := 0; a < cx; a++ {
		for b := 0; b < cy; b++ {
			for e := 0; e < cz; e++ {
				idx := 0
				for k, o := range off {
					if *f.at(a+o[0], b+o[1], e+o[2]) < 0 {
						idx |= 1 << k
					}
				}
				if idx != 0 && idx != 255 {
					local[idx]++
				}
			}
		}
	}
	c.mu.Lock()
	for k, v := range local {
		c.counters[fmt.Sprintf("cfg/%s/%d", rname, k)] += v
	}
	c.mu.Unlock()
}

// c05Scene builds a small CSG scene of exact primitives whose surface is inside its box.
func c05Scene(r *Rng) (sdf.SDF3, string) {
	prim := func() (sdf.SDF3, string) {
		switch r.I(4) {
		case 0:
			rad := r.R(0.5, 2)
			s, _ := sdf.Sphere3D(rad)
			return s, fmt.Sprintf("sphere(%.3g)", rad)
		case 1:
			sz := v3.Vec{X: r.R(0.5, 3), Y: r.R(0.5, 3), Z: r.R(0.5, 3)}
			rd := 0.0
			if r.Bool() {
				rd = 0.4 * sz.MinComponent() * r.F()
			}
			s, _ := sdf.Box3D(sz, rd)
			return s, fmt.Sprintf("box(%.3g,%.3g,%.3g;r%.3g)", sz.X, sz.Y, sz.Z, rd)
		case 2:
			h, rad := r.R(0.5, 3), r.R(0.3, 1.5)
			s, _ := sdf.Cylinder3D(h, rad, 0)
			return s, fmt.Sprintf("cyl(%.3g,%.3g)", h, rad)
		default:
			h := r.R(1, 3)
			r0, r1 := r.R(0.5, 1.5), r.R(0.1, 1)
			s, _ := sdf.Cone3D(h, r0, r1, 0)
			return s, fmt.Sprintf("cone(%.3g,%.3g,%.3g)", h, r0, r1)
		}
	}
	place := func(s sdf.SDF3) sdf.SDF3 {
		m := sdf.Translate3d(v3.Vec{X: r.R(-1, 1), Y: r.R(-1, 1), Z: r.R(-1, 1)})
		if r.Bool() {
			m = m.Mul(sdf.Rotate3d(v3.Vec{X: r.N(), Y: r.N(), Z: r.N()}.Normalize(), r.R(0, 2*math.Pi)))
		}
		return sdf.Transform3D(s, m)
	}
	a, da := prim()
	switch r.I(4) {
	case 0:
		return place(a), da
	case 1:
		b, db := prim()
		return sdf.Union3D(place(a), place(b)), "union(" + da + "," + db + ")"
	case 2:
		b, db := prim()
		// keep the result non-empty: subtract a smaller, shifted body
		b = sdf.Transform3D(sdf.ScaleUniform3D(b, 0.5), sdf.Translate3d(v3.Vec{X: r.R(0, 1), Y: r.R(0, 1), Z: r.R(0, 1)}))
		return place(sdf.Difference3D(a, b)), "difference(" + da + "," + db + "*0.5)"
	default:
		b, db := prim()
		u := sdf.Union3D(a, sdf.Transform3D(b, sdf.Translate3d(v3.Vec{X: r.R(-1, 1), Y: r.R(-1, 1)})))
		if uu, ok := u.(*sdf.UnionSDF3); ok {
			uu.SetMin(sdf.PolyMin(r.R(0.05, 0.3)))
		}
		// a blend adds a fillet that may leave the operand boxes: pad the box so the surface stays inside it
		bb := u.BoundingBox()
		pad := &fieldSDF3{bb: bb.Enlarge(v3.Vec{X: 1, Y: 1, Z: 1}), fn: u.Evaluate}
		return place(pad), "polymin-union(" + da + "," + db + ")"
	}
}
