//go:build verif

// Race-detector report parsing: blocks are counted by "WARNING: DATA RACE" (never by exit code) and
// de-duplicated by the pair of innermost sdfx functions of the two racing stacks (line numbers stripped).
package main

import (
	"regexp"
	"sort"
	"strings"
)

type raceReport struct {
	Key   string // dedup key
	Block string // full text of the first report with this key
	Count int
	Sdfx  bool // an sdfx frame takes part in one of the racing stacks
}

var raceFnRe = regexp.MustCompile(`^\s+((?:github\.com/deadsy/sdfx|main)\S*)\(\S*\)\s*$`)

func parseRaces(out string) []raceReport {
	parts := strings.Split(out, "WARNING: DATA RACE")
	byKey := map[string]*raceReport{}
	for _, blk := range parts[1:] {
		if i := strings.Index(blk, "=================="); i >= 0 {
			blk = blk[:i]
		}
		// sections: the racing accesses come first ("Read at", "Previous write at", ...), then goroutine creation stacks
		var fns []string
		sdfx := false
		section := ""
		first := map[string]string{}
		for _, ln := range strings.Split(blk, "\n") {
			t := strings.TrimSpace(ln)
			if strings.HasSuffix(t, ":") && !strings.HasPrefix(ln, "  ") || strings.HasPrefix(t, "Read at") || strings.HasPrefix(t, "Write at") ||
				strings.HasPrefix(t, "Previous read at") || strings.HasPrefix(t, "Previous write at") || strings.HasPrefix(t, "Goroutine ") {
				section = t
				if i := strings.Index(section, " at 0x"); i >= 0 {
					section = section[:i]
				}
				if strings.HasPrefix(section, "Goroutine ") {
					section = "created"
				}
				continue
			}
			if m := raceFnRe.FindStringSubmatch(ln); m != nil && section != "created" && section != "" {
				if strings.HasPrefix(m[1], "github.com/deadsy/sdfx") {
					sdfx = true
					if _, ok := first[section]; !ok {
						first[section] = m[1]
					}
				} else if _, ok := first[section]; !ok && !sdfx {
					first[section+"/main"] = m[1]
				}
			}
		}
		for _, v := range first {
			fns = append(fns, v)
		}
		sort.Strings(fns)
		key := strings.Join(fns, " <-> ")
		if r, ok := byKey[key]; ok {
			r.Count++
		} else {
			if len(blk) > 5000 {
				blk = blk[:5000]
			}
			byKey[key] = &raceReport{Key: key, Block: "WARNING: DATA RACE" + blk, Count: 1, Sdfx: sdfx}
		}
	}
	var outR []raceReport
	for _, r := range byKey {
		outR = append(outR, *r)
	}
	sort.Slice(outR, func(i, j int) bool { return outR[i].Key < outR[j].Key })
	return outR
}
