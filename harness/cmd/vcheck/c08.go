//go:build verif

// C08 - 2D contours are closed and lie on the boundary.
package main

import (
	"fmt"
	"math"

	"github.com/deadsy/sdfx/render"
	"github.com/deadsy/sdfx/sdf"
	v2 "github.com/deadsy/sdfx/vec/v2"
)

func init() { checks["C08"] = checkC08 }

type msRenderer struct {
	name string
	mk   func(cells int) render.Render2
}

var msRenderers = []msRenderer{
	{"uniform", func(n int) render.Render2 { return render.NewMarchingSquaresUniform(n) }},
	{"quadtree", func(n int) render.Render2 { return render.NewMarchingSquaresQuadtree(n) }},
}

type c08Case struct {
	Renderer string    `json:"renderer"`
	Family   string    `json:"family"`
	Axis     int       `json:"axis,omitempty"`
	Pattern  int       `json:"pattern"`
	MagClass string    `json:"magnitude_class"`
	Cells    int       `json:"mesh_cells"`
	Values   []float64 `json:"corner_values,omitempty"`
	Shape    string    `json:"shape,omitempty"`
}

func checkC08(c *Ctx) {
	c.Rule("real MarchingSquaresUniform/Quadtree renders collected through a caller-owned Line2Buffer channel: all 16 configurations " +
		"of one interior cell and all 2x64 patterns of two edge-adjacent cells x magnitude draws (uniform, zeros, sub-epsilon, equal, " +
		"1e-6 vs 0.5), random dense fields, circles / boxes / rounded boxes / unions at random resolutions and alignments, and one disc on " +
		"quadtree lattices of 33000..262200 squares a side (closed, on the circle, length = circumference). " +
		"Non-trivial = render emitted >= 1 segment; distinct = (renderer, family, pattern, magnitude class) or (renderer, shape, cells).")
	c.Assume("endpoints are welded at 1e-6 of the cell edge; boundary lattice nodes are outside; 'exactly degree 2' is demanded only for generic (non-degenerate) corner values, even degree always")
	draws := c.Pick(64, 512)
	nRandom := c.Pick(20000, 400000)
	nShapes := c.Pick(1500, 20000)

	for _, rk := range msRenderers {
		cells := 4
		bb := sdf.Box2{Min: v2.Vec{X: -2, Y: -2}, Max: v2.Vec{X: 2, Y: 2}}
		rd := rk.mk(cells)
		lat, err := learnLattice2(rd, bb)
		if err != nil {
			c.Inconclusive(rk.name + ": " + err.Error())
			continue
		}
		cx, cy := lat.cells()
		if cx < 4 || cy < 3 {
			c.Inconclusive(fmt.Sprintf("%s: lattice %dx%d too small", rk.name, cx, cy))
			continue
		}
		cell := math.Min(lat.cellSize().X, lat.cellSize().Y)
		f := newLookupField2(lat, bb, 1e-30)
		cfgSeen := map[int]bool{}
		run := func(cs c08Case, generic bool) {
			ls := collectLines(rd, f)
			c.Eval(1)
			for a := 0; a < cx; a++ {
				for b := 0; b < cy; b++ {
					idx := 0
					for k, o := range [4][2]int{{0, 0}, {1, 0}, {1, 1}, {0, 1}} {
						if *f.at(a+o[0], b+o[1]) < 0 {
							idx |= 1 << k
						}
					}
					cfgSeen[idx] = true
				}
			}
			if f.offLattice > 0 {
				c.Inconclusive(fmt.Sprintf("%s: off-lattice queries", rk.name))
				f.offLattice = 0
				return
			}
			if len(ls) == 0 {
				return
			}
			c.Distinct(fmt.Sprintf("%s/%s/%d/%d/%s", cs.Renderer, cs.Family, cs.Axis, cs.Pattern, cs.MagClass))
			val := func(i, j int) (float64, bool) { return *f.at(i, j), true }
			judgeLines(c, ls, lat, val, cell, cs, generic, f.vals)
		}
		// single cell: 16 configurations
		for pat := 0; pat < 16; pat++ {
			for d := 0; d < draws; d++ {
				r := c.Rng("single", rk.name, pat, d)
				f.fill(0.3)
				k := 0
				for dx := 0; dx < 2; dx++ {
					for dy := 0; dy < 2; dy++ {
						m := drawMagnitude(r, d)
						if pat&(1<<k) != 0 {
							m = -m
						}
						*f.at(1+dx, 1+dy) = m
						k++
					}
				}
				cs := c08Case{Renderer: rk.name, Family: "single-cell", Pattern: pat, MagClass: magClassNames[d%8], Cells: cells}
				if pat == 5 && d == 0 {
					c.Sample(cs)
				}
				run(cs, isGenericMag(d))
			}
		}
		// edge-adjacent pair: 6 free corners, 2 axes
		for axis := 0; axis < 2; axis++ {
			for pat := 0; pat < 64; pat++ {
				for d := 0; d < draws; d++ {
					r := c.Rng("pair", rk.name, axis, pat, d)
					f.fill(0.3)
					k := 0
					for a := 0; a < 3; a++ {
						for b := 0; b < 2; b++ {
							m := drawMagnitude(r, d)
							if pat&(1<<k) != 0 {
								m = -m
							}
							if axis == 0 {
								*f.at(1+a, 1+b) = m
							} else {
								*f.at(1+b, 1+a) = m
							}
							k++
						}
					}
					cs := c08Case{Renderer: rk.name, Family: "cell-pair", Axis: axis, Pattern: pat, MagClass: magClassNames[d%8], Cells: cells}
					run(cs, isGenericMag(d))
				}
			}
		}
		// random dense fields
		for i := 0; i < nRandom; i++ {
			r := c.Rng("random", rk.name, i)
			f.fill(0.3)
			pNeg := r.R(0.1, 0.9)
			for a := 1; a < cx; a++ {
				for b := 1; b < cy; b++ {
					m := drawMagnitude(r, i)
					if r.P(pNeg) {
						m = -m
					}
					*f.at(a, b) = m
				}
			}
			run(c08Case{Renderer: rk.name, Family: "random-field", Pattern: i, MagClass: magClassNames[i%8], Cells: cells}, isGenericMag(i))
		}
		n := 0
		for k := range cfgSeen {
			if k != 0 && k != 15 {
				n++
			}
		}
		c.Obs("cell_configurations_observed_"+rk.name, n)
		if n < 14 {
			c.Inconclusive(fmt.Sprintf("%s: only %d of 14 emitting configurations observed", rk.name, n))
		}
	}
	c.Exhaustive(true)

	// analytic shapes
	parallelFor(nShapes, func(i int) {
		r := c.Rng("shape", i)
		rk := msRenderers[i%2]
		cells := r.IR(5, c.Pick(40, 120))
		if i%16 == 3 {
			cells = r.IR(150, 320) // several buffer flushes per contour
		}
		kind := r.I(6)
		var s sdf.SDF2
		var desc string
		var radius float64
		scale := r.LogR(0.1, 100)
		if r.P(0.3) { // the same outline drawn in other units: closure must not depend on the absolute size of a cell
			scale *= pickOne(r, []float64{1e-6, 1e-5, 1e-4, 1e-3, 1e3, 1e6})
		}
		ofs := v2.Vec{X: r.R(-3, 3) * scale, Y: r.R(-3, 3) * scale}
		if r.P(0.1) {
			ofs = ofs.MulScalar(pickOne(r, []float64{1e2, 1e4}))
		}
		switch kind {
		case 0, 1:
			radius = scale * r.R(0.5, 2)
			s, _ = sdf.Circle2D(radius)
			desc = fmt.Sprintf("circle(%g)", radius)
		case 2:
			sz := v2.Vec{X: scale * r.R(0.5, 3), Y: scale * r.R(0.5, 3)}
			s = sdf.Box2D(sz, 0)
			desc = fmt.Sprintf("box(%g,%g)", sz.X, sz.Y)
		case 3:
			sz := v2.Vec{X: scale * r.R(1, 3), Y: scale * r.R(1, 3)}
			rd := 0.5 * math.Min(sz.X, sz.Y) * r.R(0.1, 1)
			s = sdf.Box2D(sz, rd)
			desc = fmt.Sprintf("rbox(%g,%g,%g)", sz.X, sz.Y, rd)
		case 4:
			a, _ := sdf.Circle2D(scale * r.R(0.5, 1.5))
			b := sdf.Transform2D(sdf.Box2D(v2.Vec{X: scale * r.R(0.5, 2), Y: scale * r.R(0.5, 2)}, 0), sdf.Translate2d(v2.Vec{X: scale * r.R(-1, 1), Y: scale * r.R(-1, 1)}))
			s = sdf.Union2D(a, b)
			desc = "union(circle,box)"
		default:
			// a field that is not a distance: a non-uniformly scaled outline. Stretching (factors >= 1) only underestimates
			// distances, which both renderers must cope with; shrinking overestimates them, which only the quadtree
			// renderer is allowed to rely on not happening
			var base sdf.SDF2
			if r.Bool() {
				base, _ = sdf.Circle2D(scale * r.R(0.5, 1.5))
			} else {
				base = sdf.Box2D(v2.Vec{X: scale * r.R(0.5, 2), Y: scale * r.R(0.5, 2)}, scale*r.R(0, 0.2))
			}
			f := v2.Vec{X: r.LogR(1, 5), Y: r.LogR(1, 5)}
			if rk.name == "uniform" {
				f = v2.Vec{X: r.LogR(0.08, 5), Y: r.LogR(0.08, 5)}
			}
			s = sdf.Transform2D(base, sdf.Scale2d(f))
			desc = fmt.Sprintf("scaled(%.3g,%.3g)", f.X, f.Y)
		}
		rot := 0.0
		if kind >= 2 && r.Bool() {
			rot = r.R(0, 2*math.Pi)
		}
		m := sdf.Translate2d(ofs).Mul(sdf.Rotate2d(rot))
		s = sdf.Transform2D(s, m)
		desc += fmt.Sprintf(" rot=%.4g at (%.4g,%.4g)", rot, ofs.X, ofs.Y)
		rd := rk.mk(cells)
		lat, err := learnLattice2(rd, s.BoundingBox())
		if err != nil {
			c.Inconclusive(rk.name + " shape: " + err.Error())
			return
		}
		rec := newRecSDF2(s)
		var ls []*sdf.Line2
		if i%4 == 3 { // buffered caller-owned channel, drained after the renderer returned
			ch := make(chan []*sdf.Line2, 1<<16)
			rd.Render(rec, sdf.NewLine2Buffer(ch))
			close(ch)
			for b := range ch {
				ls = append(ls, b...)
			}
		} else {
			ls = collectLines(rd, rec)
		}
		c.Eval(1)
		if len(ls) == 0 {
			return
		}
		cs := c08Case{Renderer: rk.name, Family: "shape", Pattern: i, Cells: cells, Shape: desc, MagClass: "analytic"}
		if i < 3 {
			c.Sample(cs)
		}
		c.Distinct(fmt.Sprintf("%s/shape/%s/%d", rk.name, desc, cells))
		val := func(a, b int) (float64, bool) {
			v, ok := rec.events[lat.corner(a, b)]
			return v, ok
		}
		h := math.Max(lat.cellSize().X, lat.cellSize().Y)
		cell := math.Min(lat.cellSize().X, lat.cellSize().Y)
		rep := judgeLines(c, ls, lat, val, cell, cs, false, nil)
		if kind <= 1 && radius > 3*h {
			// circle: endpoints within h^2/(8(R-h)) of the boundary (inside), perimeter from below, second order
			bound := h * h / (8 * (radius - h))
			worst := 0.0
			for _, l := range ls {
				for k := 0; k < 2; k++ {
					d := math.Abs(s.Evaluate(l[k]))
					if d > worst {
						worst = d
					}
				}
			}
			c.MaxObs("circle_worst_endpoint_error_over_bound", worst/bound)
			if worst > bound*(1+1e-9)+1e-12*radius+snapEps { // snapEps: corner values within the renderer's absolute epsilon of zero move the endpoint onto the node
				c.Violate("", fmt.Sprintf("ms-accuracy %s %s cells=%d: endpoint %g off the circle, bound h^2/(8(R-h))=%g", rk.name, desc, cells, worst, bound), cs)
			}
			P := 2 * math.Pi * radius
			gap := P - rep.Length
			pb := 1.5 * (math.Pi*h*h/(6*radius) + 2*math.Pi*bound)
			c.MaxObs("circle_perimeter_gap_over_bound", gap/pb)
			if rep.OddDegree == 0 && (gap < -1e-9*P || gap > pb) {
				c.Violate("", fmt.Sprintf("ms-perimeter %s %s cells=%d: length %g vs perimeter %g, gap %g outside [0, %g]", rk.name, desc, cells, rep.Length, P, gap, pb), cs)
			}
		}
		if kind == 2 && 2*math.Min(boxHalf(desc).X, boxHalf(desc).Y) > 2.5*h {
			// straight boundaries are exact where the field is linear along the crossing lattice edge:
			// away from the corners and for boxes thicker than two cells (no medial axis within one cell of a side)
			worst := 0.0
			for _, l := range ls {
				for k := 0; k < 2; k++ {
					q := sdf.Rotate2d(-rot).MulPosition(l[k].Sub(ofs))
					bs := s.BoundingBox()
					_ = bs
					d := math.Abs(s.Evaluate(l[k]))
					// distance to the nearest corner in the box frame
					half := boxHalf(desc)
					cd := v2.Vec{X: math.Abs(math.Abs(q.X) - half.X), Y: math.Abs(math.Abs(q.Y) - half.Y)}
					if math.Max(cd.X, cd.Y) > 1.5*h && d > worst {
						worst = d
					}
				}
			}
			c.MaxObs("box_worst_straight_edge_error_rel", worst/scale)
			if worst > 1e-9*scale+2*snapEps { // values within the renderer's absolute snap distance of zero move the endpoint onto the node
				c.Violate("", fmt.Sprintf("ms-straight %s %s cells=%d: endpoint %g off a straight boundary", rk.name, desc, cells, worst), cs)
			}
		}
	})
	c08Reuse(c)
	c08DeepQuad(c)
	c.Floor(500)
}

// c08Reuse: one renderer value used for a sequence of outlines of very different sizes; each result must be what a fresh
// renderer of the same configuration gives (a renderer may not keep anything derived from an earlier model).
func c08Reuse(c *Ctx) {
	n := c.Pick(12, 120)
	for i := 0; i < n; i++ {
		r := c.Rng("reuse", i)
		rk := msRenderers[i%2]
		cells := r.IR(8, 64)
		shared := rk.mk(cells)
		for step := 0; step < 4; step++ {
			scale := pickOne(r, []float64{0.05, 1, 10, 100, 600})
			var s sdf.SDF2
			var desc string
			if r.Bool() {
				s, _ = sdf.Circle2D(scale * r.R(0.5, 1))
				desc = fmt.Sprintf("circle of size %g", scale)
			} else {
				s = sdf.Box2D(v2.Vec{X: scale * r.R(0.5, 3), Y: scale * r.R(0.5, 3)}, scale*r.R(0, 0.2))
				desc = fmt.Sprintf("box of size %g", scale)
			}
			s = sdf.Transform2D(s, sdf.Translate2d(v2.Vec{X: r.R(-2, 2) * scale, Y: r.R(-2, 2) * scale}))
			a, b := collectLines(shared, s), collectLines(rk.mk(cells), s)
			c.Eval(2)
			same := len(a) == len(b)
			for k := 0; same && k < len(a); k++ {
				same = *a[k] == *b[k]
			}
			if !same {
				c.Violate("", fmt.Sprintf("ms-history-dependent %s cells=%d step %d (%s): a renderer that rendered other outlines before gives %d segments, a fresh one %d (or different coordinates)", rk.name, cells, step, desc, len(a), len(b)),
					c08Case{Renderer: rk.name, Family: "reuse", Pattern: i, Cells: cells, Shape: desc})
				break
			}
			if step > 0 {
				c.Distinct(fmt.Sprintf("%s/reuse/%d/%d", rk.name, i, step))
			}
		}
	}
}

func boxHalf(desc string) v2.Vec {
	var x, y float64
	fmt.Sscanf(desc, "box(%g,%g)", &x, &y)
	return v2.Vec{X: x / 2, Y: y / 2}
}

func isGenericMag(d int) bool {
	switch d % 8 {
	case 0, 5, 7:
		return true
	}
	return false
}

func judgeLines(c *Ctx, ls []*sdf.Line2, lat *lattice2, val func(i, j int) (float64, bool), cell float64, cs c08Case, generic bool, vals []float64) lineReport {
	rep := checkClosed2(ls, 1e-6*cell)
	c.Count("segments_checked", int64(rep.Segments))
	tag := fmt.Sprintf("%s %s axis=%d pattern=%d mag=%s %s", cs.Renderer, cs.Family, cs.Axis, cs.Pattern, cs.MagClass, cs.Shape)
	if rep.NaN > 0 {
		cs.Values = vals
		c.Violate("", "ms-nan "+tag, cs)
		return rep
	}
	if rep.OddDegree > 0 {
		cs.Values = vals
		c.Violate("", fmt.Sprintf("ms-open %s: %d endpoints of odd degree (first %v) in %d segments", tag, rep.OddDegree, rep.FirstOdd, rep.Segments), cs)
	}
	if rep.ZeroLength > 0 {
		cs.Values = vals
		c.Violate("", fmt.Sprintf("ms-zero-length %s: %d zero-length segments", tag, rep.ZeroLength), cs)
	}
	if generic && len(rep.HighDeg) > 0 {
		cs.Values = vals
		c.Violate("", fmt.Sprintf("ms-degree %s: %d endpoints of degree > 2 with generic corner values (first %v)", tag, len(rep.HighDeg), rep.HighDeg[0]), cs)
	}
	bad := 0
	var why string
	var first v2.Vec
	for _, l := range ls {
		for k := 0; k < 2; k++ {
			ok, w := explain2(lat, val, l[k].X, l[k].Y)
			c.Count("endpoints_matched_against_event_log", 1)
			if !ok {
				if bad == 0 {
					why, first = w, l[k]
				}
				bad++
			}
		}
	}
	if bad > 0 {
		cs.Values = vals
		c.Violate("", fmt.Sprintf("ms-crossing %s: %d endpoints are not the linear zero crossing of a straddling lattice edge (first %v: %s)", tag, bad, first, why), cs)
	}
	// the converse (completeness): every lattice edge whose two recorded end values straddle zero clearly (beyond the snap
	// epsilon) must carry an endpoint - a renderer that evaluates a column but never turns it into segments is seen here
	if bad == 0 && rep.NaN == 0 {
		type key struct{ x, y int64 }
		q := 1e-6 * cell
		have := map[key]bool{}
		for _, l := range ls {
			for k := 0; k < 2; k++ {
				have[key{int64(math.Round(l[k].X / q)), int64(math.Round(l[k].Y / q))}] = true
			}
		}
		near := func(p v2.Vec) bool {
			kx, ky := int64(math.Round(p.X/q)), int64(math.Round(p.Y/q))
			for dx := int64(-1); dx <= 1; dx++ {
				for dy := int64(-1); dy <= 1; dy++ {
					if have[key{kx + dx, ky + dy}] {
						return true
					}
				}
			}
			return false
		}
		cx, cy := lat.cells()
		missing := 0
		var firstMissing v2.Vec
		checkEdge := func(a, b v2.Vec, va, vb float64) {
			if (va < 0) == (vb < 0) || math.Abs(va) < 4*snapEps || math.Abs(vb) < 4*snapEps {
				return
			}
			t := va / (va - vb)
			p := v2.Vec{X: a.X + t*(b.X-a.X), Y: a.Y + t*(b.Y-a.Y)}
			if !near(p) {
				if missing == 0 {
					firstMissing = p
				}
				missing++
			}
		}
		for i := 0; i <= cx; i++ {
			for j := 0; j <= cy; j++ {
				v0, ok0 := val(i, j)
				if !ok0 {
					continue
				}
				if i < cx {
					if v1, ok := val(i+1, j); ok {
						checkEdge(lat.corner(i, j), lat.corner(i+1, j), v0, v1)
					}
				}
				if j < cy {
					if v1, ok := val(i, j+1); ok {
						checkEdge(lat.corner(i, j), lat.corner(i, j+1), v0, v1)
					}
				}
			}
		}
		c.Count("straddling_lattice_edges_checked_for_an_endpoint", 1)
		if missing > 0 {
			cs.Values = vals
			c.Violate("", fmt.Sprintf("ms-incomplete %s: %d lattice edges whose sampled end values straddle zero carry no endpoint (first expected at %v)", tag, missing, firstMissing), cs)
		}
	}
	return rep
}

// c08DeepQuad: one disc on quadtree lattices of 33000 and more squares a side, where lattice coordinates pass 2^15, 2^16 and
// 2^17 (a part drawn at plot resolution). Only squares next to the circle are visited, so the render is cheap; whatever the
// renderer keys, packs or truncates by lattice coordinate shows here and nowhere below. Oracle: the segments form closed
// curves, every endpoint is on the circle to within a cell, and the total length is the circumference (one loop, no more).
func c08DeepQuad(c *Ctx) {
	cells := []int{33000, 40000, 66000}
	if !c.Quick {
		cells = append(cells, 20000, 50000, 131100, 200000, 262200)
	}
	parallelFor(len(cells), func(i int) {
		n := cells[i]
		r := c.Rng("deepquad", i)
		bb := sdf.Box2{Min: v2.Vec{X: -1.3, Y: -1.3}, Max: v2.Vec{X: 1.3, Y: 1.3}}
		ctr := v2.Vec{X: r.R(-0.2, 0.2), Y: r.R(-0.2, 0.2)}
		rad := r.R(0.8, 1.05)
		ls := collectLines(render.NewMarchingSquaresQuadtree(n), &fieldSDF2{bb: bb, fn: func(p v2.Vec) float64 { return math.Hypot(p.X-ctr.X, p.Y-ctr.Y) - rad }})
		c.Eval(1)
		cell := 2.6 / float64(n)
		cs := c08Case{Renderer: "quadtree", Family: "deep-lattice-disc", Cells: n, Shape: fmt.Sprintf("disc r=%.6g at %v in [-1.3,1.3]^2", rad, ctr)}
		tag := fmt.Sprintf("quadtree deep-lattice-disc cells=%d %s", n, cs.Shape)
		rep := checkClosed2(ls, 1e-6*cell)
		c.Count("segments_checked", int64(rep.Segments))
		if rep.NaN > 0 || rep.Segments == 0 {
			c.Violate("", fmt.Sprintf("ms-nan %s: %d segments, %d with NaN/Inf coordinates", tag, rep.Segments, rep.NaN), cs)
			return
		}
		if rep.OddDegree > 0 {
			c.Violate("", fmt.Sprintf("ms-open %s: %d endpoints of odd degree (first %v) in %d segments", tag, rep.OddDegree, rep.FirstOdd, rep.Segments), cs)
			return
		}
		worst, length := 0.0, 0.0
		var at v2.Vec
		for _, l := range ls {
			for k := 0; k < 2; k++ {
				if d := math.Abs(math.Hypot(l[k].X-ctr.X, l[k].Y-ctr.Y) - rad); d > worst {
					worst, at = d, l[k]
				}
			}
			length += math.Hypot(l[1].X-l[0].X, l[1].Y-l[0].Y)
		}
		if worst > cell {
			c.Violate("", fmt.Sprintf("ms-off-boundary %s: endpoint %v is %.3g from the circle, the cell edge is %.3g", tag, at, worst, cell), cs)
			return
		}
		if want := 2 * math.Pi * rad; math.Abs(length-want) > 1e-4*want {
			c.Violate("", fmt.Sprintf("ms-incomplete %s: total length %.9g, circumference %.9g", tag, length, want), cs)
			return
		}
		c.MaxObs("deep_quadtree_worst_endpoint_distance_over_cell", worst/cell)
		c.Distinct(fmt.Sprintf("quadtree/deep-lattice-disc/%d", n))
	})
}
