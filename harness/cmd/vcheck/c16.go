//go:build verif

// C16 - pruned evaluation equals exhaustive evaluation.
package main

import (
	"fmt"
	"math"

	"github.com/deadsy/sdfx/sdf"
	v2 "github.com/deadsy/sdfx/vec/v2"
	v3 "github.com/deadsy/sdfx/vec/v3"
)

func init() { checks["C16"] = checkC16 }

// axisPick returns a coordinate relative to [lo,hi] and its position class
// (0 below, 1 within, 2 above); boundary values are produced on purpose.
func axisPick(r *Rng, lo, hi float64) (float64, int) {
	w := hi - lo
	switch r.I(9) {
	case 0:
		return lo - r.LogR(1e-6, 10)*w, 0
	case 1:
		return hi + r.LogR(1e-6, 10)*w, 2
	case 2:
		return lo, 1
	case 3:
		return hi, 1
	case 4:
		return lo + 0.5*w, 1
	case 5:
		return lo - r.R(0, 3)*w, 0
	case 6:
		return hi + r.R(0, 3)*w, 2
	default:
		return lo + r.F()*w, 1
	}
}

func oracleMinMax1(p, lo, hi float64) (float64, float64) {
	c := math.Min(math.Max(p, lo), hi)
	mn := p - c
	mx := math.Max(math.Abs(p-lo), math.Abs(p-hi))
	return mn * mn, mx * mx
}

func checkC16(c *Ctx) {
	c.Rule("boxes x points stratified over the 9 (2D) / 27 (3D) below/within/above position classes incl. class boundaries; " +
		"interval pairs incl. touching/degenerate; unions of 2..12 (one in 16: 13..130, around the block sizes 16/32/64) exact 2D operands x {default, PolyMin, RoundMin, ChamferMin, ExpMin} " +
		"x points near/inside/between operand boxes. Distinct non-trivial = (dimension, position class) for boxes, " +
		"(blend kind, operand count, pruning-happened) for unions, counted only when the pruned path really skipped an operand.")
	c.Assume("union operands are exact-distance 2D shapes with tight boxes (circle, box, rounded box, rigidly transformed) - the domain where box pruning is meant to be exact")

	// (a) Box2 / Box3 MinMaxDist2
	nBox := c.Pick(20000, 1500000)
	r := c.Rng("box")
	classes2 := map[int]int{}
	classes3 := map[int]int{}
	for i := 0; i < nBox; i++ {
		scale := r.LogR(1e-3, 1e3)
		ctr := r.R(-10, 10) * scale
		// 2D
		{
			lo := v2.Vec{X: ctr + r.R(-1, 1)*scale, Y: r.R(-5, 5) * scale}
			hi := v2.Vec{X: lo.X + r.LogR(1e-3, 2)*scale, Y: lo.Y + r.LogR(1e-3, 2)*scale}
			b := sdf.Box2{Min: lo, Max: hi}
			px, cx := axisPick(r, lo.X, hi.X)
			py, cy := axisPick(r, lo.Y, hi.Y)
			p := v2.Vec{X: px, Y: py}
			got := b.MinMaxDist2(p)
			mnx, mxx := oracleMinMax1(px, lo.X, hi.X)
			mny, mxy := oracleMinMax1(py, lo.Y, hi.Y)
			wantMin, wantMax := mnx+mny, mxx+mxy
			tol := 1e-11*(wantMax+p.Length2()+hi.Length2()) + 1e-300
			cls := cx*3 + cy
			classes2[cls]++
			c.Eval(1)
			c.Distinct(fmt.Sprintf("box2/class%d", cls))
			if math.Abs(got[0]-wantMin) > tol || math.Abs(got[1]-wantMax) > tol || math.IsNaN(got[0]) || math.IsNaN(got[1]) {
				c.Violate("", fmt.Sprintf("Box2.MinMaxDist2 box=%v p=%v got=%v want=[%g %g] class=%d", b, p, got, wantMin, wantMax, cls),
					map[string]any{"kind": "box2", "min": lo, "max": hi, "p": p, "got": got, "want": []float64{wantMin, wantMax}})
			}
		}
		// 3D
		{
			lo := v3.Vec{X: ctr + r.R(-1, 1)*scale, Y: r.R(-5, 5) * scale, Z: r.R(-5, 5) * scale}
			hi := v3.Vec{X: lo.X + r.LogR(1e-3, 2)*scale, Y: lo.Y + r.LogR(1e-3, 2)*scale, Z: lo.Z + r.LogR(1e-3, 2)*scale}
			b := sdf.Box3{Min: lo, Max: hi}
			px, cx := axisPick(r, lo.X, hi.X)
			py, cy := axisPick(r, lo.Y, hi.Y)
			pz, cz := axisPick(r, lo.Z, hi.Z)
			p := v3.Vec{X: px, Y: py, Z: pz}
			got := b.MinMaxDist2(p)
			mnx, mxx := oracleMinMax1(px, lo.X, hi.X)
			mny, mxy := oracleMinMax1(py, lo.Y, hi.Y)
			mnz, mxz := oracleMinMax1(pz, lo.Z, hi.Z)
			wantMin, wantMax := mnx+mny+mnz, mxx+mxy+mxz
			tol := 1e-11*(wantMax+p.Length2()+hi.Length2()) + 1e-300
			cls := cx*9 + cy*3 + cz
			classes3[cls]++
			c.Eval(1)
			c.Distinct(fmt.Sprintf("box3/class%d", cls))
			if math.Abs(got[0]-wantMin) > tol || math.Abs(got[1]-wantMax) > tol || math.IsNaN(got[0]) || math.IsNaN(got[1]) {
				c.Violate("", fmt.Sprintf("Box3.MinMaxDist2 box=%v p=%v got=%v want=[%g %g] class=%d", b, p, got, wantMin, wantMax, cls),
					map[string]any{"kind": "box3", "min": lo, "max": hi, "p": p, "got": got, "want": []float64{wantMin, wantMax}})
			}
		}
	}
	c.Obs("box2_position_classes_seen", len(classes2))
	c.Obs("box3_position_classes_seen", len(classes3))
	c.Sample(map[string]any{"kind": "box3", "box": sdf.Box3{Min: v3.Vec{X: -1, Y: -1, Z: -1}, Max: v3.Vec{X: 1, Y: 1, Z: 1}}, "p": v3.Vec{X: 0, Y: 2, Z: 2}, "oracle": []float64{2, 27}})
	// pinned regression: point nearest to an edge of the box (fixed defect, see known_findings.json)
	{
		b := sdf.Box3{Min: v3.Vec{X: -1, Y: -1, Z: -1}, Max: v3.Vec{X: 1, Y: 1, Z: 1}}
		for _, p := range []v3.Vec{{X: 0, Y: 2, Z: 2}, {X: 2, Y: 0, Z: -2}, {X: -2, Y: 2, Z: 0.5}} {
			got := b.MinMaxDist2(p)
			d := p.Abs().SubScalar(1).Max(v3.Vec{})
			c.Eval(1)
			if math.Abs(got[0]-d.Length2()) > 1e-12 {
				c.Violate("", fmt.Sprintf("Box3.MinMaxDist2 edge region: box=[-1,1]^3 p=%v min2 got %g want %g", p, got[0], d.Length2()),
					map[string]any{"kind": "box3-edge", "p": p, "got": got})
			}
		}
	}

	// pinned known findings: Union2D's pruning presumes operands with material in their box whose value is at least the
	// distance to the box (see known_findings.json); identified by these exact inputs
	{
		a, _ := sdf.Circle2D(1)
		b := sdf.Transform2D(sdf.Box2D(v2.Vec{X: 2, Y: 2}, 0), sdf.Translate2d(v2.Vec{X: 10}).Mul(sdf.Scale2d(v2.Vec{X: 1, Y: 4})))
		u := sdf.Union2D(a, b).(*sdf.UnionSDF2)
		p := v2.Vec{X: -50, Y: 60}
		c.Eval(1)
		if f, s := u.Evaluate(p), u.EvaluateSlow(p); f != s {
			c.Violate("union2d-pruning-nonuniform-scaled-operand", fmt.Sprintf("Union2D pruned!=exhaustive Union2D(Circle2D(1), Box2D(2,2) scaled (1,4) at (10,0)) at p=%v: Evaluate=%g EvaluateSlow=%g", p, f, s), map[string]any{"p": p})
		}
		e := sdf.Intersect2D(sdf.Box2D(v2.Vec{X: 2, Y: 2}, 0), sdf.Transform2D(a, sdf.Translate2d(v2.Vec{X: 10})))
		u2 := sdf.Union2D(e, sdf.Transform2D(a, sdf.Translate2d(v2.Vec{X: 8}))).(*sdf.UnionSDF2)
		p = v2.Vec{X: 2}
		c.Eval(1)
		if f, s := u2.Evaluate(p), u2.EvaluateSlow(p); f != s {
			c.Violate("union2d-pruning-empty-operand", fmt.Sprintf("Union2D pruned!=exhaustive Union2D(Intersect2D(Box2D(2,2), Circle2D(1) at (10,0)) [empty], Circle2D(1) at (8,0)) at p=%v: Evaluate=%g EvaluateSlow=%g", p, f, s), map[string]any{"p": p})
		}
	}

	// (b) Interval.Overlap
	ri := c.Rng("interval")
	nInt := c.Pick(20000, 1000000)
	ovSeen := map[string]int{}
	vals := []float64{0, 1, 2, 3, 0.5, 1.5, 2.5, 1e-300, 1e300}
	for i := 0; i < nInt; i++ {
		var a, b sdf.Interval
		if ri.P(0.5) {
			a = sdf.Interval{pickOne(ri, vals), pickOne(ri, vals)}.Sort()
			b = sdf.Interval{pickOne(ri, vals), pickOne(ri, vals)}.Sort()
		} else {
			a = sdf.Interval{ri.R(0, 10), ri.R(0, 10)}.Sort()
			b = sdf.Interval{ri.R(0, 10), ri.R(0, 10)}.Sort()
		}
		want := math.Max(a[0], b[0]) <= math.Min(a[1], b[1])
		got := a.Overlap(b)
		got2 := b.Overlap(a)
		c.Eval(1)
		k := fmt.Sprintf("interval/overlap=%v/touch=%v", want, math.Max(a[0], b[0]) == math.Min(a[1], b[1]))
		ovSeen[k]++
		c.Distinct(k)
		if got != want || got2 != want {
			c.Violate("", fmt.Sprintf("Interval.Overlap a=%v b=%v got=%v/%v want=%v", a, b, got, got2, want),
				map[string]any{"kind": "interval", "a": a, "b": b})
		}
	}
	c.Obs("interval_classes", ovSeen)

	// (c) Union2D pruned vs EvaluateSlow
	nUni := c.Pick(24000, 200000)
	nPts := c.Pick(400, 1500)
	blends := []string{"default", "PolyMin", "RoundMin", "ChamferMin", "ExpMin"}
	type uniCase struct {
		Seed  int
		Blend string
		K     float64
		Ops   []string
	}
	parallelFor(nUni, func(i int) {
		ru := c.Rng("union", i)
		n := ru.IR(2, 12)
		if i%16 == 5 {
			// big unions (hole patterns, text lines): anything that treats the operand list in blocks, or keeps per-operand
			// scratch of a fixed size, only shows beyond its block size
			n = pickOne(ru, []int{13, 16, 17, 31, 32, 33, 34, 40, 48, 63, 64, 65, 70, 96, 130})
			if ru.Bool() {
				n = ru.IR(13, 80)
			}
		}
		scale := ru.LogR(0.1, 100)
		ops := make([]sdf.SDF2, 0, n)
		desc := make([]string, 0, n)
		var counters []*countSDF2
		layout := ru.I(5) // 0 scattered, 1 clustered/overlapping, 2 nested, 3 touching row, 4 dyadic lattice (exact ties)
		for j := 0; j < n; j++ {
			var s sdf.SDF2
			size := scale * ru.LogR(0.02, 1)
			var d string
			switch ru.I(3) {
			case 0:
				s, _ = sdf.Circle2D(size)
				d = fmt.Sprintf("circle(%g)", size)
			case 1:
				sz := v2.Vec{X: size * ru.R(0.5, 2), Y: size * ru.R(0.5, 2)}
				s = sdf.Box2D(sz, 0)
				d = fmt.Sprintf("box(%g,%g)", sz.X, sz.Y)
			default:
				sz := v2.Vec{X: size * ru.R(1, 2), Y: size * ru.R(1, 2)}
				rd := 0.5 * math.Min(sz.X, sz.Y) * ru.R(0, 1)
				s = sdf.Box2D(sz, rd)
				d = fmt.Sprintf("rbox(%g,%g,%g)", sz.X, sz.Y, rd)
			}
			if ru.P(0.08) { // a bare segment: no area, a box without height, but a distance like any other operand
				s = sdf.Line2D(size*ru.R(1, 4), 0)
				d = fmt.Sprintf("segment(%g)", size)
			}
			if layout == 4 { // exactly representable sizes and positions, no rotation: points can lie exactly on operand boundaries
				q := float64(ru.IR(1, 8)) / 4
				if ru.Bool() {
					s, _ = sdf.Circle2D(q)
					d = fmt.Sprintf("circle(%g)", q)
				} else {
					sz := v2.Vec{X: 2 * q, Y: float64(ru.IR(1, 8)) / 2}
					s = sdf.Box2D(sz, 0)
					d = fmt.Sprintf("box(%g,%g)", sz.X, sz.Y)
				}
				t := v2.Vec{X: float64(ru.IR(-16, 16)) / 8, Y: float64(ru.IR(-16, 16)) / 8}
				if j == n-1 && ru.Bool() {
					t = v2.Vec{X: 40, Y: 40} // a far operand
				}
				s = sdf.Transform2D(s, sdf.Translate2d(t))
				cs := &countSDF2{s: s}
				counters = append(counters, cs)
				ops = append(ops, cs)
				desc = append(desc, fmt.Sprintf("%s@(%g,%g)", d, t.X, t.Y))
				continue
			}
			combined := false
			if ru.P(0.2) {
				// a partial overlap of two primitives: Intersect2D / Difference2D of an exact first operand never report less than
				// the distance to the first operand's box, so they are legitimate operands of a pruned union
				size2 := size * ru.R(0.4, 1.5)
				var s1 sdf.SDF2
				switch ru.I(3) {
				case 0:
					s1, _ = sdf.Circle2D(size2)
				case 1:
					s1 = sdf.Box2D(v2.Vec{X: size2 * ru.R(0.5, 2), Y: size2 * ru.R(0.5, 2)}, 0)
				default: // a long thin bar across the first operand: the common part is much smaller than either box
					s1 = sdf.Box2D(v2.Vec{X: size2 * ru.R(0.05, 0.4), Y: size2 * ru.R(2, 8)}, 0)
				}
				off := v2.Vec{X: ru.R(-1, 1) * size, Y: ru.R(-1, 1) * size}
				s1 = sdf.Transform2D(s1, sdf.Translate2d(off).Mul(sdf.Rotate2d(ru.R(0, 6.28))))
				var cmb sdf.SDF2
				var cd string
				if ru.Bool() {
					cmb, cd = sdf.Intersect2D(s, s1), "intersect"
				} else {
					cmb, cd = sdf.Difference2D(s, s1), "difference"
				}
				// keep it only if it has material (an empty operand is a known finding of its own)
				has := false
				cb := s.BoundingBox()
				for t := 0; t < 60 && !has; t++ {
					has = cmb.Evaluate(v2.Vec{X: ru.R(cb.Min.X, cb.Max.X), Y: ru.R(cb.Min.Y, cb.Max.Y)}) < -1e-6*size
				}
				if has {
					s, d = cmb, fmt.Sprintf("%s(%s, prim(%g)+(%.3g,%.3g))", cd, d, size2, off.X, off.Y)
					combined = true
				}
			}
			var t v2.Vec
			switch layout {
			case 0:
				t = v2.Vec{X: ru.R(-3, 3) * scale, Y: ru.R(-3, 3) * scale}
			case 1:
				t = v2.Vec{X: ru.R(-0.5, 0.5) * scale, Y: ru.R(-0.5, 0.5) * scale}
			case 2:
				t = v2.Vec{X: ru.R(-0.05, 0.05) * scale, Y: ru.R(-0.05, 0.05) * scale}
			default:
				t = v2.Vec{X: float64(j) * scale * 0.5, Y: 0}
			}
			ang := ru.R(0, 2*math.Pi)
			if combined && ru.P(0.6) {
				ang = 0 // keep the operand's own (possibly tight) box: a rotation would only loosen it
			}
			m := sdf.Translate2d(t).Mul(sdf.Rotate2d(ang))
			if ang != 0 || t != (v2.Vec{}) {
				s = sdf.Transform2D(s, m)
			}
			cs := &countSDF2{s: s}
			counters = append(counters, cs)
			ops = append(ops, cs)
			desc = append(desc, fmt.Sprintf("%s@(%.4g,%.4g)", d, t.X, t.Y))
		}
		// Union2D documents that nil operands are stripped: interleave some (positions matter for any per-operand bookkeeping)
		args := ops
		if ru.P(0.35) {
			args = nil
			for _, o := range ops {
				for ru.P(0.3) {
					args = append(args, nil)
				}
				args = append(args, o)
			}
			if ru.Bool() {
				args = append(args, nil)
			}
		}
		blend := blends[i%len(blends)]
		// a nested union as one operand; its own blend is installed before or after the outer union is built. A blended
		// operand can dip below the distance to its own box (known finding), so such cases are queried inside that box only.
		var nested *sdf.UnionSDF2
		nestedLate := false
		nestedPlain := false
		if blend == "default" && layout != 4 && len(ops) >= 3 && ru.P(0.3) {
			if ru.P(0.4) { // one member of the nested union is a bare segment reaching out of its sibling's box
				seg := sdf.Transform2D(sdf.Line2D(scale*ru.R(2, 8), 0), sdf.Translate2d(ops[1].BoundingBox().Center()).Mul(sdf.Rotate2d(pickOne(ru, []float64{0, 0, ru.R(0, 6.28)})))) // mostly axis aligned: a box without height
				cs := &countSDF2{s: seg}
				counters = append(counters, cs)
				ops[0] = cs
				desc[0] = "segment through operand 1"
			}
			if in, ok := sdf.Union2D(ops[0], ops[1]).(*sdf.UnionSDF2); ok {
				nested, nestedLate = in, ru.Bool()
				nestedPlain = ru.P(0.35) // a plain nested union: exact everywhere, so it is queried everywhere
				if !nestedLate && !nestedPlain {
					nested.SetMin(sdf.PolyMin(scale * ru.LogR(0.05, 1)))
				}
				rest := append([]sdf.SDF2{nested}, ops[2:]...)
				args = rest
			}
		}
		// the union is built from a scratch slice (with spare capacity) which the caller reuses afterwards for other, far away
		// operands: neither the pruned nor the exhaustive path may be affected, and the caller's slice must come back unchanged
		scratchArgs := append(make([]sdf.SDF2, 0, len(args)+6), args...)
		u0 := sdf.Union2D(scratchArgs...)
		u, ok := u0.(*sdf.UnionSDF2)
		if !ok {
			return
		}
		for j := range args {
			if scratchArgs[j] != args[j] {
				c.Violate("", fmt.Sprintf("Union2D argument-modified: entry %d of the caller's operand slice changed during construction (n=%d)", j, len(args)), map[string]any{"kind": "union2d-alias", "union_index": i})
				return
			}
		}
		if ru.P(0.5) {
			farC, _ := sdf.Circle2D(scale * 0.2)
			for j := range scratchArgs {
				scratchArgs[j] = sdf.Transform2D(farC, sdf.Translate2d(v2.Vec{X: scale * (60 + float64(j)), Y: -scale * 70}))
			}
			scratchArgs = append(scratchArgs[:0], farC, farC)
		}
		if nested != nil && nestedLate && !nestedPlain {
			nested.SetMin(sdf.PolyMin(scale * ru.LogR(0.05, 1)))
		}
		k := scale * ru.LogR(0.01, 3)
		// history: one evaluation with the default minimum before a blend is installed; that very point is queried again first
		warm := v2.Vec{X: ru.R(-1, 1) * scale, Y: ru.R(-1, 1) * scale}
		u.Evaluate(warm)
		switch blend {
		case "PolyMin":
			u.SetMin(sdf.PolyMin(k))
		case "RoundMin":
			u.SetMin(sdf.RoundMin(k))
		case "ChamferMin":
			u.SetMin(sdf.ChamferMin(k))
		case "ExpMin":
			u.SetMin(sdf.ExpMin(32 / scale * ru.R(0.2, 5)))
		}
		if blend != "default" && ru.P(0.25) {
			// setter sequence: a blend is installed and then taken back by installing the plain minimum again
			u.SetMin(math.Min)
			blend = "default"
		}
		bb := u.BoundingBox()
		pruned := false
		nviol := 0
		for q := 0; q < nPts; q++ {
			var p v2.Vec
			mode := ru.I(4)
			if ru.P(0.2) {
				mode = 7
			}
			if layout == 4 && ru.P(0.7) {
				mode = 4
			}
			if q == 0 {
				mode = 5
			}
			if nested != nil && !nestedPlain {
				mode = 6
			}
			switch mode {
			case 4: // dyadic lattice point
				p = v2.Vec{X: float64(ru.IR(-24, 24)) / 8, Y: float64(ru.IR(-24, 24)) / 8}
			case 5:
				p = warm
			case 6:
				nb := nested.BoundingBox()
				p = v2.Vec{X: ru.R(nb.Min.X, nb.Max.X), Y: ru.R(nb.Min.Y, nb.Max.Y)}
			case 7: // diagonally off a corner of an operand's box (where a box is furthest from what it holds)
				ob := ops[ru.I(len(ops))].BoundingBox()
				sx, sy := ru.Sign(), ru.Sign()
				cn := v2.Vec{X: ob.Center().X + sx*ob.Size().X/2, Y: ob.Center().Y + sy*ob.Size().Y/2}
				t := ob.Size().Length() * ru.LogR(0.02, 3)
				p = cn.Add(v2.Vec{X: sx * t * ru.R(0.5, 1), Y: sy * t * ru.R(0.5, 1)})
			case 0: // anywhere in an enlarged box
				ctr := bb.Center()
				sz := bb.Size()
				p = v2.Vec{X: ctr.X + ru.R(-1.5, 1.5)*sz.X, Y: ctr.Y + ru.R(-1.5, 1.5)*sz.Y}
			case 1: // near an operand's box boundary
				ob := ops[ru.I(len(ops))].BoundingBox()
				px, _ := axisPick(ru, ob.Min.X, ob.Max.X)
				py, _ := axisPick(ru, ob.Min.Y, ob.Max.Y)
				p = v2.Vec{X: px, Y: py}
			case 2: // between two operands
				a := ops[ru.I(len(ops))].BoundingBox().Center()
				b := ops[ru.I(len(ops))].BoundingBox().Center()
				t := ru.R(-0.2, 1.2)
				p = a.Add(b.Sub(a).MulScalar(t))
			default: // close to the surface of one operand (walk to |f| small)
				ob := ops[ru.I(len(ops))]
				bbx := ob.BoundingBox()
				p = v2.Vec{X: ru.R(bbx.Min.X, bbx.Max.X), Y: ru.R(bbx.Min.Y, bbx.Max.Y)}
				p = p.Add(v2.Vec{X: ru.N(), Y: ru.N()}.MulScalar(k * 0.3))
			}
			for _, cs := range counters {
				cs.n = 0
			}
			fast := u.Evaluate(p)
			evalsFast := 0
			for _, cs := range counters {
				evalsFast += cs.n
			}
			slow := u.EvaluateSlow(p)
			if evalsFast < len(ops) {
				pruned = true
			}
			bad := false
			if blend == "default" {
				bad = fast != slow
			} else {
				// identical inside/outside: a sign disagreement only counts when the
				// exhaustive value is clearly away from zero.
				tol := 1e-9 * scale
				bad = (slow < -tol && fast >= 0) || (slow > tol && fast <= 0) || math.IsNaN(fast) != math.IsNaN(slow)
			}
			if bad {
				nviol++
				if nviol <= 1 {
					c.Violate("", fmt.Sprintf("Union2D pruned!=exhaustive blend=%s k=%g n=%d p=%v fast=%g slow=%g evaluated %d/%d operands",
						blend, k, len(ops), p, fast, slow, evalsFast, len(ops)),
						map[string]any{"kind": "union2d", "union_index": i, "blend": blend, "k": k, "operands": desc, "p": p, "fast": fast, "slow": slow})
				}
			}
		}
		c.Eval(nPts)
		if pruned {
			c.Distinct(fmt.Sprintf("union/%s/n=%d/layout=%d", blend, min(len(ops), 13+(len(ops)-13)/16*16), layout))
			c.Count("unions_where_pruning_skipped_operands", 1)
		}
		if i < 2 {
			c.Sample(uniCase{i, blend, k, desc})
		}
	})
	// (d) unions the library builds itself from one object at several positions (Multi2D, LineOf2D): the object is NOT centred
	// on its own origin (a pad next to its reference pin), so each copy's box has to be the object's box moved, not a box
	// of the same size centred on the position
	parallelFor(c.Pick(400, 4000), func(i int) {
		r := c.Rng("multi", i)
		scale := r.LogR(0.1, 50)
		var base sdf.SDF2
		switch r.I(3) {
		case 0:
			base, _ = sdf.Circle2D(scale * r.R(0.3, 1))
		case 1:
			base = sdf.Box2D(v2.Vec{X: scale * r.R(0.3, 2), Y: scale * r.R(0.3, 2)}, 0)
		default:
			base = sdf.Box2D(v2.Vec{X: scale * r.R(0.5, 2), Y: scale * r.R(0.5, 2)}, scale*0.1)
		}
		off := v2.Vec{X: r.R(-6, 6) * scale, Y: r.R(-6, 6) * scale}
		obj := sdf.Transform2D(base, sdf.Translate2d(off).Mul(sdf.Rotate2d(r.R(0, 6.28))))
		var u sdf.SDF2
		var ps v2.VecSet
		var desc string
		if r.Bool() {
			for j := 0; j < r.IR(2, 9); j++ {
				ps = append(ps, v2.Vec{X: r.R(-8, 8) * scale, Y: r.R(-8, 8) * scale})
			}
			u, desc = sdf.Multi2D(obj, ps), fmt.Sprintf("Multi2D of an object %v off its origin at %d positions", off, len(ps))
		} else {
			p0, p1 := v2.Vec{X: r.R(-8, 8) * scale, Y: r.R(-8, 8) * scale}, v2.Vec{X: r.R(-8, 8) * scale, Y: r.R(-8, 8) * scale}
			pat := pickOne(r, []string{"xxxx", "x.x.x", "xx..xx", "xx"})
			u, desc = sdf.LineOf2D(obj, p0, p1, pat), fmt.Sprintf("LineOf2D(%q) of an object %v off its origin", pat, off)
			ps = nil // positions are the library's business here: only pruned against exhaustive is compared
		}
		un, ok := u.(*sdf.UnionSDF2)
		if !ok {
			return
		}
		c.Eval(1)
		bb := un.BoundingBox()
		for q := 0; q < 200; q++ {
			p := v2.Vec{X: r.R(bb.Min.X, bb.Max.X), Y: r.R(bb.Min.Y, bb.Max.Y)}
			if q%2 == 1 && len(ps) > 0 { // inside / next to one of the copies
				p = ps[r.I(len(ps))].Add(off).Add(v2.Vec{X: r.N(), Y: r.N()}.MulScalar(scale))
			}
			fast, slow := un.Evaluate(p), un.EvaluateSlow(p)
			want := slow
			if len(ps) > 0 {
				want = math.Inf(1)
				for _, t := range ps {
					want = math.Min(want, obj.Evaluate(p.Sub(t)))
				}
			}
			if fast != slow || math.Abs(fast-want) > 1e-9*(scale+math.Abs(want)) {
				c.Violate("", fmt.Sprintf("Union2D pruned!=exhaustive %s at p=%v: Evaluate=%g EvaluateSlow=%g, minimum over the copies=%g", desc, p, fast, slow, want),
					map[string]any{"kind": "multi2d", "index": i, "p": p})
				return
			}
		}
		c.Distinct(fmt.Sprintf("multi/%d", i%40))
	})
	c.Floor(40)
}

// countSDF2 counts evaluations of a wrapped operand (single goroutine use).
type countSDF2 struct {
	s sdf.SDF2
	n int
}

func (s *countSDF2) Evaluate(p v2.Vec) float64 { s.n++; return s.s.Evaluate(p) }
func (s *countSDF2) BoundingBox() sdf.Box2     { return s.s.BoundingBox() }
