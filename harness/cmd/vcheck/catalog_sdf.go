//go:build verif

// Shape catalog, part 1: public constructors of sdf/ that the expression-tree
// generator (gen.go) does not cover, plus the catalog self-test child mode.
package main

import (
	"fmt"
	"math"
	"os"
	"reflect"
	"sort"
	"strings"
	"sync"
	"time"

	"github.com/deadsy/sdfx/sdf"
	v2 "github.com/deadsy/sdfx/vec/v2"
	v3 "github.com/deadsy/sdfx/vec/v3"
	"github.com/deadsy/sdfx/vec/v3i"
	"github.com/golang/freetype/truetype"
)

//-----------------------------------------------------------------------------
// shared helpers (all prefixed cat)

// catM perturbs a base value multiplicatively by x0.5 .. x2 (log-uniform).
func catM(r *Rng, x float64) float64 { return x * r.LogR(0.5, 2) }

// catMn is a narrower perturbation (x0.8 .. x1.25) for tightly coupled designs.
func catMn(r *Rng, x float64) float64 { return x * r.LogR(0.8, 1.25) }

func catDeg(d float64) float64 { return d * math.Pi / 180 }

func catIsNil(x any) bool {
	if x == nil {
		return true
	}
	v := reflect.ValueOf(x)
	return v.Kind() == reflect.Ptr && v.IsNil()
}

// catOK2 / catOK3 turn a constructor result into a catalog draw: error or nil shape => out of domain.
func catOK2(s sdf.SDF2, err error, desc string) (catShape, bool) {
	if err != nil || catIsNil(s) {
		return catShape{}, false
	}
	return catShape{S2: s, Desc: desc}, true
}

func catOK3(s sdf.SDF3, err error, desc string) (catShape, bool) {
	if err != nil || catIsNil(s) {
		return catShape{}, false
	}
	return catShape{S3: s, Desc: desc}, true
}

// catFilesDir is the directory with the meshes / font shipped with the library.
func catFilesDir() string {
	if d := os.Getenv("VERIF_REPO_FILES"); d != "" {
		return d
	}
	return "/repo/files"
}

// catCenter2 / catCenter3 draw a position: at the origin in 1/3 of the draws, else away from it.
func catCenter2(r *Rng, scale float64) v2.Vec {
	if r.P(0.33) {
		return v2.Vec{}
	}
	return v2.Vec{X: r.R(-3, 3) * scale, Y: r.R(-3, 3) * scale}
}

func catCenter3(r *Rng, scale float64) v3.Vec {
	if r.P(0.33) {
		return v3.Vec{}
	}
	return v3.Vec{X: r.R(-3, 3) * scale, Y: r.R(-3, 3) * scale, Z: r.R(-3, 3) * scale}
}

// catStar returns a counter-clockwise simple polygon that is star shaped about c:
// n vertices at increasing angles with radii rad*(1 +- jitter).
func catStar(r *Rng, n int, c v2.Vec, rad, jitter float64) []v2.Vec {
	out := make([]v2.Vec, n)
	phase := r.R(0, 2*math.Pi)
	for i := range out {
		th := phase + (float64(i)+r.R(-0.3, 0.3))*2*math.Pi/float64(n)
		rr := rad * r.R(1-jitter, 1+jitter)
		out[i] = v2.Vec{X: c.X + rr*math.Cos(th), Y: c.Y + rr*math.Sin(th)}
	}
	return out
}

// the names in the thread database of sdf/screw.go
var catThreadNames = []string{
	"unc_4_40", "unc_6_32", "unc_8_32", "unc_10_24", "unc_1/4", "unc_5/16", "unc_3/8", "unc_7/16", "unc_1/2", "unc_9/16", "unc_5/8", "unc_3/4", "unc_7/8", "unc_1",
	"unf_4_48", "unf_6_40", "unf_8_36", "unf_10_32", "unf_1/4", "unf_5/16", "unf_3/8", "unf_7/16", "unf_1/2", "unf_9/16", "unf_5/8", "unf_3/4", "unf_7/8", "unf_1",
	"npt_1/8", "npt_1/4", "npt_3/8", "npt_1/2", "npt_3/4", "npt_1", "npt_1_1/4", "npt_1_1/2", "npt_2", "npt_2_1/2", "npt_3", "npt_4",
	"M1x0.25", "M1.2x0.25", "M1.6x0.35", "M2x0.4", "M2.5x0.45", "M3x0.5", "M4x0.7", "M5x0.8", "M6x1", "M8x1.25", "M10x1.5", "M12x1.75", "M16x2", "M20x2.5", "M24x3", "M30x3.5", "M36x4", "M42x4.5", "M48x5", "M56x5.5", "M64x6",
	"M1x0.2", "M1.2x0.2", "M1.6x0.2", "M2x0.25", "M2.5x0.35", "M3x0.35", "M4x0.5", "M5x0.5", "M6x0.75", "M8x1", "M10x1.25", "M12x1.5", "M16x1.5", "M20x2", "M24x2", "M30x2", "M36x3", "M42x3", "M48x3", "M56x4", "M64x4",
}

// catThreadRP draws (radius, pitch) from a real database entry, perturbed by x0.7..x1.4 each.
func catThreadRP(r *Rng) (float64, float64, bool) {
	t, err := sdf.ThreadLookup(pickOne(r, catThreadNames))
	if err != nil {
		return 0, 0, false
	}
	return t.Radius * r.LogR(0.7, 1.4), t.Pitch * r.LogR(0.7, 1.4), true
}

//-----------------------------------------------------------------------------
// cams, flange, rack, spiral

// cam geometry needs |baseRadius-noseRadius| < distance (tangent line exists); nose <= base keeps the documented box.
func catCamRadii(r *Rng) (distance, base, nose float64) {
	base = r.LogR(0.2, 50)
	nose = base * r.R(0.1, 0.95)
	distance = (base - nose) / r.R(0.05, 0.95)
	return
}

func catFlatFlankCam2D(r *Rng) (catShape, bool) {
	d, b, n := catCamRadii(r)
	s, err := sdf.FlatFlankCam2D(d, b, n)
	return catOK2(s, err, fmt.Sprintf("sdf.FlatFlankCam2D(distance=%v, baseRadius=%v, noseRadius=%v)", d, b, n))
}

func catMakeFlatFlankCam(r *Rng) (catShape, bool) {
	// base: MakeFlatFlankCam(0.094, DtoR(115), 0.625)
	dia := r.LogR(0.1, 100)
	dur := catDeg(r.R(70, 170))
	c := math.Cos(dur / 2)
	k := c / (1 - c)
	// noseRadius > 0  <=>  lift < 0.5*dia/(1+k); ~10% of the draws are past the limit and must be rejected
	lift := r.R(0.1, 1.1) * 0.5 * dia / (1 + k)
	s, err := sdf.MakeFlatFlankCam(lift, dur, dia)
	return catOK2(s, err, fmt.Sprintf("sdf.MakeFlatFlankCam(lift=%v, duration=%v, maxDiameter=%v)", lift, dur, dia))
}

func catThreeArcCam2D(r *Rng) (catShape, bool) {
	// base: ThreeArcCam2D(30, 20, 5, 200) and (30,20,5,50000)
	d, b, n := catCamRadii(r)
	f := 0.5 * (b + d + n) * r.LogR(0.9, 1000) // below 1.0 the constructor must reject
	s, err := sdf.ThreeArcCam2D(d, b, n, f)
	return catOK2(s, err, fmt.Sprintf("sdf.ThreeArcCam2D(distance=%v, baseRadius=%v, noseRadius=%v, flankRadius=%v)", d, b, n, f))
}

func catMakeThreeArcCam(r *Rng) (catShape, bool) {
	// bases: (0.0625, 115deg, 0.625, 1.05), (0.1, 160deg, 0.7, 1.1)
	dia := r.LogR(0.1, 100)
	lift := dia * r.R(0.06, 0.2)
	dur := catDeg(r.R(100, 170))
	k := r.R(1.02, 1.2)
	s, err := sdf.MakeThreeArcCam(lift, dur, dia, k)
	return catOK2(s, err, fmt.Sprintf("sdf.MakeThreeArcCam(lift=%v, duration=%v, maxDiameter=%v, k=%v)", lift, dur, dia, k))
}

func catNewFlange1(r *Rng) (catShape, bool) {
	// base: NewFlange1(30, 20, 10); side circle not larger than the center circle
	c := r.LogR(0.5, 50)
	sd := c * r.R(0.1, 1.0)
	d := (c-sd)/r.R(0.05, 0.95) + c*r.R(0, 1)
	s := sdf.NewFlange1(d, c, sd)
	return catOK2(s, nil, fmt.Sprintf("sdf.NewFlange1(distance=%v, centerRadius=%v, sideRadius=%v)", d, c, sd))
}

func catGearRack2D(r *Rng) (catShape, bool) {
	// base: {NumberTeeth 11, Module 0.03125, PressureAngle 20deg, BaseHeight 0.025}
	m := r.LogR(0.01, 5)
	k := sdf.GearRackParms{
		NumberTeeth:   r.IR(1, 30),
		Module:        m,
		PressureAngle: catDeg(r.R(10, 30)),
		BaseHeight:    m * r.R(0, 3),
	}
	if r.P(0.5) {
		k.Backlash = m * r.R(0, 0.2)
	}
	if r.P(0.1) {
		k.BaseHeight = 0
	}
	s, err := sdf.GearRack2D(&k)
	return catOK2(s, err, fmt.Sprintf("sdf.GearRack2D(%+v)", k))
}

func catArcSpiral2D(r *Rng) (catShape, bool) {
	// base: ArcSpiral2D(1.0, 20.0, 0.25*Pi, 8*Tau, 1.0)
	a := r.LogR(0.2, 5)
	start := r.R(0, 2*math.Pi)
	end := start + r.R(0.3, 10)*2*math.Pi
	k := r.R(0, 40)
	if r.P(0.2) { // inward spiral that stays at positive radius
		k = a * end * r.R(1.1, 2)
		a = -a
	}
	d := r.LogR(0.05, 3)
	if r.P(0.3) {
		start, end = end, start
	}
	s, err := sdf.ArcSpiral2D(a, k, start, end, d)
	return catOK2(s, err, fmt.Sprintf("sdf.ArcSpiral2D(a=%v, k=%v, start=%v, end=%v, d=%v)", a, k, start, end, d))
}

//-----------------------------------------------------------------------------
// text

var catFontOnce sync.Once
var catFontMu sync.Mutex
var catFont *truetype.Font

func catText2D(r *Rng) (catShape, bool) {
	catFontOnce.Do(func() {
		f, err := sdf.LoadFont(catFilesDir() + "/cmr10.ttf")
		if err == nil {
			catFont = f
		}
	})
	if catFont == nil {
		return catShape{}, false
	}
	// no empty / blank-only strings: Text2D dereferences a nil union for them (reported as a finding)
	str := pickOne(r, []string{"A", "O", "Hi", "SDFX!", "go\n42", "a b", "Hello,\nWorld!", "xyz", "i", "8%", "Qq\nj"})
	h := r.LogR(1, 100)
	catFontMu.Lock() // the shared *truetype.Font is only touched while a text shape is being built
	s, err := sdf.Text2D(catFont, sdf.NewText(str), h)
	catFontMu.Unlock()
	return catOK2(s, err, fmt.Sprintf("sdf.Text2D(cmr10.ttf, NewText(%q), h=%v)", str, h))
}

//-----------------------------------------------------------------------------
// bezier curves

func catBezier(r *Rng) (catShape, bool) {
	var sb strings.Builder
	b := sdf.NewBezier()
	add := func(x, y float64) *sdf.BezierVertex {
		fmt.Fprintf(&sb, ".Add(%v,%v)", x, y)
		return b.Add(x, y)
	}
	switch r.I(4) {
	case 0: // examples/bezier egg1: two end points on the y axis with handles (revolve profile)
		sc := r.LogR(0.1, 10)
		o := catCenter2(r, 10*sc)
		f, rv := catM(r, 10)*sc, catM(r, 5)*sc
		add(o.X, o.Y).HandleFwd(0, f)
		fmt.Fprintf(&sb, ".HandleFwd(0,%v)", f)
		add(o.X, o.Y+16*sc).HandleRev(0, rv)
		fmt.Fprintf(&sb, ".HandleRev(0,%v)", rv)
	case 1: // examples/bezier egg2
		sc := r.LogR(0.1, 10)
		o := catCenter2(r, 10*sc)
		rad, h := catM(r, 5)*sc, catM(r, 12)*sc
		h0, h1, h2 := rad*r.R(0.3, 0.7), rad*r.R(0.4, 0.9), rad*r.R(0.2, 0.5)
		add(o.X, o.Y).HandleFwd(0, h0)
		fmt.Fprintf(&sb, ".HandleFwd(0,%v)", h0)
		add(o.X+rad, o.Y+0.4*h).Handle(math.Pi/2, h1, h1)
		fmt.Fprintf(&sb, ".Handle(Pi/2,%v,%v)", h1, h1)
		add(o.X, o.Y+h).HandleRev(0, h2)
		fmt.Fprintf(&sb, ".HandleRev(0,%v)", h2)
	case 2: // star shaped loop of end points with 1 or 2 mid control points per span
		n := r.IR(3, 9)
		rad := r.LogR(0.5, 500)
		c := catCenter2(r, rad)
		phase := r.R(0, 2*math.Pi)
		for i := 0; i < n; i++ {
			th0 := phase + float64(i)*2*math.Pi/float64(n)
			rr := rad * r.R(0.7, 1.3)
			add(c.X+rr*math.Cos(th0), c.Y+rr*math.Sin(th0))
			m := r.IR(1, 2)
			for j := 1; j <= m; j++ {
				th := th0 + float64(j)/float64(m+1)*2*math.Pi/float64(n)
				rr := rad * r.R(0.7, 1.6)
				add(c.X+rr*math.Cos(th), c.Y+rr*math.Sin(th)).Mid()
				sb.WriteString(".Mid()")
			}
		}
	default: // loop of end points with tangential handles
		n := r.IR(3, 8)
		rad := r.LogR(0.5, 500)
		c := catCenter2(r, rad)
		phase := r.R(0, 2*math.Pi)
		for i := 0; i < n; i++ {
			th := phase + float64(i)*2*math.Pi/float64(n)
			rr := rad * r.R(0.8, 1.2)
			hl := rr * (2 * math.Pi / float64(n)) * r.R(0.1, 0.4)
			v := add(c.X+rr*math.Cos(th), c.Y+rr*math.Sin(th))
			if r.P(0.8) {
				v.Handle(th+math.Pi/2, hl, hl)
				fmt.Fprintf(&sb, ".Handle(%v,%v,%v)", th+math.Pi/2, hl, hl)
			}
		}
	}
	b.Close()
	s, err := b.Mesh2D()
	return catOK2(s, err, "sdf.NewBezier()"+sb.String()+".Close().Mesh2D()")
}

//-----------------------------------------------------------------------------
// polygon builder

// catPolygon builds a star shaped polygon with the builder and decorates vertices with the given feature.
func catPolygon(feature string) func(r *Rng) (catShape, bool) {
	return func(r *Rng) (catShape, bool) {
		n := r.IR(3, 10)
		rad := r.LogR(0.5, 200)
		c := catCenter2(r, rad)
		vs := catStar(r, n, c, rad, 0.25)
		var sb strings.Builder
		p := sdf.NewPolygon()
		for i, v := range vs {
			pv := p.Add(v.X, v.Y)
			fmt.Fprintf(&sb, ".Add(%v,%v)", v.X, v.Y)
			prev := vs[(i+n-1)%n]
			next := vs[(i+1)%n]
			short := math.Min(v.Sub(prev).Length(), next.Sub(v).Length())
			if !r.P(0.6) {
				continue
			}
			switch feature {
			case "smooth":
				// rounding radius well below the adjacent edge lengths (doc: "radius of smoothing")
				rr, f := short*r.R(0.02, 0.3), r.IR(1, 8)
				pv.Smooth(rr, f)
				fmt.Fprintf(&sb, ".Smooth(%v,%d)", rr, f)
			case "chamfer":
				sz := short * r.R(0.02, 0.3)
				pv.Chamfer(sz)
				fmt.Fprintf(&sb, ".Chamfer(%v)", sz)
			case "arc":
				if i == 0 {
					continue // the arc replaces the segment from the previous vertex
				}
				// |radius| must exceed half the chord. On a counter-clockwise outline a negative radius bulges
				// to the outside (keeps the outline simple); inward arcs (positive) are kept shallow.
				chord := v.Sub(prev).Length()
				rr, f := -chord*r.R(0.55, 3), r.IR(2, 12)
				if r.P(0.3) {
					rr = chord * r.R(1.5, 5)
				}
				pv.Arc(rr, f)
				fmt.Fprintf(&sb, ".Arc(%v,%d)", rr, f)
			}
		}
		rev := r.P(0.2)
		if rev {
			p.Reverse()
			sb.WriteString(".Reverse()")
		}
		if r.Bool() {
			s, err := p.Mesh2D()
			return catOK2(s, err, "sdf.NewPolygon()"+sb.String()+".Mesh2D()")
		}
		s, err := sdf.Polygon2D(p.Vertices())
		return catOK2(s, err, "sdf.Polygon2D(sdf.NewPolygon()"+sb.String()+".Vertices())")
	}
}

// catPolygonRelPolar uses relative and polar vertices (a rectangle / parallelogram walked edge by edge).
func catPolygonRelPolar(r *Rng) (catShape, bool) {
	w, h := r.LogR(1, 200), r.LogR(1, 200)
	o := catCenter2(r, w)
	skew := catDeg(r.R(60, 120))
	rr := math.Min(w, h) * r.R(0, 0.3)
	f := r.IR(1, 6)
	p := sdf.NewPolygon()
	p.Add(o.X, o.Y)
	p.Add(w, 0).Rel().Smooth(rr, f)
	p.Add(h, skew).Polar().Rel().Smooth(rr, f)
	p.Add(-w, 0).Rel().Smooth(rr, f)
	s, err := sdf.Polygon2D(p.Vertices())
	return catOK2(s, err, fmt.Sprintf("sdf.Polygon2D(NewPolygon().Add(%v,%v).Add(%v,0).Rel().Smooth(%v,%d).Add(%v,%v).Polar().Rel().Smooth(%v,%d).Add(%v,0).Rel().Smooth(%v,%d).Vertices())",
		o.X, o.Y, w, rr, f, h, skew, rr, f, -w, rr, f))
}

//-----------------------------------------------------------------------------
// thread profiles and screws

func catThread(kind string, r *Rng) (sdf.SDF2, float64, string, bool) {
	rad, pitch, ok := catThreadRP(r)
	if !ok {
		return nil, 0, "", false
	}
	var s sdf.SDF2
	var err error
	var desc string
	switch kind {
	case "acme":
		s, err = sdf.AcmeThread(rad, pitch)
		desc = fmt.Sprintf("sdf.AcmeThread(radius=%v, pitch=%v)", rad, pitch)
	case "iso-ext":
		s, err = sdf.ISOThread(rad, pitch, true)
		desc = fmt.Sprintf("sdf.ISOThread(radius=%v, pitch=%v, external=true)", rad, pitch)
	case "iso-int":
		s, err = sdf.ISOThread(rad, pitch, false)
		desc = fmt.Sprintf("sdf.ISOThread(radius=%v, pitch=%v, external=false)", rad, pitch)
	case "ansibuttress":
		s, err = sdf.ANSIButtressThread(rad, pitch)
		desc = fmt.Sprintf("sdf.ANSIButtressThread(radius=%v, pitch=%v)", rad, pitch)
	default:
		s, err = sdf.PlasticButtressThread(rad, pitch)
		desc = fmt.Sprintf("sdf.PlasticButtressThread(radius=%v, pitch=%v)", rad, pitch)
	}
	if err != nil || catIsNil(s) {
		return nil, 0, "", false
	}
	return s, pitch, desc, true
}

func catThreadEntry(kind string) func(r *Rng) (catShape, bool) {
	return func(r *Rng) (catShape, bool) {
		s, _, desc, ok := catThread(kind, r)
		if !ok {
			return catShape{}, false
		}
		return catShape{S2: s, Desc: desc}, true
	}
}

func catScrewEntry(kind string) func(r *Rng) (catShape, bool) {
	return func(r *Rng) (catShape, bool) {
		th, pitch, desc, ok := catThread(kind, r)
		if !ok {
			return catShape{}, false
		}
		length := pitch * r.R(1, 12)
		taper := 0.0
		if r.Bool() {
			taper = catDeg(r.R(0.5, 5)) // NPT is atan(1/32) = 1.79 deg
		}
		starts := r.IR(1, 3)
		if r.Bool() {
			starts = -starts
		}
		s, err := sdf.Screw3D(th, length, taper, pitch, starts)
		return catOK3(s, err, fmt.Sprintf("sdf.Screw3D(%s, length=%v, taper=%v, pitch=%v, starts=%d)", desc, length, taper, pitch, starts))
	}
}

//-----------------------------------------------------------------------------
// cubic spline

func catSplineKnots(r *Rng) []v2.Vec {
	n := r.IR(2, 12)
	step := r.LogR(0.2, 20)
	p := catCenter2(r, step*3)
	dir := r.R(0, 2*math.Pi)
	knots := make([]v2.Vec, n)
	for i := range knots {
		knots[i] = p
		dir += r.R(-1, 1)
		l := step * r.R(0.5, 1.5)
		p = v2.Vec{X: p.X + l*math.Cos(dir), Y: p.Y + l*math.Sin(dir)}
	}
	return knots
}

// NOTE: CubicSplineSDF2.Evaluate prints debug lines on stdout for every Newton iteration.
func catCubicSpline2D(r *Rng) (catShape, bool) {
	knots := catSplineKnots(r)
	s, err := sdf.CubicSpline2D(knots)
	return catOK2(s, err, fmt.Sprintf("sdf.CubicSpline2D(%v)", knots))
}

func catPolySpline2D(r *Rng) (catShape, bool) {
	knots := catSplineKnots(r)
	if len(knots) < 3 {
		knots = append(knots, v2.Vec{X: knots[0].X + 1, Y: knots[1].Y - 2})
	}
	s, err := sdf.CubicSpline2D(knots)
	if err != nil || catIsNil(s) {
		return catShape{}, false
	}
	cs, ok := s.(*sdf.CubicSplineSDF2)
	if !ok {
		return catShape{}, false
	}
	n := r.IR(4, 60)
	ps, err := cs.PolySpline2D(n)
	return catOK2(ps, err, fmt.Sprintf("sdf.CubicSpline2D(%v).PolySpline2D(%d)", knots, n))
}

//-----------------------------------------------------------------------------
// line and triangle meshes

func catLines(r *Rng) ([]*sdf.Line2, string) {
	n := r.IR(3, 40)
	rad := r.LogR(0.5, 300)
	c := catCenter2(r, rad)
	vs := catStar(r, n, c, rad, r.R(0, 0.4))
	lines := sdf.VertexToLine(vs, true)
	desc := fmt.Sprintf("VertexToLine(%v, true)", vs)
	if r.P(0.3) { // a second, disjoint loop
		c2 := v2.Vec{X: c.X + rad*r.R(3.5, 6), Y: c.Y + rad*r.R(-2, 2)}
		vs2 := catStar(r, r.IR(3, 12), c2, rad*r.R(0.3, 1.2), 0.2)
		lines = append(lines, sdf.VertexToLine(vs2, true)...)
		desc += fmt.Sprintf(" ++ VertexToLine(%v, true)", vs2)
	}
	return lines, desc
}

func catMesh2D(r *Rng) (catShape, bool) {
	l, d := catLines(r)
	s, err := sdf.Mesh2D(l)
	return catOK2(s, err, "sdf.Mesh2D("+d+")")
}

func catMesh2DSlow(r *Rng) (catShape, bool) {
	l, d := catLines(r)
	s, err := sdf.Mesh2DSlow(l)
	return catOK2(s, err, "sdf.Mesh2DSlow("+d+")")
}

// catTriMesh returns a small closed triangle mesh with outward facing normals
// (tetrahedron, box or octahedron), scaled per axis and positioned at c.
func catTriMesh(r *Rng) ([]*sdf.Triangle3, string) {
	var verts []v3.Vec
	var faces [][3]int
	var kind string
	switch r.I(3) {
	case 0:
		kind = "tetrahedron"
		verts = []v3.Vec{{X: 1, Y: 1, Z: 1}, {X: 1, Y: -1, Z: -1}, {X: -1, Y: 1, Z: -1}, {X: -1, Y: -1, Z: 1}}
		faces = [][3]int{{0, 1, 2}, {0, 3, 1}, {0, 2, 3}, {1, 3, 2}}
	case 1:
		kind = "box"
		verts = []v3.Vec{{X: -1, Y: -1, Z: -1}, {X: 1, Y: -1, Z: -1}, {X: 1, Y: 1, Z: -1}, {X: -1, Y: 1, Z: -1}, {X: -1, Y: -1, Z: 1}, {X: 1, Y: -1, Z: 1}, {X: 1, Y: 1, Z: 1}, {X: -1, Y: 1, Z: 1}}
		faces = [][3]int{{0, 2, 1}, {0, 3, 2}, {4, 5, 6}, {4, 6, 7}, {0, 1, 5}, {0, 5, 4}, {2, 3, 7}, {2, 7, 6}, {1, 2, 6}, {1, 6, 5}, {3, 0, 4}, {3, 4, 7}}
	default:
		kind = "octahedron"
		verts = []v3.Vec{{X: 1}, {X: -1}, {Y: 1}, {Y: -1}, {Z: 1}, {Z: -1}}
		faces = [][3]int{{0, 2, 4}, {2, 1, 4}, {1, 3, 4}, {3, 0, 4}, {2, 0, 5}, {1, 2, 5}, {3, 1, 5}, {0, 3, 5}}
	}
	sc := v3.Vec{X: r.LogR(0.5, 100), Y: r.LogR(0.5, 100), Z: r.LogR(0.5, 100)}
	c := catCenter3(r, sc.X)
	// orient outward: the mesh is convex and contains c
	mesh := make([]*sdf.Triangle3, len(faces))
	for i, f := range faces {
		t := sdf.Triangle3{}
		for j := 0; j < 3; j++ {
			v := verts[f[j]]
			t[j] = v3.Vec{X: c.X + v.X*sc.X, Y: c.Y + v.Y*sc.Y, Z: c.Z + v.Z*sc.Z}
		}
		centroid := t[0].Add(t[1]).Add(t[2]).MulScalar(1.0 / 3.0)
		if t.Normal().Dot(centroid.Sub(c)) < 0 {
			t[1], t[2] = t[2], t[1]
		}
		mesh[i] = &t
	}
	return mesh, fmt.Sprintf("%s scale=%v center=%v (%d triangles, outward normals)", kind, sc, c, len(mesh))
}

func catMesh3D(r *Rng) (catShape, bool) {
	m, d := catTriMesh(r)
	s, err := sdf.Mesh3D(m)
	return catOK3(s, err, "sdf.Mesh3D("+d+")")
}

func catMesh3DSlow(r *Rng) (catShape, bool) {
	m, d := catTriMesh(r)
	s, err := sdf.Mesh3DSlow(m)
	return catOK3(s, err, "sdf.Mesh3DSlow("+d+")")
}

//-----------------------------------------------------------------------------
// voxel cache, gyroid, slice, cache

// catSolid3 is a simple bounded solid (sphere / box / union of both, optionally translated).
func catSolid3(r *Rng) (sdf.SDF3, string) {
	rad := r.LogR(0.5, 50)
	sz := v3.Vec{X: rad * r.R(0.5, 3), Y: rad * r.R(0.5, 3), Z: rad * r.R(0.5, 3)}
	sph, _ := sdf.Sphere3D(rad)
	box, _ := sdf.Box3D(sz, math.Min(sz.X, math.Min(sz.Y, sz.Z))*r.R(0, 0.3))
	ofs := v3.Vec{X: rad * r.R(-1, 1), Y: rad * r.R(-1, 1), Z: rad * r.R(-1, 1)}
	var s sdf.SDF3
	var d string
	switch r.I(3) {
	case 0:
		s, d = sph, fmt.Sprintf("Sphere3D(%v)", rad)
	case 1:
		s, d = box, fmt.Sprintf("Box3D(%v)", sz)
	default:
		s = sdf.Union3D(sph, sdf.Transform3D(box, sdf.Translate3d(ofs)))
		d = fmt.Sprintf("Union3D(Sphere3D(%v), Translate(%v) Box3D(%v))", rad, ofs, sz)
	}
	if c := catCenter3(r, rad); c != (v3.Vec{}) {
		s = sdf.Transform3D(s, sdf.Translate3d(c))
		d = fmt.Sprintf("Translate(%v) %s", c, d)
	}
	return s, d
}

func catVoxel(r *Rng) (catShape, bool) {
	s, d := catSolid3(r)
	cells := r.IR(4, 20)
	// every axis needs at least one cell: with int(meshCells*minSize/maxSize) == 0 the constructor divides
	// by zero and every Evaluate returns NaN (reported as a finding) - such draws are skipped
	sz := s.BoundingBox().Size()
	if float64(cells)*math.Min(sz.X, math.Min(sz.Y, sz.Z))/sz.MaxComponent() < 1.001 {
		return catShape{}, false
	}
	v := sdf.NewVoxelSDF3(s, cells, nil)
	return catOK3(v, nil, fmt.Sprintf("sdf.NewVoxelSDF3(%s, meshCells=%d, nil)", d, cells))
}

func catGyroid(r *Rng) (catShape, bool) {
	k := v3.Vec{X: r.LogR(1, 20), Y: r.LogR(1, 20), Z: r.LogR(1, 20)}
	s, err := sdf.Gyroid3D(k)
	return catOK3(s, err, fmt.Sprintf("sdf.Gyroid3D(%v)", k))
}

func catGyroidBoxed(r *Rng) (catShape, bool) {
	k := v3.Vec{X: r.LogR(1, 20), Y: r.LogR(1, 20), Z: r.LogR(1, 20)}
	g, err := sdf.Gyroid3D(k)
	if err != nil {
		return catShape{}, false
	}
	sz := v3.Vec{X: r.LogR(2, 60), Y: r.LogR(2, 60), Z: r.LogR(2, 60)}
	box, err := sdf.Box3D(sz, 0)
	if err != nil {
		return catShape{}, false
	}
	d := fmt.Sprintf("Box3D(%v)", sz)
	if c := catCenter3(r, sz.X); c != (v3.Vec{}) {
		box = sdf.Transform3D(box, sdf.Translate3d(c))
		d = fmt.Sprintf("Translate(%v) %s", c, d)
	}
	return catOK3(sdf.Intersect3D(box, g), nil, fmt.Sprintf("sdf.Intersect3D(%s, sdf.Gyroid3D(%v))", d, k))
}

// catGyroidInfill: a bounded part intersected with an expression that contains the (unbounded) gyroid - offset for infill
// density, shelled, shelled with a solid core, elongated, arrayed, moved or cut; the part is always the first operand.
func catGyroidInfill(r *Rng) (catShape, bool) {
	part, pd := catSolid3(r)
	psz := part.BoundingBox().Size().MinComponent()
	per := psz * r.R(0.15, 0.6) // a few periods across the part
	k := v3.Vec{X: per * r.R(0.7, 1.4), Y: per * r.R(0.7, 1.4), Z: per * r.R(0.7, 1.4)}
	g, err := sdf.Gyroid3D(k)
	if err != nil {
		return catShape{}, false
	}
	gd := fmt.Sprintf("Gyroid3D(%v)", k)
	var in sdf.SDF3
	var d string
	switch r.I(8) {
	case 0:
		off := r.R(-0.6, 0.6)
		in, d = sdf.Offset3D(g, off), fmt.Sprintf("Offset3D(%s, %.4g)", gd, off)
	case 1:
		t := r.R(0.05, 0.5)
		in, err = sdf.Shell3D(g, t)
		d = fmt.Sprintf("Shell3D(%s, %.4g)", gd, t)
	case 2:
		t := r.R(0.05, 0.5)
		sh, e := sdf.Shell3D(g, t)
		core, _ := sdf.Sphere3D(psz * r.R(0.1, 0.3))
		in, err = sdf.Union3D(sh, sdf.Transform3D(core, sdf.Translate3d(part.BoundingBox().Center()))), e
		d = fmt.Sprintf("Union3D(Shell3D(%s, %.4g), core sphere)", gd, t)
	case 3:
		h := v3.Vec{X: per * r.R(0, 1), Y: per * r.R(0, 1), Z: per * r.R(0, 1)}
		in, d = sdf.Elongate3D(g, h), fmt.Sprintf("Elongate3D(%s, %v)", gd, h)
	case 4:
		num := v3i.Vec{X: r.IR(1, 3), Y: r.IR(1, 3), Z: r.IR(1, 2)}
		step := v3.Vec{X: per * r.R(0.2, 1), Y: per * r.R(0.2, 1), Z: per * r.R(0.2, 1)}
		in, d = sdf.Array3D(g, num, step), fmt.Sprintf("Array3D(%s, %v, %v)", gd, num, step)
	case 5:
		m := sdf.Translate3d(v3.Vec{X: per * r.R(-1, 1), Y: per * r.R(-1, 1), Z: per * r.R(-1, 1)}).Mul(sdf.RotateX(r.R(0, 6.28))).Mul(sdf.RotateZ(r.R(0, 6.28)))
		in, d = sdf.Transform3D(g, m), fmt.Sprintf("Transform3D(%s, translate*rotate)", gd)
	case 6:
		cut, _ := sdf.Sphere3D(psz * r.R(0.1, 0.4))
		in, d = sdf.Difference3D(g, sdf.Transform3D(cut, sdf.Translate3d(part.BoundingBox().Center()))), fmt.Sprintf("Difference3D(%s, sphere)", gd)
	default:
		sc := r.R(0.5, 2)
		in, d = sdf.ScaleUniform3D(g, sc), fmt.Sprintf("ScaleUniform3D(%s, %.4g)", gd, sc)
	}
	if err != nil || in == nil {
		return catShape{}, false
	}
	return catOK3(sdf.Intersect3D(part, in), nil, fmt.Sprintf("sdf.Intersect3D(%s, %s)", pd, d))
}

func catSlice2D(r *Rng) (catShape, bool) {
	s, d := catSolid3(r)
	bb := s.BoundingBox()
	a := bb.Center().Add(bb.Size().Mul(v3.Vec{X: r.R(-0.3, 0.3), Y: r.R(-0.3, 0.3), Z: r.R(-0.3, 0.3)}))
	var n v3.Vec
	switch r.I(5) {
	case 0:
		n = v3.Vec{X: 1}
	case 1:
		n = v3.Vec{Y: 1}
	case 2:
		n = v3.Vec{Z: -1}
	case 3: // one zero component
		n = v3.Vec{X: r.N(), Y: r.N()}
	default:
		n = v3.Vec{X: r.N(), Y: r.N(), Z: r.N()}
	}
	if n.Length() < 1e-3 {
		return catShape{}, false
	}
	if r.Bool() {
		n = n.MulScalar(r.LogR(0.1, 10)) // the normal need not be normalised
	}
	return catOK2(sdf.Slice2D(s, a, n), nil, fmt.Sprintf("sdf.Slice2D(%s, a=%v, n=%v)", d, a, n))
}

// catRevolve3D revolves a profile in the x >= 0 half plane (examples/camshaft stepped shaft, examples/bezier egg).
func catRevolve3D(r *Rng) (catShape, bool) {
	sc := r.LogR(0.1, 20)
	y0 := 0.0
	if r.Bool() {
		y0 = sc * r.R(-20, 20)
	}
	var prof sdf.SDF2
	var err error
	var d string
	if r.Bool() {
		// stepped shaft built with relative vertices
		var sb strings.Builder
		p := sdf.NewPolygon()
		p.Add(0, y0)
		fmt.Fprintf(&sb, "NewPolygon().Add(0,%v)", y0)
		rad := sc * r.R(0.5, 3)
		p.Add(rad, 0).Rel()
		fmt.Fprintf(&sb, ".Add(%v,0).Rel()", rad)
		for i, n := 0, r.IR(1, 5); i < n; i++ {
			l := sc * r.R(0.3, 4)
			p.Add(0, l).Rel()
			fmt.Fprintf(&sb, ".Add(0,%v).Rel()", l)
			nr := sc * r.R(0.5, 3)
			dy := 0.0
			if r.P(0.3) {
				dy = sc * r.R(0.1, 1) // taper
			}
			p.Add(nr-rad, dy).Rel()
			fmt.Fprintf(&sb, ".Add(%v,%v).Rel()", nr-rad, dy)
			rad = nr
		}
		l := sc * r.R(0.3, 4)
		p.Add(0, l).Rel()
		p.Add(-rad, 0).Rel()
		fmt.Fprintf(&sb, ".Add(0,%v).Rel().Add(%v,0).Rel()", l, -rad)
		prof, err = sdf.Polygon2D(p.Vertices())
		d = "Polygon2D(" + sb.String() + ".Vertices())"
	} else {
		rad, h := sc*catM(r, 5), sc*catM(r, 12)
		h0, h1, h2 := rad*r.R(0.3, 0.7), rad*r.R(0.4, 0.9), rad*r.R(0.2, 0.5)
		b := sdf.NewBezier()
		b.Add(0, y0).HandleFwd(0, h0)
		b.Add(rad, y0+0.4*h).Handle(math.Pi/2, h1, h1)
		b.Add(0, y0+h).HandleRev(0, h2)
		b.Close()
		prof, err = b.Mesh2D()
		d = fmt.Sprintf("NewBezier().Add(0,%v).HandleFwd(0,%v).Add(%v,%v).Handle(Pi/2,%v,%v).Add(0,%v).HandleRev(0,%v).Close().Mesh2D()", y0, h0, rad, y0+0.4*h, h1, h1, y0+h, h2)
	}
	if err != nil || catIsNil(prof) {
		return catShape{}, false
	}
	s, err := sdf.Revolve3D(prof)
	return catOK3(s, err, "sdf.Revolve3D("+d+")")
}

// NOTE: CacheSDF2.Evaluate writes to an unsynchronised map.
func catCache2D(r *Rng) (catShape, bool) {
	n := r.IR(3, 12)
	rad := r.LogR(0.5, 100)
	vs := catStar(r, n, catCenter2(r, rad), rad, 0.3)
	p, err := sdf.Polygon2D(vs)
	if err != nil {
		return catShape{}, false
	}
	return catOK2(sdf.Cache2D(p), nil, fmt.Sprintf("sdf.Cache2D(sdf.Polygon2D(%v))", vs))
}

//-----------------------------------------------------------------------------

func init() {
	catalog = append(catalog,
		catEntry{Name: "sdf.FlatFlankCam2D", Pkg: "sdf", Gen: catFlatFlankCam2D},
		catEntry{Name: "sdf.MakeFlatFlankCam", Pkg: "sdf", Gen: catMakeFlatFlankCam},
		catEntry{Name: "sdf.ThreeArcCam2D", Pkg: "sdf", Gen: catThreeArcCam2D},
		catEntry{Name: "sdf.MakeThreeArcCam", Pkg: "sdf", Gen: catMakeThreeArcCam},
		catEntry{Name: "sdf.NewFlange1", Pkg: "sdf", Gen: catNewFlange1},
		catEntry{Name: "sdf.GearRack2D", Pkg: "sdf", Gen: catGearRack2D},
		catEntry{Name: "sdf.ArcSpiral2D", Pkg: "sdf", Gen: catArcSpiral2D},
		catEntry{Name: "sdf.Text2D", Pkg: "sdf", Gen: catText2D},
		catEntry{Name: "sdf.Bezier.Mesh2D", Pkg: "sdf", Gen: catBezier},
		catEntry{Name: "sdf.Polygon-Smooth", Pkg: "sdf", Gen: catPolygon("smooth")},
		catEntry{Name: "sdf.Polygon-Chamfer", Pkg: "sdf", Gen: catPolygon("chamfer")},
		catEntry{Name: "sdf.Polygon-Arc", Pkg: "sdf", Gen: catPolygon("arc")},
		catEntry{Name: "sdf.Polygon-RelPolar", Pkg: "sdf", Gen: catPolygonRelPolar},
		catEntry{Name: "sdf.AcmeThread", Pkg: "sdf", Gen: catThreadEntry("acme")},
		catEntry{Name: "sdf.ISOThread-external", Pkg: "sdf", Gen: catThreadEntry("iso-ext")},
		catEntry{Name: "sdf.ISOThread-internal", Pkg: "sdf", Gen: catThreadEntry("iso-int")},
		catEntry{Name: "sdf.ANSIButtressThread", Pkg: "sdf", Gen: catThreadEntry("ansibuttress")},
		catEntry{Name: "sdf.PlasticButtressThread", Pkg: "sdf", Gen: catThreadEntry("plasticbuttress")},
		catEntry{Name: "sdf.Screw3D-acme", Pkg: "sdf", Gen: catScrewEntry("acme")},
		catEntry{Name: "sdf.Screw3D-iso-external", Pkg: "sdf", Gen: catScrewEntry("iso-ext")},
		catEntry{Name: "sdf.Screw3D-iso-internal", Pkg: "sdf", Gen: catScrewEntry("iso-int")},
		catEntry{Name: "sdf.Screw3D-ansibuttress", Pkg: "sdf", Gen: catScrewEntry("ansibuttress")},
		catEntry{Name: "sdf.Screw3D-plasticbuttress", Pkg: "sdf", Gen: catScrewEntry("plasticbuttress")},
		catEntry{Name: "sdf.CubicSpline2D", Pkg: "sdf", Gen: catCubicSpline2D},
		catEntry{Name: "sdf.CubicSpline2D.PolySpline2D", Pkg: "sdf", Gen: catPolySpline2D},
		catEntry{Name: "sdf.Mesh2D", Pkg: "sdf", Gen: catMesh2D},
		catEntry{Name: "sdf.Mesh2DSlow", Pkg: "sdf", Gen: catMesh2DSlow},
		catEntry{Name: "sdf.Mesh3D", Pkg: "sdf", Gen: catMesh3D},
		catEntry{Name: "sdf.Mesh3DSlow", Pkg: "sdf", Gen: catMesh3DSlow},
		catEntry{Name: "sdf.NewVoxelSDF3", Pkg: "sdf", Gen: catVoxel},
		catEntry{Name: "sdf.Gyroid3D", Pkg: "sdf", Unbounded: true, Gen: catGyroid},
		catEntry{Name: "sdf.Gyroid3D-intersected", Pkg: "sdf", Gen: catGyroidBoxed},
		catEntry{Name: "sdf.Gyroid3D-infill", Pkg: "sdf", Gen: catGyroidInfill},
		catEntry{Name: "sdf.Slice2D", Pkg: "sdf", Gen: catSlice2D},
		catEntry{Name: "sdf.Revolve3D", Pkg: "sdf", Gen: catRevolve3D},
		catEntry{Name: "sdf.Cache2D", Pkg: "sdf", Gen: catCache2D},
	)
	children["catalog-selftest"] = catSelfTest
}

//-----------------------------------------------------------------------------
// self test: vcheck --child catalog-selftest [--desc] [--draws=N] [--seed=S] [name-substring ...]

func catBadF(x float64) bool { return math.IsNaN(x) || math.IsInf(x, 0) }

func catSelfTest(args []string) {
	out := os.Stdout
	// CubicSplineSDF2.Evaluate prints debug lines: keep the library's stdout away from the table
	if null, err := os.OpenFile(os.DevNull, os.O_WRONLY, 0); err == nil {
		os.Stdout = null
	}
	showDesc := false
	draws, seed := 30, uint64(1)
	var filter []string
	for _, a := range args {
		switch {
		case a == "--desc":
			showDesc = true
		case strings.HasPrefix(a, "--draws="):
			fmt.Sscan(strings.TrimPrefix(a, "--draws="), &draws)
		case strings.HasPrefix(a, "--seed="):
			fmt.Sscan(strings.TrimPrefix(a, "--seed="), &seed)
		default:
			filter = append(filter, a)
		}
	}
	entries := append([]catEntry(nil), catalog...)
	sort.SliceStable(entries, func(i, j int) bool { return entries[i].Name < entries[j].Name })
	seen := map[string]bool{}
	fmt.Fprintf(out, "%-34s %3s %3s %4s %5s %5s %9s  %s\n", "name", "ok", "ood", "ok%", "neg%", "nan", "ns/eval", "bbox of one instance")
	low := 0
	for _, e := range entries {
		if seen[e.Name] {
			fmt.Fprintf(out, "DUPLICATE entry name %s\n", e.Name)
		}
		seen[e.Name] = true
		if len(filter) > 0 {
			hit := false
			for _, f := range filter {
				if strings.Contains(e.Name, f) {
					hit = true
				}
			}
			if !hit {
				continue
			}
		}
		const pts = 200
		ok, ood, neg, nan, evals := 0, 0, 0, 0, 0
		var total time.Duration
		bbs, oneDesc := "", ""
		for i := 0; i < draws; i++ {
			sh, good := e.Gen(newRng(seed, "selftest", e.Name, i))
			if !good {
				ood++
				continue
			}
			ok++
			if (sh.S2 == nil) == (sh.S3 == nil) {
				fmt.Fprintf(out, "BAD SHAPE %s draw %d: exactly one of S2/S3 must be set\n", e.Name, i)
				continue
			}
			if !strings.Contains(sh.Desc, strings.SplitN(strings.TrimPrefix(strings.TrimPrefix(e.Name, "sdf."), "obj."), "-", 2)[0][:3]) {
				fmt.Fprintf(out, "BAD DESC %s: %s\n", e.Name, sh.Desc)
			}
			pr := newRng(seed, "selftest-pts", e.Name, i)
			if sh.S2 != nil {
				bb := sh.S2.BoundingBox()
				if catBadF(bb.Min.X) || catBadF(bb.Min.Y) || catBadF(bb.Max.X) || catBadF(bb.Max.Y) {
					fmt.Fprintf(out, "NAN-BOX %s: %v  %s\n", e.Name, bb, sh.Desc)
				}
				if e.Unbounded || bb.Size().X <= 0 || bb.Size().Y <= 0 {
					bb = sdf.Box2{Min: v2.Vec{X: -10, Y: -10}, Max: v2.Vec{X: 10, Y: 10}}
				}
				ps := make([]v2.Vec, pts)
				for j := range ps {
					ps[j] = v2.Vec{X: pr.R(bb.Min.X, bb.Max.X), Y: pr.R(bb.Min.Y, bb.Max.Y)}
				}
				t0 := time.Now()
				for _, p := range ps {
					d := sh.S2.Evaluate(p)
					if d < 0 {
						neg++
					}
					if catBadF(d) {
						if nan == 0 {
							fmt.Fprintf(out, "NAN-EVAL %s at %v: %s\n", e.Name, p, sh.Desc)
						}
						nan++
					}
				}
				total += time.Since(t0)
				if bbs == "" {
					bbs, oneDesc = fmt.Sprintf("[%.4g,%.4g]..[%.4g,%.4g]", bb.Min.X, bb.Min.Y, bb.Max.X, bb.Max.Y), sh.Desc
				}
			} else {
				bb := sh.S3.BoundingBox()
				if catBadF(bb.Min.X) || catBadF(bb.Min.Y) || catBadF(bb.Min.Z) || catBadF(bb.Max.X) || catBadF(bb.Max.Y) || catBadF(bb.Max.Z) {
					fmt.Fprintf(out, "NAN-BOX %s: %v  %s\n", e.Name, bb, sh.Desc)
				}
				if e.Unbounded || bb.Size().X <= 0 || bb.Size().Y <= 0 || bb.Size().Z <= 0 {
					bb = sdf.Box3{Min: v3.Vec{X: -10, Y: -10, Z: -10}, Max: v3.Vec{X: 10, Y: 10, Z: 10}}
				}
				ps := make([]v3.Vec, pts)
				for j := range ps {
					ps[j] = v3.Vec{X: pr.R(bb.Min.X, bb.Max.X), Y: pr.R(bb.Min.Y, bb.Max.Y), Z: pr.R(bb.Min.Z, bb.Max.Z)}
				}
				t0 := time.Now()
				for _, p := range ps {
					d := sh.S3.Evaluate(p)
					if d < 0 {
						neg++
					}
					if catBadF(d) {
						if nan == 0 {
							fmt.Fprintf(out, "NAN-EVAL %s at %v: %s\n", e.Name, p, sh.Desc)
						}
						nan++
					}
				}
				total += time.Since(t0)
				if bbs == "" {
					bbs, oneDesc = fmt.Sprintf("[%.4g,%.4g,%.4g]..[%.4g,%.4g,%.4g]", bb.Min.X, bb.Min.Y, bb.Min.Z, bb.Max.X, bb.Max.Y, bb.Max.Z), sh.Desc
				}
			}
			evals += pts
		}
		ns := 0.0
		if evals > 0 {
			ns = float64(total.Nanoseconds()) / float64(evals)
		}
		flag := ""
		if ok*100 < 60*draws {
			flag = "  <-- below 60% ok"
			low++
		}
		if (ns > 50000) != e.Heavy {
			flag += fmt.Sprintf("  (Heavy=%v)", e.Heavy)
		}
		negPct := 0.0
		if evals > 0 {
			negPct = 100 * float64(neg) / float64(evals)
		}
		fmt.Fprintf(out, "%-34s %3d %3d %3d%% %4.0f%% %5d %9.0f  %s%s\n", e.Name, ok, ood, ok*100/draws, negPct, nan, ns, bbs, flag)
		if showDesc {
			fmt.Fprintf(out, "    e.g. %s\n", oneDesc)
		}
	}
	fmt.Fprintf(out, "%d entries, %d below 60%% ok\n", len(seen), low)
}
