//go:build verif

// Mesh oracles: vertex welding, directed-edge balance, signed volume,
// 2D endpoint degrees, point-triangle distance.
package main

import (
	"math"

	"github.com/deadsy/sdfx/sdf"
	v2 "github.com/deadsy/sdfx/vec/v2"
	v3 "github.com/deadsy/sdfx/vec/v3"
)

type unionFind struct{ p []int }

func newUF(n int) *unionFind {
	u := &unionFind{p: make([]int, n)}
	for i := range u.p {
		u.p[i] = i
	}
	return u
}
func (u *unionFind) find(x int) int {
	for u.p[x] != x {
		u.p[x] = u.p[u.p[x]]
		x = u.p[x]
	}
	return x
}
func (u *unionFind) union(a, b int) {
	a, b = u.find(a), u.find(b)
	if a != b {
		u.p[b] = a
	}
}

type cell3 struct{ x, y, z int64 }

// weld3 returns an id per input vertex; vertices closer than tol (per axis) get the same id.
func weld3(vs []v3.Vec, tol float64) ([]int, int) {
	uf := newUF(len(vs))
	grid := map[cell3][]int{}
	inv := 1 / tol
	for i, v := range vs {
		c := cell3{int64(math.Floor(v.X * inv)), int64(math.Floor(v.Y * inv)), int64(math.Floor(v.Z * inv))}
		for dx := int64(-1); dx <= 1; dx++ {
			for dy := int64(-1); dy <= 1; dy++ {
				for dz := int64(-1); dz <= 1; dz++ {
					for _, j := range grid[cell3{c.x + dx, c.y + dy, c.z + dz}] {
						w := vs[j]
						if math.Abs(w.X-v.X) <= tol && math.Abs(w.Y-v.Y) <= tol && math.Abs(w.Z-v.Z) <= tol {
							uf.union(j, i)
						}
					}
				}
			}
		}
		grid[c] = append(grid[c], i)
	}
	ids := make([]int, len(vs))
	remap := map[int]int{}
	for i := range vs {
		r := uf.find(i)
		id, ok := remap[r]
		if !ok {
			id = len(remap)
			remap[r] = id
		}
		ids[i] = id
	}
	return ids, len(remap)
}

type meshReport struct {
	Triangles     int
	Vertices      int
	Unbalanced    int // directed edges whose multiplicity differs from the reverse edge
	FirstBadEdge  [2]v3.Vec
	BadEdges      [][2]v3.Vec `json:"-"` // up to 64, for diagnostics
	IdenticalVert int         // triangles with two bit-identical vertices
	Volume        float64
	NaN           int
	Collapsed     int // triangles whose vertices weld to fewer than 3 ids
}

// checkClosed3 welds at tol and checks directed-edge balance.
func checkClosed3(ts []*sdf.Triangle3, tol float64) meshReport {
	rep := meshReport{Triangles: len(ts)}
	vs := make([]v3.Vec, 0, 3*len(ts))
	var ref v3.Vec // volume is summed about a point of the mesh: about the origin it cancels catastrophically for far-away parts
	if len(ts) > 0 {
		ref = ts[0][0]
	}
	for _, t := range ts {
		for k := 0; k < 3; k++ {
			if math.IsNaN(t[k].X+t[k].Y+t[k].Z) || math.IsInf(t[k].X+t[k].Y+t[k].Z, 0) {
				rep.NaN++
			}
			vs = append(vs, t[k])
		}
		if t[0] == t[1] || t[1] == t[2] || t[2] == t[0] {
			rep.IdenticalVert++
		}
		rep.Volume += t[0].Sub(ref).Dot(t[1].Sub(ref).Cross(t[2].Sub(ref))) / 6
	}
	if rep.NaN > 0 {
		return rep
	}
	ids, n := weld3(vs, tol)
	rep.Vertices = n
	type edge struct{ a, b int }
	cnt := map[edge]int{}
	where := map[edge][2]v3.Vec{}
	for i := range ts {
		a, b, c := ids[3*i], ids[3*i+1], ids[3*i+2]
		if a == b || b == c || c == a {
			rep.Collapsed++
		}
		for _, e := range [3][2]int{{0, 1}, {1, 2}, {2, 0}} {
			p, q := ids[3*i+e[0]], ids[3*i+e[1]]
			if p == q {
				continue
			}
			cnt[edge{p, q}]++
			where[edge{p, q}] = [2]v3.Vec{vs[3*i+e[0]], vs[3*i+e[1]]}
		}
	}
	for e, k := range cnt {
		if cnt[edge{e.b, e.a}] != k {
			if rep.Unbalanced == 0 || lessEdge(where[e], rep.FirstBadEdge) {
				rep.FirstBadEdge = where[e]
			}
			rep.Unbalanced++
			if len(rep.BadEdges) < 64 {
				rep.BadEdges = append(rep.BadEdges, where[e])
			}
		}
	}
	return rep
}

func lessEdge(a, b [2]v3.Vec) bool {
	ka := [6]float64{a[0].X, a[0].Y, a[0].Z, a[1].X, a[1].Y, a[1].Z}
	kb := [6]float64{b[0].X, b[0].Y, b[0].Z, b[1].X, b[1].Y, b[1].Z}
	for i := range ka {
		if ka[i] != kb[i] {
			return ka[i] < kb[i]
		}
	}
	return false
}

type cell2 struct{ x, y int64 }

func weld2(vs []v2.Vec, tol float64) ([]int, int) {
	uf := newUF(len(vs))
	grid := map[cell2][]int{}
	inv := 1 / tol
	for i, v := range vs {
		c := cell2{int64(math.Floor(v.X * inv)), int64(math.Floor(v.Y * inv))}
		for dx := int64(-1); dx <= 1; dx++ {
			for dy := int64(-1); dy <= 1; dy++ {
				for _, j := range grid[cell2{c.x + dx, c.y + dy}] {
					w := vs[j]
					if math.Abs(w.X-v.X) <= tol && math.Abs(w.Y-v.Y) <= tol {
						uf.union(j, i)
					}
				}
			}
		}
		grid[c] = append(grid[c], i)
	}
	ids := make([]int, len(vs))
	remap := map[int]int{}
	for i := range vs {
		r := uf.find(i)
		id, ok := remap[r]
		if !ok {
			id = len(remap)
			remap[r] = id
		}
		ids[i] = id
	}
	return ids, len(remap)
}

type lineReport struct {
	Segments   int
	Points     int
	OddDegree  int
	FirstOdd   v2.Vec
	ZeroLength int
	NaN        int
	Degrees    map[int]int // degree -> number of welded points
	HighDeg    []v2.Vec    // points with degree > 2
	Length     float64
}

func checkClosed2(ls []*sdf.Line2, tol float64) lineReport {
	rep := lineReport{Segments: len(ls), Degrees: map[int]int{}}
	vs := make([]v2.Vec, 0, 2*len(ls))
	for _, l := range ls {
		if l[0] == l[1] {
			rep.ZeroLength++
		}
		for k := 0; k < 2; k++ {
			if math.IsNaN(l[k].X+l[k].Y) || math.IsInf(l[k].X+l[k].Y, 0) {
				rep.NaN++
			}
			vs = append(vs, l[k])
		}
		rep.Length += l[1].Sub(l[0]).Length()
	}
	if rep.NaN > 0 {
		return rep
	}
	ids, n := weld2(vs, tol)
	rep.Points = n
	deg := make([]int, n)
	pos := make([]v2.Vec, n)
	for i := range ls {
		a, b := ids[2*i], ids[2*i+1]
		if a == b {
			continue
		}
		deg[a]++
		deg[b]++
		pos[a], pos[b] = vs[2*i], vs[2*i+1]
	}
	first := true
	for i, d := range deg {
		rep.Degrees[d]++
		if d%2 == 1 {
			rep.OddDegree++
			if first || pos[i].X < rep.FirstOdd.X || (pos[i].X == rep.FirstOdd.X && pos[i].Y < rep.FirstOdd.Y) {
				rep.FirstOdd = pos[i]
				first = false
			}
		}
		if d > 2 {
			rep.HighDeg = append(rep.HighDeg, pos[i])
		}
	}
	return rep
}

// pointTriangleDist returns the distance from p to triangle t.
func pointTriangleDist(p v3.Vec, t *sdf.Triangle3) float64 {
	a, b, c := t[0], t[1], t[2]
	ab, ac, ap := b.Sub(a), c.Sub(a), p.Sub(a)
	d1, d2 := ab.Dot(ap), ac.Dot(ap)
	if d1 <= 0 && d2 <= 0 {
		return ap.Length()
	}
	bp := p.Sub(b)
	d3, d4 := ab.Dot(bp), ac.Dot(bp)
	if d3 >= 0 && d4 <= d3 {
		return bp.Length()
	}
	vc := d1*d4 - d3*d2
	if vc <= 0 && d1 >= 0 && d3 <= 0 {
		v := d1 / (d1 - d3)
		return p.Sub(a.Add(ab.MulScalar(v))).Length()
	}
	cp := p.Sub(c)
	d5, d6 := ab.Dot(cp), ac.Dot(cp)
	if d6 >= 0 && d5 <= d6 {
		return cp.Length()
	}
	vb := d5*d2 - d1*d6
	if vb <= 0 && d2 >= 0 && d6 <= 0 {
		w := d2 / (d2 - d6)
		return p.Sub(a.Add(ac.MulScalar(w))).Length()
	}
	va := d3*d6 - d5*d4
	if va <= 0 && (d4-d3) >= 0 && (d5-d6) >= 0 {
		w := (d4 - d3) / ((d4 - d3) + (d5 - d6))
		return p.Sub(b.Add(c.Sub(b).MulScalar(w))).Length()
	}
	den := 1 / (va + vb + vc)
	v := vb * den
	w := vc * den
	return p.Sub(a.Add(ab.MulScalar(v)).Add(ac.MulScalar(w))).Length()
}

func pointSegDist2(p, a, b v2.Vec) float64 {
	ab := b.Sub(a)
	l2 := ab.Length2()
	if l2 == 0 {
		return p.Sub(a).Length()
	}
	t := p.Sub(a).Dot(ab) / l2
	t = math.Max(0, math.Min(1, t))
	return p.Sub(a.Add(ab.MulScalar(t))).Length()
}
