//go:build verif

// Shape catalog, part 2: every exported constructor of obj/ that yields an SDF2 / SDF3.
// Base parameter vectors come from /repo/examples; they are perturbed multiplicatively.
package main

import (
	"fmt"
	"math"
	"strings"

	"github.com/deadsy/sdfx/obj"
	"github.com/deadsy/sdfx/sdf"
	v2 "github.com/deadsy/sdfx/vec/v2"
	"github.com/deadsy/sdfx/vec/v2i"
	v3 "github.com/deadsy/sdfx/vec/v3"
	"github.com/deadsy/sdfx/vec/v3i"
)

const catMMPerInch = 25.4

// pipe names of obj/pipe.go, servo names of obj/servo.go
var catPipeNames = []string{"sch40:1/8", "sch40:1/4", "sch40:3/8", "sch40:1/2", "sch40:3/4", "sch40:1", "sch40:1-1/4", "sch40:1-1/2", "sch40:2", "sch40:2-1/2",
	"sch40:3", "sch40:3-1/2", "sch40:4", "sch40:5", "sch40:6", "sch40:8", "sch40:10", "sch40:12", "sch40:14", "sch40:16", "sch40:18", "sch40:20", "sch40:24"}

var catServoNames = []string{"hitec_hs_40", "nano", "hitec_hs_55", "submicro", "hitec_hs_85bb", "micro", "hitec_hs_225bb", "mini", "hitec_hs_311", "standard",
	"annimos_ds3218", "hitec_hs_805bb", "large", "hitec_hs_1005sgt", "giant"}

// catThreadLen returns a thread name and its radius in the thread's own units.
func catThreadName(r *Rng) (string, *sdf.ThreadParameters, bool) {
	name := pickOne(r, catThreadNames)
	t, err := sdf.ThreadLookup(name)
	if err != nil {
		return "", nil, false
	}
	return name, t, true
}

// catRigid3 draws a rigid placement (rotation about z and a translation).
func catRigid3(r *Rng, scale float64) (sdf.M44, string) {
	c := catCenter3(r, scale)
	th := 0.0
	if r.Bool() {
		th = r.R(-math.Pi, math.Pi)
	}
	return sdf.Translate3d(c).Mul(sdf.RotateZ(th)), fmt.Sprintf("Translate3d(%v).Mul(RotateZ(%v))", c, th)
}

//-----------------------------------------------------------------------------
// angle, arrows, axes

func catAngleParms(r *Rng) obj.AngleParms {
	// base: examples/angle: legs 1.25in x 0.125in, root radius 0.125in, length 12in
	lx := r.LogR(5, 100)
	ly := lx * r.LogR(0.5, 2)
	m := math.Min(lx, ly)
	k := obj.AngleParms{
		X:      obj.AngleLeg{Length: lx, Thickness: m * r.R(0.03, 0.4)},
		Y:      obj.AngleLeg{Length: ly, Thickness: m * r.R(0.03, 0.4)},
		Length: r.LogR(1, 300),
	}
	// root radius must not exceed the inside leg lengths; ~10% of the draws are past the limit
	if r.P(0.8) {
		k.RootRadius = r.R(0, 1.1) * math.Min(lx-k.Y.Thickness, ly-k.X.Thickness)
	}
	return k
}

func catAngle2D(r *Rng) (catShape, bool) {
	k := catAngleParms(r)
	s, err := obj.Angle2D(&k)
	return catOK2(s, err, fmt.Sprintf("obj.Angle2D(%+v)", k))
}

func catAngle3D(r *Rng) (catShape, bool) {
	k := catAngleParms(r)
	s, err := obj.Angle3D(&k)
	return catOK3(s, err, fmt.Sprintf("obj.Angle3D(%+v)", k))
}

func catArrowParms(r *Rng) obj.ArrowParms {
	// base: examples/arrow {Axis {50,1}, Head {5,2}, Tail {5,2}, "cb"}; examples/bucky uses Axis[0] = 0 and "b."
	ar := r.LogR(0.1, 5)
	k := obj.ArrowParms{
		Axis:  [2]float64{ar * r.LogR(5, 100), ar},
		Head:  [2]float64{ar * r.LogR(2, 10), ar * r.R(1.2, 3)},
		Tail:  [2]float64{ar * r.LogR(2, 10), ar * r.R(1.2, 3)},
		Style: pickOne(r, []string{"", "c", "b", "cc", "cb", "bc", "bb", "c.", ".c", "b.", ".b", ".."}),
	}
	if r.P(0.1) {
		k.Axis[0] = 0
	}
	return k
}

func catArrow3D(r *Rng) (catShape, bool) {
	k := catArrowParms(r)
	s, err := obj.Arrow3D(&k)
	return catOK3(s, err, fmt.Sprintf("obj.Arrow3D(%+v)", k))
}

func catDirectedArrow3D(r *Rng) (catShape, bool) {
	k := catArrowParms(r)
	sc := r.LogR(1, 100)
	head := v3.Vec{X: r.R(-1, 1) * sc, Y: r.R(-1, 1) * sc, Z: r.R(-1, 1) * sc}
	tail := v3.Vec{X: r.R(-1, 1) * sc, Y: r.R(-1, 1) * sc, Z: r.R(-1, 1) * sc}
	if r.P(0.15) { // axis aligned
		tail = head.Add(v3.Vec{Z: sc * r.R(0.2, 1) * r.Sign()})
	}
	desc := fmt.Sprintf("obj.DirectedArrow3D(%+v, head=%v, tail=%v)", k, head, tail)
	s, err := obj.DirectedArrow3D(&k, head, tail)
	return catOK3(s, err, desc)
}

func catAxes3D(r *Rng) (catShape, bool) {
	// bases: Axes3D({-10,-10,-10},{10,20,20}), ({-10,-20,-30},{0,0,0}), ({0,0,0},{500,500,1000})
	sc := r.LogR(1, 500)
	comp := func() (float64, float64) {
		a, b := r.R(-1, 1)*sc, r.R(-1, 1)*sc
		switch r.I(6) {
		case 0:
			a = 0
		case 1:
			b = 0
		case 2:
			b = a // this axis is skipped
		}
		return a, b
	}
	var p0, p1 v3.Vec
	p0.X, p1.X = comp()
	p0.Y, p1.Y = comp()
	p0.Z, p1.Z = comp()
	s, err := obj.Axes3D(p0, p1)
	return catOK3(s, err, fmt.Sprintf("obj.Axes3D(%v, %v)", p0, p1))
}

//-----------------------------------------------------------------------------
// bolts, nuts, hex heads, knurls, chamfered cylinder

func catBolt(r *Rng) (catShape, bool) {
	name, t, ok := catThreadName(r)
	if !ok {
		return catShape{}, false
	}
	k := obj.BoltParms{
		Thread:      name,
		Style:       pickOne(r, []string{"hex", "knurl"}),
		TotalLength: t.Radius * r.LogR(2, 14),
	}
	if r.Bool() {
		k.Tolerance = t.Radius * r.R(0, 0.05)
	}
	switch r.I(4) {
	case 0: // fully threaded
	case 1: // no thread
		k.ShankLength = k.TotalLength * r.R(1, 1.5)
	default:
		k.ShankLength = k.TotalLength * r.R(0.05, 0.7)
	}
	s, err := obj.Bolt(&k)
	return catOK3(s, err, fmt.Sprintf("obj.Bolt(%+v)", k))
}

func catNut(r *Rng) (catShape, bool) {
	name, t, ok := catThreadName(r)
	if !ok {
		return catShape{}, false
	}
	k := obj.NutParms{Thread: name, Style: pickOne(r, []string{"hex", "knurl"})}
	if r.Bool() {
		k.Tolerance = t.Radius * r.R(0, 0.05)
	}
	s, err := obj.Nut(&k)
	return catOK3(s, err, fmt.Sprintf("obj.Nut(%+v)", k))
}

func catThreadedCylinder(r *Rng) (catShape, bool) {
	// base: examples/pico_cnc {Height 0.5*holderHeight, Diameter bossDiameter, "unc_8_32", 0}; dimensions in mm
	name, t, ok := catThreadName(r)
	if !ok {
		return catShape{}, false
	}
	mm := t.ToMillimetre()
	k := obj.ThreadedCylinderParms{
		Height:   mm.Pitch * r.R(2, 12),
		Diameter: 2 * mm.Radius * r.R(1.3, 3),
		Thread:   name,
	}
	if r.Bool() {
		k.Tolerance = mm.Radius * r.R(0, 0.05)
	}
	s, err := k.Object()
	return catOK3(s, err, fmt.Sprintf("obj.ThreadedCylinderParms%+v.Object()", k))
}

func catHexDims(r *Rng) (radius, height, round float64) {
	radius = r.LogR(0.5, 60)
	height = radius * r.LogR(0.2, 3)
	if r.P(0.8) {
		round = radius * r.R(0, 0.5) // rounding well below the hex inradius
	}
	return
}

func catHex2D(r *Rng) (catShape, bool) {
	rad, _, round := catHexDims(r)
	s, err := obj.Hex2D(rad, round)
	return catOK2(s, err, fmt.Sprintf("obj.Hex2D(radius=%v, round=%v)", rad, round))
}

func catHex3D(r *Rng) (catShape, bool) {
	rad, h, round := catHexDims(r)
	s, err := obj.Hex3D(rad, h, round)
	return catOK3(s, err, fmt.Sprintf("obj.Hex3D(radius=%v, height=%v, round=%v)", rad, h, round))
}

func catHexHead3D(r *Rng) (catShape, bool) {
	// bases: HexHead3D(r, 2h, ""), HexHead3D(hexRadius, hexHeight, "tb"); bolts use height = radius*5/6
	rad := r.LogR(0.5, 60)
	h := rad * r.LogR(0.4, 2)
	round := pickOne(r, []string{"", "t", "b", "tb"})
	s, err := obj.HexHead3D(rad, h, round)
	return catOK3(s, err, fmt.Sprintf("obj.HexHead3D(radius=%v, height=%v, round=%q)", rad, h, round))
}

func catKnurl3D(r *Rng) (catShape, bool) {
	// base (KnurledHead3D): pitch = r/4, height = 0.3 pitch, theta 45 deg, length = n*pitch
	rad := r.LogR(1, 50)
	pitch := rad * r.R(0.1, 0.5)
	k := obj.KnurlParms{
		Length: pitch * r.R(1.5, 10),
		Radius: rad,
		Pitch:  pitch,
		Height: pitch * r.R(0.1, 0.6),
		Theta:  catDeg(r.R(10, 75)),
	}
	s, err := obj.Knurl3D(&k)
	return catOK3(s, err, fmt.Sprintf("obj.Knurl3D(%+v)", k))
}

func catKnurledHead3D(r *Rng) (catShape, bool) {
	// base: examples/gas_cap KnurledHead3D(capRadius, capHeight, capRadius*0.25)
	rad := r.LogR(1, 60)
	h := rad * r.LogR(0.3, 2)
	pitch := rad * r.R(0.1, 0.5)
	s, err := obj.KnurledHead3D(rad, h, pitch)
	return catOK3(s, err, fmt.Sprintf("obj.KnurledHead3D(r=%v, h=%v, pitch=%v)", rad, h, pitch))
}

func catChamferedCylinder(r *Rng) (catShape, bool) {
	// base (obj.Bolt): ChamferedCylinder(screw, 0, 0.5). The shape must be centered on the z axis.
	kb, kt := 0.0, 0.0
	if r.P(0.7) {
		kb = r.R(0.05, 0.9)
	}
	if r.P(0.7) {
		kt = r.R(0.05, 0.9)
	}
	var s0 sdf.SDF3
	var d string
	if r.Bool() {
		h, rad := r.LogR(1, 100), r.LogR(1, 50)
		c, err := sdf.Cylinder3D(h, rad, 0)
		if err != nil {
			return catShape{}, false
		}
		s0, d = c, fmt.Sprintf("Cylinder3D(%v,%v,0)", h, rad)
	} else {
		rad, pitch, ok := catThreadRP(r)
		if !ok {
			return catShape{}, false
		}
		th, err := sdf.ISOThread(rad, pitch, true)
		if err != nil {
			return catShape{}, false
		}
		l := pitch * r.R(3, 12)
		sc, err := sdf.Screw3D(th, l, 0, pitch, 1)
		if err != nil {
			return catShape{}, false
		}
		s0, d = sc, fmt.Sprintf("Screw3D(ISOThread(%v,%v,true), %v, 0, %v, 1)", rad, pitch, l, pitch)
	}
	s, err := obj.ChamferedCylinder(s0, kb, kt)
	return catOK3(s, err, fmt.Sprintf("obj.ChamferedCylinder(%s, kb=%v, kt=%v)", d, kb, kt))
}

//-----------------------------------------------------------------------------
// drain cover

func catDrainCover(r *Rng) (catShape, bool) {
	// bases: the four covers of examples/draincover (inches -> mm)
	type base struct {
		dia, h, t, draft, ow, iw, ct float64
		n                            int
		gw, gd, cb                   float64
		web                          bool
	}
	b := pickOne(r, []base{
		{1.9, 0.5, 0.125, 0, 0.2, 0.18, 0.125, 8, 1.1, 0, 0, false},
		{3.9, 0.8, 0.2, 2, 0.4, 0.3, 0.2, 8, 1.1, 8, 0.8, false},
		{5.8, 0.8, 0.2, 2, 0.4, 0.3, 0.3, 9, 1.0, 8, 1.8, true},
		{11.8, 1.0, 0.3, 2, 0.8, 0.5, 0.3, 10, 1.0, 8, 1.5, true},
	})
	sc := catMMPerInch * r.LogR(0.5, 2)
	k := obj.DrainCoverParms{
		WallDiameter:   sc * catMn(r, b.dia),
		WallHeight:     sc * catM(r, b.h),
		WallThickness:  sc * catMn(r, b.t),
		WallDraft:      catDeg(b.draft * r.R(0, 2)),
		OuterWidth:     sc * catM(r, b.ow),
		InnerWidth:     sc * catMn(r, b.iw),
		CoverThickness: sc * catMn(r, b.ct),
		GrateNumber:    b.n + r.IR(-2, 2),
		GrateWidth:     catM(r, b.gw),
		GrateDraft:     catDeg(b.gd * r.R(0, 1.5)),
		CrossBarWidth:  b.cb * r.LogR(0.5, 1.5),
		CrossBarWeb:    b.web,
	}
	if r.P(0.2) {
		k.CrossBarWeb = !k.CrossBarWeb
	}
	if r.P(0.2) {
		if k.CrossBarWidth == 0 {
			k.CrossBarWidth = r.R(0.5, 1.8)
		} else {
			k.CrossBarWidth = 0
		}
	}
	s, err := obj.DrainCover(&k)
	return catOK3(s, err, fmt.Sprintf("obj.DrainCover(%+v)", k))
}

//-----------------------------------------------------------------------------
// drone arm and socket

func catDroneArmParms(r *Rng) (obj.DroneArmParms, float64) {
	// base: examples/drone kArm
	sc := r.LogR(0.5, 2)
	k := obj.DroneArmParms{
		MotorSize:     v2.Vec{X: sc * catMn(r, 28), Y: sc * catMn(r, 30)},
		MotorMount:    v3.Vec{X: sc * catMn(r, 16), Y: sc * catMn(r, 19), Z: sc * catMn(r, 3.4)},
		RotorCavity:   v2.Vec{X: sc * catMn(r, 9), Y: sc * catMn(r, 1.5)},
		WallThickness: sc * catMn(r, 3.0),
		SideClearance: sc * catM(r, 1.5),
		MountHeight:   catMn(r, 0.7),
		ArmHeight:     r.R(0.7, 1.0),
		ArmLength:     sc * catM(r, 70),
	}
	return k, sc
}

func catDroneMotorArm(r *Rng) (catShape, bool) {
	k, _ := catDroneArmParms(r)
	s, err := obj.DroneMotorArm(&k)
	return catOK3(s, err, fmt.Sprintf("obj.DroneMotorArm(%+v)", k))
}

func catDroneMotorArmSocket(r *Rng) (catShape, bool) {
	// base: examples/drone kSocket {Size {40,30,30}, Clearance 0.5, Stop 35}
	arm, sc := catDroneArmParms(r)
	k := obj.DroneArmSocketParms{
		Arm:       &arm,
		Clearance: sc * catM(r, 0.5),
	}
	// the socket body must be taller/wider than the arm plus clearance; ~10% of the draws are too small
	h := (arm.MountHeight*arm.MotorSize.Y+arm.WallThickness)*arm.ArmHeight + 2*k.Clearance
	k.Size = v3.Vec{X: sc * catMn(r, 40), Y: h * r.R(0.97, 2), Z: h * r.R(0.97, 2)}
	k.Stop = k.Size.X * r.R(0.3, 0.95)
	s, err := obj.DroneMotorArmSocket(&k)
	return catOK3(s, err, fmt.Sprintf("obj.DroneMotorArmSocket({Arm:%+v Size:%v Clearance:%v Stop:%v})", arm, k.Size, k.Clearance, k.Stop))
}

//-----------------------------------------------------------------------------
// finger button, gears, geneva

func catFingerButton2D(r *Rng) (catShape, bool) {
	// base: examples/axoloti {Width 4, Gap 0.6, Length 20}; the gap is smaller than half the width
	w := r.LogR(1, 40)
	k := obj.FingerButtonParms{Width: w, Gap: w * r.R(0.03, 0.45), Length: w * r.LogR(1, 10)}
	s, err := obj.FingerButton2D(&k)
	return catOK2(s, err, fmt.Sprintf("obj.FingerButton2D(%+v)", k))
}

func catInvoluteGear(r *Rng) (catShape, bool) {
	// base: examples/gears {20 teeth, module 1/32, PA 20deg, RingWidth 0.05, Facets 7}
	m := r.LogR(0.01, 5)
	k := obj.InvoluteGearParms{
		NumberTeeth:   r.IR(6, 45),
		Module:        m,
		PressureAngle: catDeg(r.R(14, 25)),
		Facets:        r.IR(3, 10),
	}
	if r.Bool() {
		k.Backlash = m * r.R(0, 0.1)
	}
	if r.Bool() {
		k.Clearance = m * r.R(0, 0.3)
	}
	if r.P(0.6) { // the ring must stay inside the root circle
		root := m*float64(k.NumberTeeth)/2 - m - k.Clearance
		k.RingWidth = root * r.R(0.1, 1.05)
	}
	s, err := obj.InvoluteGear(&k)
	return catOK2(s, err, fmt.Sprintf("obj.InvoluteGear(%+v)", k))
}

func catGenevaParms(r *Rng) obj.GenevaParms {
	// bases: examples/geneva k0 {6, 50, 20, 40, 2.5, 0.1}, k1 {10, 45, 12, 45, 2, 0.1}; examples/test {6,100,40,80,5,0.5}
	b := pickOne(r, []obj.GenevaParms{
		{NumSectors: 6, CenterDistance: 50, DriverRadius: 20, DrivenRadius: 40, PinRadius: 2.5, Clearance: 0.1},
		{NumSectors: 10, CenterDistance: 45, DriverRadius: 12, DrivenRadius: 45, PinRadius: 2, Clearance: 0.1},
		{NumSectors: 6, CenterDistance: 100, DriverRadius: 40, DrivenRadius: 80, PinRadius: 5, Clearance: 0.5},
	})
	sc := r.LogR(0.2, 5)
	k := obj.GenevaParms{
		NumSectors:     b.NumSectors + r.IR(-2, 2),
		CenterDistance: sc * catMn(r, b.CenterDistance),
		DriverRadius:   sc * catMn(r, b.DriverRadius),
		DrivenRadius:   sc * catMn(r, b.DrivenRadius),
		PinRadius:      sc * catM(r, b.PinRadius),
		Clearance:      sc * catM(r, b.Clearance),
	}
	if r.P(0.15) {
		k.Clearance = 0
	}
	return k
}

func catGenevaDriver(r *Rng) (catShape, bool) {
	k := catGenevaParms(r)
	s, _, err := obj.Geneva2D(&k)
	return catOK2(s, err, fmt.Sprintf("driver wheel of obj.Geneva2D(%+v)", k))
}

func catGenevaDriven(r *Rng) (catShape, bool) {
	k := catGenevaParms(r)
	_, s, err := obj.Geneva2D(&k)
	return catOK2(s, err, fmt.Sprintf("driven wheel of obj.Geneva2D(%+v)", k))
}

//-----------------------------------------------------------------------------
// gridfinity

func catGfBase(r *Rng) (catShape, bool) {
	k := obj.GfBaseParms{Size: v2i.Vec{X: r.IR(0, 4), Y: r.IR(1, 3)}, Magnet: r.Bool(), Hole: r.Bool()}
	desc := fmt.Sprintf("obj.GfBase(%+v)", k)
	return catOK3(obj.GfBase(&k), nil, desc)
}

func catGfBody(r *Rng) (catShape, bool) {
	k := obj.GfBodyParms{Size: v3i.Vec{X: r.IR(1, 3), Y: r.IR(0, 3), Z: r.IR(1, 6)}, Empty: r.Bool(), Hole: r.Bool()}
	desc := fmt.Sprintf("obj.GfBody(%+v)", k)
	return catOK3(obj.GfBody(&k), nil, desc)
}

//-----------------------------------------------------------------------------
// holes

func catCounterBoredHole3D(r *Rng) (catShape, bool) {
	// bases: CounterBoredHole3D(12, 1.9, 5.3, 3.5); counter bore wider than the hole and shallower than the length
	l := r.LogR(1, 100)
	rad := l * r.LogR(0.05, 0.5)
	cbr := rad * r.R(1.2, 4)
	cbd := l * r.R(0.05, 0.8)
	s, err := obj.CounterBoredHole3D(l, rad, cbr, cbd)
	return catOK3(s, err, fmt.Sprintf("obj.CounterBoredHole3D(l=%v, r=%v, cbRadius=%v, cbDepth=%v)", l, rad, cbr, cbd))
}

func catChamferedHole3D(r *Rng) (catShape, bool) {
	l := r.LogR(1, 100)
	rad := l * r.LogR(0.05, 0.5)
	ch := math.Min(rad*r.R(0.1, 2), l*0.9)
	s, err := obj.ChamferedHole3D(l, rad, ch)
	return catOK3(s, err, fmt.Sprintf("obj.ChamferedHole3D(l=%v, r=%v, chRadius=%v)", l, rad, ch))
}

func catCounterSunkHole3D(r *Rng) (catShape, bool) {
	l := r.LogR(1, 100)
	rad := l * r.LogR(0.05, 0.8)
	s, err := obj.CounterSunkHole3D(l, rad)
	return catOK3(s, err, fmt.Sprintf("obj.CounterSunkHole3D(l=%v, r=%v)", l, rad))
}

func catBoltCircle2D(r *Rng) (catShape, bool) {
	// base: BoltCircle2D(holeRadius, d*0.3, 6)
	cr := r.LogR(2, 200)
	n := r.IR(1, 12)
	hr := cr * r.R(0.02, 0.25)
	s, err := obj.BoltCircle2D(hr, cr, n)
	return catOK2(s, err, fmt.Sprintf("obj.BoltCircle2D(holeRadius=%v, circleRadius=%v, numHoles=%d)", hr, cr, n))
}

func catBoltCircle3D(r *Rng) (catShape, bool) {
	cr := r.LogR(2, 200)
	n := r.IR(1, 12)
	hr := cr * r.R(0.02, 0.25)
	d := r.LogR(1, 50)
	s, err := obj.BoltCircle3D(d, hr, cr, n)
	return catOK3(s, err, fmt.Sprintf("obj.BoltCircle3D(holeDepth=%v, holeRadius=%v, circleRadius=%v, numHoles=%d)", d, hr, cr, n))
}

//-----------------------------------------------------------------------------
// keyways

func catKeywayParameters(r *Rng) obj.KeywayParameters {
	sr := r.LogR(1, 60)
	k := obj.KeywayParameters{ShaftRadius: sr, KeyWidth: sr * r.R(0.1, 0.8), ShaftLength: r.LogR(1, 200)}
	if r.Bool() {
		k.KeyRadius = sr * r.R(0.5, 0.98) // key cut into the shaft
	} else {
		k.KeyRadius = sr * r.R(1.02, 1.5) // key proud of the shaft (bore profile)
	}
	return k
}

func catKeyway2D(r *Rng) (catShape, bool) {
	k := catKeywayParameters(r)
	s, err := obj.Keyway2D(&k)
	return catOK2(s, err, fmt.Sprintf("obj.Keyway2D(%+v)", k))
}

func catKeyway3D(r *Rng) (catShape, bool) {
	k := catKeywayParameters(r)
	s, err := obj.Keyway3D(&k)
	return catOK3(s, err, fmt.Sprintf("obj.Keyway3D(%+v)", k))
}

//-----------------------------------------------------------------------------
// panels

func catPanelParms(r *Rng) obj.PanelParms {
	// bases: examples/nordic, axochord, pico_cnc (margins 5..7, hole diameter 3..3.5, corner radius 4..5)
	patterns := []string{"x", "xx", "x.x", ".x...x", "", "xx.x.xx", "xxx"}
	x, y := r.LogR(20, 300), r.LogR(20, 300)
	m := math.Min(x, y)
	k := obj.PanelParms{
		Size:         v2.Vec{X: x, Y: y},
		CornerRadius: m * r.R(0, 0.4),
		HoleDiameter: catM(r, 3.4),
		Thickness:    r.LogR(0.5, 10),
	}
	for i := range k.HoleMargin {
		k.HoleMargin[i] = math.Min(catM(r, 5), m*0.3)
		k.HolePattern[i] = pickOne(r, patterns)
	}
	if r.P(0.15) {
		k.HoleDiameter = 0
	}
	if r.P(0.15) {
		k.CornerRadius = 0
	}
	return k
}

func catPanel2D(r *Rng) (catShape, bool) {
	k := catPanelParms(r)
	s, err := obj.Panel2D(&k)
	return catOK2(s, err, fmt.Sprintf("obj.Panel2D(%+v)", k))
}

func catPanel3D(r *Rng) (catShape, bool) {
	k := catPanelParms(r)
	s, err := obj.Panel3D(&k)
	return catOK3(s, err, fmt.Sprintf("obj.Panel3D(%+v)", k))
}

func catEuroRackParms(r *Rng) obj.EuroRackParms {
	// base: examples/eurorack {U 3, HP 12, CornerRadius 3, HoleDiameter 3.6, Thickness 3, Ridge true}
	k := obj.EuroRackParms{
		U:            float64(r.IR(1, 4)),
		HP:           float64(r.IR(2, 42)),
		CornerRadius: r.R(0, 4),
		HoleDiameter: catM(r, 3.6),
		Thickness:    catM(r, 3),
		Ridge:        r.Bool(),
	}
	if r.P(0.3) {
		k.HoleDiameter = 0 // default
	}
	if r.P(0.1) {
		k.U = r.R(1, 4)
	}
	return k
}

func catEuroRackPanel2D(r *Rng) (catShape, bool) {
	k := catEuroRackParms(r)
	desc := fmt.Sprintf("obj.EuroRackPanel2D(%+v)", k)
	s, err := obj.EuroRackPanel2D(&k)
	return catOK2(s, err, desc)
}

func catEuroRackPanel3D(r *Rng) (catShape, bool) {
	k := catEuroRackParms(r)
	desc := fmt.Sprintf("obj.EuroRackPanel3D(%+v)", k)
	s, err := obj.EuroRackPanel3D(&k)
	return catOK3(s, err, desc)
}

func catPanelHole3D(r *Rng) (catShape, bool) {
	// bases: examples/eurorack {9.4, t, {2,4,2}, 11}, {7.2, t, {2,2,1.5}, 7}
	d := r.LogR(2, 40)
	k := obj.PanelHoleParms{
		Diameter:  d,
		Thickness: r.LogR(1, 10),
		Indent:    v3.Vec{X: d * r.R(0.1, 0.5), Y: d * r.R(0.1, 0.5)},
		Offset:    d * r.R(0.6, 1.6),
	}
	k.Indent.Z = k.Thickness * r.R(0.2, 1)
	if r.Bool() {
		k.Orientation = r.R(-math.Pi, math.Pi)
	}
	if r.P(0.15) {
		k.Offset = 0 // plain hole
	}
	s, err := obj.PanelHole3D(&k)
	return catOK3(s, err, fmt.Sprintf("obj.PanelHole3D(%+v)", k))
}

func catPanelBoxPart(part int) func(r *Rng) (catShape, bool) {
	names := []string{"panel", "top", "bottom"}
	return func(r *Rng) (catShape, bool) {
		// base: examples/panel_box {Size {50,40,60}, Wall 2.5, Panel 3, Rounding 5, insets 2, Hole 3.4, "TbtbT"}
		sc := r.LogR(0.5, 2)
		k := obj.PanelBoxParms{
			Size:       v3.Vec{X: sc * catM(r, 50), Y: sc * catM(r, 40), Z: sc * catM(r, 60)},
			Wall:       sc * catMn(r, 2.5),
			Panel:      sc * catMn(r, 3),
			Rounding:   sc * catM(r, 5),
			FrontInset: sc * catM(r, 2),
			BackInset:  sc * catM(r, 2),
			SideTabs:   pickOne(r, []string{"TbtbT", "", "tb", "TB", "bT.Tb", "t", "B", "TtbB", "T.b"}),
		}
		// screw holes need tabs with holes (T/B); ~10% of the draws without them keep a hole and must be rejected
		if strings.ContainsAny(k.SideTabs, "TB") && r.P(0.75) || r.P(0.1) {
			k.Hole = sc * catMn(r, 3.4)
		}
		if r.Bool() {
			k.Clearance = r.R(0.01, 0.1)
		}
		if r.P(0.15) {
			k.Rounding = 0
		}
		desc := fmt.Sprintf("part %d (%s) of obj.PanelBox3D(%+v)", part, names[part], k)
		parts, err := obj.PanelBox3D(&k)
		if err != nil || len(parts) != 3 {
			return catShape{}, false
		}
		return catOK3(parts[part], nil, desc)
	}
}

//-----------------------------------------------------------------------------
// pipes

func catPipe3D(r *Rng) (catShape, bool) {
	o := r.LogR(1, 100)
	i := o * r.R(0.3, 0.97)
	l := r.LogR(1, 300)
	if r.P(0.05) {
		l = 0 // documented: no pipe
	}
	s, err := obj.Pipe3D(o, i, l)
	return catOK3(s, err, fmt.Sprintf("obj.Pipe3D(oRadius=%v, iRadius=%v, length=%v)", o, i, l))
}

func catStdPipe3D(r *Rng) (catShape, bool) {
	// base: examples/test StdPipe3D("sch40:1", "mm", 100)
	name, units := pickOne(r, catPipeNames), pickOne(r, []string{"mm", "inch"})
	l := r.LogR(1, 200)
	s, err := obj.StdPipe3D(name, units, l)
	return catOK3(s, err, fmt.Sprintf("obj.StdPipe3D(%q, %q, length=%v)", name, units, l))
}

func catPipeCfg(r *Rng) [6]bool {
	var cfg [6]bool
	for i := range cfg {
		cfg[i] = r.P(0.45)
	}
	if r.P(0.9) {
		cfg[r.I(6)] = true
	}
	return cfg
}

func catPipeConnector3D(r *Rng) (catShape, bool) {
	// derived from StdPipeConnector3D: outer = pipe outer + wall, inner = pipe outer, recess = wall
	o := r.LogR(2, 100)
	in := o * r.R(0.5, 0.95)
	l := o * r.R(1.5, 6)
	k := obj.PipeConnectorParms{
		Length:        l,
		OuterRadius:   o,
		InnerRadius:   in,
		Configuration: catPipeCfg(r),
	}
	if r.P(0.8) { // recessed stop; every arm needs length >= radius
		k.RecessWidth = in * r.R(0.05, 0.4)
		k.RecessDepth = (l - in) * r.R(0.1, 1.0)
	}
	if r.P(0.1) {
		k.InnerRadius, k.RecessWidth, k.RecessDepth = 0, 0, 0 // solid connector
	}
	s, err := obj.PipeConnector3D(&k)
	return catOK3(s, err, fmt.Sprintf("obj.PipeConnector3D(%+v)", k))
}

func catStdPipeConnector3D(r *Rng) (catShape, bool) {
	// base: examples/pipe_connectors
	name, units := pickOne(r, catPipeNames), pickOne(r, []string{"mm", "inch"})
	p, err := obj.PipeLookup(name, units)
	if err != nil {
		return catShape{}, false
	}
	l := p.Outer * r.R(2.2, 8)
	cfg := catPipeCfg(r)
	s, err := obj.StdPipeConnector3D(name, units, l, cfg)
	return catOK3(s, err, fmt.Sprintf("obj.StdPipeConnector3D(%q, %q, length=%v, cfg=%v)", name, units, l, cfg))
}

//-----------------------------------------------------------------------------
// servos

func catServoParms(r *Rng) (obj.ServoParms, string, bool) {
	name := pickOne(r, catServoNames)
	k0, err := obj.ServoLookup(name)
	if err != nil {
		return obj.ServoParms{}, "", false
	}
	k := *k0
	if r.P(0.3) {
		return k, name, true // the database entry as is
	}
	sc := r.LogR(0.5, 2)
	k.Body = v3.Vec{X: sc * catMn(r, k.Body.X), Y: sc * catMn(r, k.Body.Y), Z: sc * catMn(r, k.Body.Z)}
	k.Mount = v3.Vec{X: sc * catMn(r, k.Mount.X), Y: sc * catMn(r, k.Mount.Y), Z: sc * catM(r, k.Mount.Z)}
	k.Hole = v2.Vec{X: sc * catMn(r, k.Hole.X), Y: sc * catMn(r, k.Hole.Y)}
	k.MountOffset = sc * catMn(r, k.MountOffset)
	k.ShaftOffset = sc * catMn(r, k.ShaftOffset)
	k.ShaftLength = sc * catM(r, k.ShaftLength)
	k.ShaftRadius = sc * catM(r, k.ShaftRadius)
	k.HoleRadius = sc * catMn(r, k.HoleRadius)
	return k, name + " perturbed", true
}

func catServo3D(r *Rng) (catShape, bool) {
	k, name, ok := catServoParms(r)
	if !ok {
		return catShape{}, false
	}
	s, err := obj.Servo3D(&k)
	return catOK3(s, err, fmt.Sprintf("obj.Servo3D(%s: %+v)", name, k))
}

func catServo2D(r *Rng) (catShape, bool) {
	k, name, ok := catServoParms(r)
	if !ok {
		return catShape{}, false
	}
	hr := -1.0 // default hole radius
	if r.Bool() {
		hr = k.HoleRadius * r.R(0, 1.5)
	}
	s, err := obj.Servo2D(&k, hr)
	return catOK2(s, err, fmt.Sprintf("obj.Servo2D(%s: %+v, holeRadius=%v)", name, k, hr))
}

func catServoHorn(r *Rng) (catShape, bool) {
	// base: examples/delta {CenterRadius 3, NumHoles 4, CircleRadius 7, HoleRadius 1.9}
	sc := r.LogR(0.3, 5)
	k := obj.ServoHornParms{
		CenterRadius: sc * catM(r, 3),
		NumHoles:     4 + r.IR(-2, 4),
		CircleRadius: sc * catM(r, 7),
		HoleRadius:   sc * catM(r, 1.9),
	}
	switch r.I(8) {
	case 0:
		k.CenterRadius = 0
	case 1:
		k.NumHoles = 0
	}
	s, err := obj.ServoHorn(&k)
	return catOK2(s, err, fmt.Sprintf("obj.ServoHorn(%+v)", k))
}

//-----------------------------------------------------------------------------
// springs, standoffs

func catSpringParms(r *Rng) obj.SpringParms {
	// base: examples/pico_cnc {Width w, Height h, WallThickness 1, Diameter 5, NumSections 3, Boss {2*d, 8}}
	sc := r.LogR(0.3, 5)
	k := obj.SpringParms{
		Width:         sc * catM(r, 20),
		Height:        sc * catM(r, 10),
		WallThickness: sc * catMn(r, 1),
		Diameter:      sc * catMn(r, 5),
		NumSections:   3 + r.IR(-2, 3),
		Boss:          [2]float64{sc * catM(r, 10), sc * catM(r, 8)},
	}
	if r.P(0.2) {
		k.Boss = [2]float64{} // raised to the wall thickness by the constructor
	}
	return k
}

func catSpring2D(r *Rng) (catShape, bool) {
	k := catSpringParms(r)
	desc := fmt.Sprintf("obj.SpringParms%+v.Spring2D()", k)
	s, err := k.Spring2D()
	return catOK2(s, err, desc)
}

func catSpring3D(r *Rng) (catShape, bool) {
	k := catSpringParms(r)
	desc := fmt.Sprintf("obj.SpringParms%+v.Spring3D()", k)
	s, err := k.Spring3D()
	return catOK3(s, err, desc)
}

func catStandoff3D(r *Rng) (catShape, bool) {
	// bases: examples/maixgo {h, 4.5, 11, 2.6, 2 webs, 10, 12, 3.5}, examples/nordic {h, 6, 10, 2.4}
	sc := r.LogR(0.3, 5)
	h := sc * catM(r, 15)
	d := sc * catM(r, 5)
	k := obj.StandoffParms{
		PillarHeight:   h,
		PillarDiameter: d,
		HoleDepth:      h * r.R(0.2, 0.9),
		HoleDiameter:   d * r.R(0.2, 0.7),
	}
	switch r.I(5) {
	case 0:
		k.HoleDepth = -k.HoleDepth * 0.3 // support stub
	case 1:
		k.HoleDepth, k.HoleDiameter = 0, 0
	}
	if r.P(0.6) {
		k.NumberWebs = r.IR(1, 6)
		k.WebHeight = h * r.R(0.2, 0.9)
		k.WebDiameter = d * r.R(1.5, 3.5)
		k.WebWidth = d * r.R(0.2, 0.9)
	}
	s, err := obj.Standoff3D(&k)
	return catOK3(s, err, fmt.Sprintf("obj.Standoff3D(%+v)", k))
}

//-----------------------------------------------------------------------------
// tabs

// catTab draws one of the three tab kinds (examples/tabbox).
func catTab(kind string, r *Rng) (obj.Tab, float64, string, bool) {
	wall := r.LogR(1, 10)
	switch kind {
	case "straight", "angle":
		size := v3.Vec{X: wall * r.R(2, 8), Y: wall * r.R(0.3, 1), Z: wall * r.R(0.5, 3)}
		if kind == "angle" && size.X < 1.2*size.Z {
			size.X = size.Z * r.R(1.5, 4) // the 45 degree cuts need x > z
		}
		cl := wall * r.R(0, 0.1)
		if kind == "straight" {
			t, err := obj.NewStraightTab(size, cl)
			return t, size.X, fmt.Sprintf("obj.NewStraightTab(size=%v, clearance=%v)", size, cl), err == nil && t != nil
		}
		t, err := obj.NewAngleTab(size, cl)
		return t, size.X, fmt.Sprintf("obj.NewAngleTab(size=%v, clearance=%v)", size, cl), err == nil && t != nil
	default:
		l := wall * r.R(2, 8)
		k := obj.ScrewTab{
			Length:     l,
			Radius:     wall * r.R(0.5, 1.5),
			Round:      r.Bool(),
			HoleUpper:  wall * r.R(0.5, 2),
			HoleLower:  l * r.R(0.3, 0.9),
			HoleRadius: wall * r.R(0.1, 0.4),
		}
		t, err := obj.NewScrewTab(&k)
		return t, l, fmt.Sprintf("obj.NewScrewTab(%+v)", k), err == nil && t != nil
	}
}

func catTabPart(kind string, envelope, upper bool) func(r *Rng) (catShape, bool) {
	return func(r *Rng) (catShape, bool) {
		t, sz, d, ok := catTab(kind, r)
		if !ok {
			return catShape{}, false
		}
		m, md := catRigid3(r, sz)
		if envelope {
			return catOK3(t.Envelope(upper, m), nil, fmt.Sprintf("%s.Envelope(upper=%v, %s)", d, upper, md))
		}
		return catOK3(t.Body(upper, m), nil, fmt.Sprintf("%s.Body(upper=%v, %s)", d, upper, md))
	}
}

func catAddTabs(r *Rng) (catShape, bool) {
	kind := pickOne(r, []string{"straight", "angle", "screw"})
	t, sz, d, ok := catTab(kind, r)
	if !ok {
		return catShape{}, false
	}
	upper := r.Bool()
	// a box half above (upper) or below (lower) the xy plane, tabs on the boundary plane
	bs := v3.Vec{X: sz * r.R(3, 8), Y: sz * r.R(3, 8), Z: sz * r.R(1, 4)}
	box, err := sdf.Box3D(bs, 0)
	if err != nil {
		return catShape{}, false
	}
	z := 0.5 * bs.Z
	if !upper {
		z = -z
	}
	box = sdf.Transform3D(box, sdf.Translate3d(v3.Vec{Z: z}))
	n := r.IR(1, 4)
	mset := make([]sdf.M44, n)
	md := ""
	for i := range mset {
		p := v3.Vec{X: bs.X * r.R(-0.4, 0.4), Y: bs.Y * r.R(-0.4, 0.4)}
		th := r.R(-math.Pi, math.Pi)
		mset[i] = sdf.Translate3d(p).Mul(sdf.RotateZ(th))
		md += fmt.Sprintf(" Translate3d(%v).Mul(RotateZ(%v))", p, th)
	}
	s := obj.AddTabs(box, t, upper, mset)
	return catOK3(s, nil, fmt.Sprintf("obj.AddTabs(Translate3d({0,0,%v}) Box3D(%v), %s, upper=%v, [%s ])", z, bs, d, upper, md))
}

//-----------------------------------------------------------------------------
// truncated rectangular pyramid, washers

func catTruncRectPyramid3D(r *Rng) (catShape, bool) {
	// bases: examples/flask, msquare, midget, inlet_hood: drafts 2..45 deg, BaseRadius up to Size.X/2, Size.X/Y may be 0
	h := r.LogR(0.5, 100)
	k := obj.TruncRectPyramidParms{
		Size:      v3.Vec{X: h * r.LogR(0.3, 10), Y: h * r.LogR(0.3, 10), Z: h},
		BaseAngle: catDeg(90 - r.R(0, 50)),
	}
	m := math.Min(k.Size.X, k.Size.Y)
	k.BaseRadius = m * r.R(0, 0.5)
	if r.P(0.15) { // round pyramid (cone) as in midget/crankcase
		k.Size.X, k.Size.Y = 0, 0
		k.BaseRadius = h * r.LogR(0.2, 5)
	}
	if r.P(0.7) { // edge rounding, not larger than the height
		k.RoundRadius = h * r.R(0, 1.05)
	}
	if r.P(0.1) {
		k.BaseAngle = catDeg(90)
	}
	s, err := obj.TruncRectPyramid3D(&k)
	return catOK3(s, err, fmt.Sprintf("obj.TruncRectPyramid3D(%+v)", k))
}

func catWasherParms(r *Rng) obj.WasherParms {
	// bases: {10, 40, 50, 0.3}, {t, d/2, d/2+2, 0.3}, {t, h/2, h, 0.5}
	o := r.LogR(1, 100)
	return obj.WasherParms{Thickness: r.LogR(0.5, 30), InnerRadius: o * r.R(0.2, 0.95), OuterRadius: o}
}

func catWasher2D(r *Rng) (catShape, bool) {
	k := catWasherParms(r)
	if r.P(0.15) {
		k.Remove = r.R(0.05, 0.9) // documented TODO: must be rejected
	}
	s, err := obj.Washer2D(&k)
	return catOK2(s, err, fmt.Sprintf("obj.Washer2D(%+v)", k))
}

func catWasher3D(r *Rng) (catShape, bool) {
	k := catWasherParms(r)
	if r.P(0.7) {
		k.Remove = r.R(0.02, 0.98)
	}
	s, err := obj.Washer3D(&k)
	return catOK3(s, err, fmt.Sprintf("obj.Washer3D(%+v)", k))
}

//-----------------------------------------------------------------------------
// triangle mesh import

func catImportSTL(file string) func(r *Rng) (catShape, bool) {
	return func(r *Rng) (catShape, bool) {
		// base: ImportSTL(path, 20, 3, 5)
		nn := r.IR(5, 30)
		minC := r.IR(2, 4)
		maxC := minC + r.IR(1, 4)
		path := catFilesDir() + "/" + file
		s, err := obj.ImportSTL(path, nn, minC, maxC)
		return catOK3(s, err, fmt.Sprintf("obj.ImportSTL(%q, numNeighbors=%d, minChildren=%d, maxChildren=%d)", path, nn, minC, maxC))
	}
}

func catImportTriMesh(r *Rng) (catShape, bool) {
	m, d := catTriMesh(r)
	nn := r.IR(2, 20)
	minC := r.IR(2, 4)
	maxC := minC + r.IR(1, 4)
	s := obj.ImportTriMesh(m, nn, minC, maxC)
	return catOK3(s, nil, fmt.Sprintf("obj.ImportTriMesh(%s, numNeighbors=%d, minChildren=%d, maxChildren=%d)", d, nn, minC, maxC))
}

//-----------------------------------------------------------------------------

func init() {
	catalog = append(catalog,
		catEntry{Name: "obj.Angle2D", Pkg: "obj", Gen: catAngle2D},
		catEntry{Name: "obj.Angle3D", Pkg: "obj", Gen: catAngle3D},
		catEntry{Name: "obj.Arrow3D", Pkg: "obj", Gen: catArrow3D},
		catEntry{Name: "obj.DirectedArrow3D", Pkg: "obj", Gen: catDirectedArrow3D},
		catEntry{Name: "obj.Axes3D", Pkg: "obj", Gen: catAxes3D},
		catEntry{Name: "obj.Bolt", Pkg: "obj", Gen: catBolt},
		catEntry{Name: "obj.Nut", Pkg: "obj", Gen: catNut},
		catEntry{Name: "obj.ThreadedCylinderParms.Object", Pkg: "obj", Gen: catThreadedCylinder},
		catEntry{Name: "obj.Hex2D", Pkg: "obj", Gen: catHex2D},
		catEntry{Name: "obj.Hex3D", Pkg: "obj", Gen: catHex3D},
		catEntry{Name: "obj.HexHead3D", Pkg: "obj", Gen: catHexHead3D},
		catEntry{Name: "obj.Knurl3D", Pkg: "obj", Gen: catKnurl3D},
		catEntry{Name: "obj.KnurledHead3D", Pkg: "obj", Gen: catKnurledHead3D},
		catEntry{Name: "obj.ChamferedCylinder", Pkg: "obj", Gen: catChamferedCylinder},
		catEntry{Name: "obj.DrainCover", Pkg: "obj", Gen: catDrainCover},
		catEntry{Name: "obj.DroneMotorArm", Pkg: "obj", Gen: catDroneMotorArm},
		catEntry{Name: "obj.DroneMotorArmSocket", Pkg: "obj", Gen: catDroneMotorArmSocket},
		catEntry{Name: "obj.FingerButton2D", Pkg: "obj", Gen: catFingerButton2D},
		catEntry{Name: "obj.InvoluteGear", Pkg: "obj", Gen: catInvoluteGear},
		catEntry{Name: "obj.Geneva2D-driver", Pkg: "obj", Gen: catGenevaDriver},
		catEntry{Name: "obj.Geneva2D-driven", Pkg: "obj", Gen: catGenevaDriven},
		catEntry{Name: "obj.GfBase", Pkg: "obj", Gen: catGfBase},
		catEntry{Name: "obj.GfBody", Pkg: "obj", Gen: catGfBody},
		catEntry{Name: "obj.CounterBoredHole3D", Pkg: "obj", Gen: catCounterBoredHole3D},
		catEntry{Name: "obj.ChamferedHole3D", Pkg: "obj", Gen: catChamferedHole3D},
		catEntry{Name: "obj.CounterSunkHole3D", Pkg: "obj", Gen: catCounterSunkHole3D},
		catEntry{Name: "obj.BoltCircle2D", Pkg: "obj", Gen: catBoltCircle2D},
		catEntry{Name: "obj.BoltCircle3D", Pkg: "obj", Gen: catBoltCircle3D},
		catEntry{Name: "obj.Keyway2D", Pkg: "obj", Gen: catKeyway2D},
		catEntry{Name: "obj.Keyway3D", Pkg: "obj", Gen: catKeyway3D},
		catEntry{Name: "obj.Panel2D", Pkg: "obj", Gen: catPanel2D},
		catEntry{Name: "obj.Panel3D", Pkg: "obj", Gen: catPanel3D},
		catEntry{Name: "obj.EuroRackPanel2D", Pkg: "obj", Gen: catEuroRackPanel2D},
		catEntry{Name: "obj.EuroRackPanel3D", Pkg: "obj", Gen: catEuroRackPanel3D},
		catEntry{Name: "obj.PanelHole3D", Pkg: "obj", Gen: catPanelHole3D},
		catEntry{Name: "obj.PanelBox3D-panel", Pkg: "obj", Gen: catPanelBoxPart(0)},
		catEntry{Name: "obj.PanelBox3D-top", Pkg: "obj", Gen: catPanelBoxPart(1)},
		catEntry{Name: "obj.PanelBox3D-bottom", Pkg: "obj", Gen: catPanelBoxPart(2)},
		catEntry{Name: "obj.Pipe3D", Pkg: "obj", Gen: catPipe3D},
		catEntry{Name: "obj.StdPipe3D", Pkg: "obj", Gen: catStdPipe3D},
		catEntry{Name: "obj.PipeConnector3D", Pkg: "obj", Gen: catPipeConnector3D},
		catEntry{Name: "obj.StdPipeConnector3D", Pkg: "obj", Gen: catStdPipeConnector3D},
		catEntry{Name: "obj.Servo3D", Pkg: "obj", Gen: catServo3D},
		catEntry{Name: "obj.Servo2D", Pkg: "obj", Gen: catServo2D},
		catEntry{Name: "obj.ServoHorn", Pkg: "obj", Gen: catServoHorn},
		catEntry{Name: "obj.SpringParms.Spring2D", Pkg: "obj", Gen: catSpring2D},
		catEntry{Name: "obj.SpringParms.Spring3D", Pkg: "obj", Gen: catSpring3D},
		catEntry{Name: "obj.Standoff3D", Pkg: "obj", Gen: catStandoff3D},
		catEntry{Name: "obj.StraightTab.Body", Pkg: "obj", Gen: catTabPart("straight", false, false)},
		catEntry{Name: "obj.StraightTab.Envelope", Pkg: "obj", Gen: catTabPart("straight", true, true)},
		catEntry{Name: "obj.AngleTab.Body", Pkg: "obj", Gen: catTabPart("angle", false, false)},
		catEntry{Name: "obj.AngleTab.Envelope", Pkg: "obj", Gen: catTabPart("angle", true, true)},
		catEntry{Name: "obj.ScrewTab.Body", Pkg: "obj", Gen: catTabPart("screw", false, false)},
		catEntry{Name: "obj.ScrewTab.Envelope-upper", Pkg: "obj", Gen: catTabPart("screw", true, true)},
		catEntry{Name: "obj.ScrewTab.Envelope-lower", Pkg: "obj", Gen: catTabPart("screw", true, false)},
		catEntry{Name: "obj.AddTabs", Pkg: "obj", Gen: catAddTabs},
		catEntry{Name: "obj.TruncRectPyramid3D", Pkg: "obj", Gen: catTruncRectPyramid3D},
		catEntry{Name: "obj.Washer2D", Pkg: "obj", Gen: catWasher2D},
		catEntry{Name: "obj.Washer3D", Pkg: "obj", Gen: catWasher3D},
		catEntry{Name: "obj.ImportSTL-teapot", Pkg: "obj", Heavy: true, Gen: catImportSTL("teapot.stl")},
		catEntry{Name: "obj.ImportSTL-monkey", Pkg: "obj", Heavy: true, Gen: catImportSTL("monkey.stl")},
		catEntry{Name: "obj.ImportSTL-bottle", Pkg: "obj", Heavy: true, Gen: catImportSTL("bottle.stl")},
		catEntry{Name: "obj.ImportTriMesh", Pkg: "obj", Gen: catImportTriMesh},
	)
}
