//go:build verif

// Shape catalog: one entry per public constructor of sdf/ and obj/ with a
// generator of valid parameter vectors. Used by C01 (boxes) and C10 (races).
package main

import "github.com/deadsy/sdfx/sdf"

// catShape is one constructed shape (exactly one of S2 / S3 is set).
type catShape struct {
	S2   sdf.SDF2
	S3   sdf.SDF3
	Desc string // constructor call with the parameter values, enough to rebuild the shape by hand
}

// catEntry builds in-domain instances of one constructor. Gen returns ok=false when the drawn parameter
// vector is outside the constructor's domain (constructor returned an error or nil): such draws are
// skipped and counted, never a violation.
type catEntry struct {
	Name      string // e.g. "sdf.FlatFlankCam2D", "obj.Bolt"
	Pkg       string // "sdf" or "obj"
	Unbounded bool   // documented as unbounded (gyroid): exempt from C01
	Heavy     bool   // Evaluate is slow (>50us): fewer probe points
	Gen       func(r *Rng) (catShape, bool)
}

var catalog []catEntry
