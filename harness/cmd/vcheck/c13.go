//go:build verif

// C13 - STL files are well-formed and round-trip exactly.
//
// Observed executions: render.SaveSTL, render.ToSTL (streaming writer, driven by a
// scripted renderer) and render.LoadSTL. Oracle: an independent byte-level STL
// encoder/parser (manual offsets, math.Float32bits, little endian), an independent
// normal computation and the harness's own ASCII STL writer.
package main

import (
	"bufio"
	"bytes"
	"encoding/hex"
	"encoding/json"
	"fmt"
	"io"
	"math"
	"math/big"
	"os"
	"path/filepath"
	"strconv"
	"strings"

	"github.com/deadsy/sdfx/render"
	"github.com/deadsy/sdfx/sdf"
	v3 "github.com/deadsy/sdfx/vec/v3"
)

func init() { checks["C13"] = checkC13; replays["C13"] = replayC13 }

// c13Tri is the harness's own triangle: [vertex][x,y,z].
type c13Tri [3][3]float64

func c13ToLib(ts []c13Tri) []*sdf.Triangle3 {
	out := make([]*sdf.Triangle3, len(ts), len(ts)+3) // cap > len on purpose
	for i, t := range ts {
		out[i] = &sdf.Triangle3{
			v3.Vec{X: t[0][0], Y: t[0][1], Z: t[0][2]},
			v3.Vec{X: t[1][0], Y: t[1][1], Z: t[1][2]},
			v3.Vec{X: t[2][0], Y: t[2][1], Z: t[2][2]}}
	}
	return out
}

//-----------------------------------------------------------------------------
// oracle: binary layout

const c13NormalTol = 1e-6 // absolute, per component (property: float32 unit normal)

func c13PutF32(b []byte, o int, v float64) {
	u := math.Float32bits(float32(v))
	b[o], b[o+1], b[o+2], b[o+3] = byte(u), byte(u>>8), byte(u>>16), byte(u>>24)
}

func c13GetU32(b []byte, o int) uint32 {
	return uint32(b[o]) | uint32(b[o+1])<<8 | uint32(b[o+2])<<16 | uint32(b[o+3])<<24
}

func c13GetF32(b []byte, o int) float64 { return float64(math.Float32frombits(c13GetU32(b, o))) }

// c13Encode is the reference encoding: 80 header bytes (content unspecified, left 0),
// count, then per triangle 12 normal bytes (left 0: normals are compared by value),
// 36 vertex bytes and 2 zero attribute bytes.
func c13Encode(ts []c13Tri) []byte {
	b := make([]byte, 84+50*len(ts))
	n := uint32(len(ts))
	b[80], b[81], b[82], b[83] = byte(n), byte(n>>8), byte(n>>16), byte(n>>24)
	for i, t := range ts {
		o := 84 + 50*i + 12
		for v := 0; v < 3; v++ {
			for k := 0; k < 3; k++ {
				c13PutF32(b, o+12*v+4*k, t[v][k])
			}
		}
	}
	return b
}

// c13Normal returns normalize((v1-v0)x(v2-v0)); ok=false when the triangle is degenerate or so thin
// (sine of the corner angle < 1e-5) that float64 evaluation of the normal is not accurate to << 1e-6.
// The edges are scaled by powers of two first (exact), so it cannot overflow/underflow.
func c13Normal(t c13Tri) (n [3]float64, ok bool) {
	var e [2][3]float64
	for j := 0; j < 2; j++ {
		m := 0.0
		for k := 0; k < 3; k++ {
			e[j][k] = t[j+1][k] - t[0][k]
			m = math.Max(m, math.Abs(e[j][k]))
		}
		if m == 0 || math.IsInf(m, 0) || math.IsNaN(m) {
			return n, false
		}
		_, ex := math.Frexp(m)
		for k := 0; k < 3; k++ {
			e[j][k] = math.Ldexp(e[j][k], -ex)
		}
	}
	a, b := e[0], e[1]
	c := [3]float64{a[1]*b[2] - a[2]*b[1], a[2]*b[0] - a[0]*b[2], a[0]*b[1] - a[1]*b[0]}
	l := math.Sqrt(c[0]*c[0] + c[1]*c[1] + c[2]*c[2])
	la := math.Sqrt(a[0]*a[0] + a[1]*a[1] + a[2]*a[2])
	lb := math.Sqrt(b[0]*b[0] + b[1]*b[1] + b[2]*b[2])
	if !(l >= 1e-5*la*lb) {
		return n, false
	}
	return [3]float64{c[0] / l, c[1] / l, c[2] / l}, true
}

func c13Round32(t c13Tri) c13Tri {
	for v := 0; v < 3; v++ {
		for k := 0; k < 3; k++ {
			t[v][k] = float64(float32(t[v][k]))
		}
	}
	return t
}

type c13Fail struct {
	Kind, Detail string
	Tri          int
}

type c13Stats struct {
	bytes, tris, normals, normalsSkipped int64
	worstNormal                          float64
}

// c13CheckBinary decides the "saved binary STL" clause for one file.
func c13CheckBinary(file []byte, ts []c13Tri, st *c13Stats) *c13Fail {
	want := c13Encode(ts)
	if len(file) != len(want) {
		return &c13Fail{"length", fmt.Sprintf("file has %d bytes, want 84+50*%d=%d", len(file), len(ts), len(want)), -1}
	}
	if got := c13GetU32(file, 80); got != uint32(len(ts)) {
		return &c13Fail{"count", fmt.Sprintf("count field (bytes 80..83 = %x) reads %d, %d triangles supplied", file[80:84], got, len(ts)), -1}
	}
	st.bytes += int64(len(file))
	for i, t := range ts {
		o := 84 + 50*i
		if !bytes.Equal(file[o+12:o+48], want[o+12:o+48]) {
			for j := 0; j < 9; j++ {
				p := o + 12 + 4*j
				if !bytes.Equal(file[p:p+4], want[p:p+4]) {
					return &c13Fail{"vertex", fmt.Sprintf("triangle %d vertex %d coord %d: bytes %x (=%g) want %x (=float32(%g)=%g)",
						i, j/3+1, j%3, file[p:p+4], c13GetF32(file, p), want[p:p+4], t[j/3][j%3], c13GetF32(want, p)), i}
				}
			}
		}
		if file[o+48] != 0 || file[o+49] != 0 {
			return &c13Fail{"attr", fmt.Sprintf("triangle %d attribute bytes %x, want 0000", i, file[o+48:o+50]), i}
		}
		// normal: only for triangles that are non-degenerate both as given (float64) and as stored
		// (float32-rounded); the stored normal may match either reading of "the triangle".
		n64, ok64 := c13Normal(t)
		n32, ok32 := c13Normal(c13Round32(t))
		if !ok64 || !ok32 {
			st.normalsSkipped++
			continue
		}
		e64, e32 := 0.0, 0.0
		var got [3]float64
		for k := 0; k < 3; k++ {
			got[k] = c13GetF32(file, o+4*k)
			e64 = math.Max(e64, math.Abs(got[k]-n64[k]))
			e32 = math.Max(e32, math.Abs(got[k]-n32[k]))
		}
		err := math.Min(e64, e32)
		if !(err <= c13NormalTol) {
			return &c13Fail{"normal", fmt.Sprintf("triangle %d %v: stored normal %v, right-hand unit normal %v (err %.3g > %g)", i, t, got, n64, err, c13NormalTol), i}
		}
		st.normals++
		st.worstNormal = math.Max(st.worstNormal, err)
	}
	st.tris += int64(len(ts))
	return nil
}

// c13CheckLoaded compares a loaded mesh with the expected values bit for bit (so -0 != +0).
func c13CheckLoaded(got []*sdf.Triangle3, want []c13Tri, round32 bool) *c13Fail {
	if len(got) != len(want) {
		return &c13Fail{"length", fmt.Sprintf("loaded %d triangles, file lists %d", len(got), len(want)), -1}
	}
	for i, w := range want {
		if got[i] == nil {
			return &c13Fail{"value", fmt.Sprintf("triangle %d is nil", i), i}
		}
		if round32 {
			w = c13Round32(w)
		}
		g := c13Tri{{got[i][0].X, got[i][0].Y, got[i][0].Z}, {got[i][1].X, got[i][1].Y, got[i][1].Z}, {got[i][2].X, got[i][2].Y, got[i][2].Z}}
		for v := 0; v < 3; v++ {
			for k := 0; k < 3; k++ {
				if math.Float64bits(g[v][k]) != math.Float64bits(w[v][k]) {
					return &c13Fail{"value", fmt.Sprintf("triangle %d vertex %d coord %d: loaded %g (%#x) want %g (%#x); loaded triangle %v",
						i, v+1, k, g[v][k], math.Float64bits(g[v][k]), w[v][k], math.Float64bits(w[v][k]), g), i}
				}
			}
		}
	}
	return nil
}

//-----------------------------------------------------------------------------
// generators

var c13Classes = []string{"int", "unit", "f32bits", "huge", "tiny", "subnormal", "tie", "offset", "zeros", "mixed"}

type c13Gen struct {
	r    *Rng
	base float64
}

func (g *c13Gen) coord(cls int) float64 {
	r := g.r
	switch cls {
	case 0: // exact small integers
		return float64(r.IR(-1000, 1000))
	case 1: // generic float64, not float32-representable
		return r.R(-1, 1) * r.LogR(1e-3, 1e3)
	case 2: // any finite float32 bit pattern
		u := uint32(r.U64())
		if u&0x7f800000 == 0x7f800000 {
			u &^= 0x00800000
		}
		return float64(math.Float32frombits(u))
	case 3: // huge, finite after the float32 cast
		if r.P(0.05) {
			return r.Sign() * math.MaxFloat32
		}
		return r.Sign() * r.LogR(1e30, 3.4e38)
	case 4: // tiny normal float32 range
		return r.Sign() * r.LogR(1.2e-38, 1e-30)
	case 5: // float32 subnormal range, exact and inexact
		if r.Bool() {
			return r.Sign() * float64(math.Float32frombits(uint32(1+r.I(0x7fffff))))
		}
		return r.Sign() * r.LogR(1.5e-45, 1.17e-38)
	case 6: // exactly halfway between two adjacent float32 values (round to even)
		f := float32(r.R(-1, 1) * r.LogR(1e-6, 1e6))
		nx := math.Float32frombits(math.Float32bits(f) + 1)
		return (float64(f) + float64(nx)) / 2
	case 7: // small model far from the origin
		return g.base + r.R(-1, 1)
	case 8: // zeros, negative zeros and a few units
		return pickOne(r, []float64{0, math.Copysign(0, -1), 0, math.Copysign(0, -1), 1, -1, 2, 0.5})
	default:
		return g.coord(r.I(9))
	}
}

func c13GenList(r *Rng, n, cls int) []c13Tri {
	g := &c13Gen{r: r, base: r.Sign() * r.LogR(1e2, 1e7)}
	ts := make([]c13Tri, n)
	for i := range ts {
		for v := 0; v < 3; v++ {
			for k := 0; k < 3; k++ {
				ts[i][v][k] = g.coord(cls)
			}
		}
	}
	return ts
}

// incl. record counts that exactly fill k blocks of 2^j bytes (floor(2^j/50) records: 81, 163, 327, 655, 1310) and their neighbours
var c13SpecialLens = []int{0, 1, 2, 3, 80, 81, 82, 255, 256, 257, 263, 264, 265, 511, 512, 513, 1024,
	163, 164, 326, 327, 328, 655, 656, 1309, 1310, 1311, 1965, 2620, 2621, 3930}

// list indices >= c13BigBase are a few very long lists (count beyond 16 bits).
const c13BigBase = 1000000

var c13BigLens = []int{65537, 65536, 65535, 200000}

// c13Len: list i has coordinate class i%10; rows of 10 lists cycle special / log-uniform / large lengths.
func c13Len(r *Rng, i, maxLen int) int {
	if i >= c13BigBase {
		return c13BigLens[(i-c13BigBase)%len(c13BigLens)]
	}
	row := i / len(c13Classes)
	switch row % 3 {
	case 0:
		return c13SpecialLens[(row/3)%len(c13SpecialLens)]
	case 1:
		return int(r.LogR(1, float64(maxLen)+0.5))
	default:
		return r.IR(maxLen/2, maxLen)
	}
}

func c13LenClass(n int) string {
	switch {
	case n <= 1:
		return strconv.Itoa(n)
	case n <= 80:
		return "2-80"
	case n <= 254:
		return "81-254"
	case n <= 257:
		return "255-257"
	case n <= 1023:
		return "258-1023"
	case n <= 5000:
		return "1024-5000"
	}
	return ">5000"
}

// c13Batches splits n into write sizes incl. empty writes and sizes straddling the 256-entry buffer.
func c13Batches(r *Rng, n int) []int {
	var bs []int
	if r.P(0.3) {
		bs = append(bs, 0)
	}
	for left := n; left > 0; {
		var b int
		switch r.I(8) {
		case 0:
			b = 0
		case 1:
			b = 1
		case 2:
			b = pickOne(r, []int{255, 256, 257, 263, 264, 265, 511, 512, 513})
		case 3:
			b = r.IR(1, 10)
		case 4:
			b = r.IR(200, 300)
		case 5:
			b = left
		default:
			b = r.IR(1, 1000)
		}
		if b > left {
			b = left
		}
		bs = append(bs, b)
		left -= b
	}
	if r.P(0.3) {
		bs = append(bs, 0)
	}
	return bs
}

// c13Script is a render.Render3 that emits a fixed triangle list in scripted batches.
type c13Script struct {
	ts      []*sdf.Triangle3
	batches []int
}

func (s *c13Script) Render(_ sdf.SDF3, out sdf.Triangle3Writer) {
	i := 0
	for _, b := range s.batches {
		out.Write(s.ts[i : i+b])
		i += b
	}
	out.Close()
}
func (s *c13Script) Info(sdf.SDF3) string { return "c13 scripted renderer" }

//-----------------------------------------------------------------------------
// ASCII writer of the harness

// c13Num appends a decimal text whose float64 value is exactly v (shortest or 17-digit forms).
func c13Num(r *Rng, b []byte, v float64) []byte {
	switch r.I(7) {
	case 0:
		return strconv.AppendFloat(b, v, 'E', -1, 64)
	case 1:
		return strconv.AppendFloat(b, v, 'g', -1, 64)
	case 2:
		return strconv.AppendFloat(b, v, 'e', 16, 64)
	case 3:
		if a := math.Abs(v); v == 0 || (a >= 1e-5 && a < 1e9) {
			return strconv.AppendFloat(b, v, 'f', -1, 64)
		}
	case 4:
		if !math.Signbit(v) {
			b = append(b, '+')
		}
	case 5: // three-digit exponent (old MSVC printf)
		s := strconv.FormatFloat(v, 'e', -1, 64)
		if j := strings.IndexByte(s, 'e'); j >= 0 && len(s)-j == 4 {
			s = s[:j+2] + "0" + s[j+2:]
		}
		return append(b, s...)
	}
	return strconv.AppendFloat(b, v, 'e', -1, 64)
}

var c13Names = []string{"", "part", "OpenSCAD_Model", "a b c", "vertex", "1 2 3", "vertex 1 2", "facet normal", "solid", "café"}

// c13ASCII writes a well-formed ASCII STL; minSize pads the solid name (see the empty-solid pinned case).
func c13ASCII(r *Rng, ts []c13Tri, minSize int) []byte {
	eol := pickOne(r, []string{"\n", "\n", "\r\n"})
	ind := pickOne(r, []string{"", " ", "  ", "\t", "    "})
	seps := []string{" ", " ", " ", "  ", "\t", " \t "}
	name := pickOne(r, c13Names)
	if need := minSize - (len("solid \nendsolid \n") + 2*len(name)); need > 0 {
		name += strings.Repeat("x", need/2+1)
	}
	trail := ""
	if r.P(0.2) {
		trail = " "
	}
	b := make([]byte, 0, 64+280*len(ts))
	line := func(depth int, words ...string) {
		for d := 0; d < depth; d++ {
			b = append(b, ind...)
		}
		for i, w := range words {
			if i > 0 {
				b = append(b, pickOne(r, seps)...)
			}
			b = append(b, w...)
		}
	}
	nums := func(v [3]float64) {
		for k := 0; k < 3; k++ {
			b = append(b, pickOne(r, seps)...)
			b = c13Num(r, b, v[k])
		}
	}
	end := func() { b = append(append(b, trail...), eol...) }
	if name == "" {
		line(0, "solid")
	} else {
		line(0, "solid", name)
	}
	end()
	for _, t := range ts {
		n, ok := c13Normal(t)
		if !ok {
			n = [3]float64{}
		}
		line(1, "facet", "normal")
		nums(n)
		end()
		line(2, "outer", "loop")
		end()
		for v := 0; v < 3; v++ {
			line(3, "vertex")
			nums(t[v])
			end()
		}
		line(2, "endloop")
		end()
		line(1, "endfacet")
		end()
	}
	if name == "" {
		line(0, "endsolid")
	} else {
		line(0, "endsolid", name)
	}
	if r.P(0.8) {
		end()
	}
	return b
}

// c13LooksBinary: the format's size rule would read this text as a binary file.
func c13LooksBinary(b []byte) bool {
	return len(b) >= 84 && int64(len(b)) == 84+50*int64(c13GetU32(b, 80))
}

//-----------------------------------------------------------------------------
// self-test of the oracle (exit 2, never a violation)

func c13NormalBig(t c13Tri) [3]float64 {
	const prec = 2000
	f := func(x float64) *big.Float { return new(big.Float).SetPrec(prec).SetFloat64(x) }
	sub := func(a, b *big.Float) *big.Float { return new(big.Float).SetPrec(prec).Sub(a, b) }
	mul := func(a, b *big.Float) *big.Float { return new(big.Float).SetPrec(prec).Mul(a, b) }
	var e [2][3]*big.Float
	for j := 0; j < 2; j++ {
		for k := 0; k < 3; k++ {
			e[j][k] = sub(f(t[j+1][k]), f(t[0][k]))
		}
	}
	c := [3]*big.Float{
		sub(mul(e[0][1], e[1][2]), mul(e[0][2], e[1][1])),
		sub(mul(e[0][2], e[1][0]), mul(e[0][0], e[1][2])),
		sub(mul(e[0][0], e[1][1]), mul(e[0][1], e[1][0]))}
	l2 := new(big.Float).SetPrec(prec)
	for k := 0; k < 3; k++ {
		l2.Add(l2, mul(c[k], c[k]))
	}
	l := new(big.Float).SetPrec(prec).Sqrt(l2)
	var n [3]float64
	for k := 0; k < 3; k++ {
		n[k], _ = new(big.Float).SetPrec(prec).Quo(c[k], l).Float64()
	}
	return n
}

// Hand-written bytes 80.. of the STL file of c13Pinned (float32 patterns from a reference table, little endian).
// The normal of the second triangle is not a round number: its 12 bytes are left 0 here and judged by value.
const c13PinnedHex = "02000000" + // count 2
	"00000000" + "00000000" + "0000803f" + // normal (0,0,1)
	"00000000" + "00000000" + "00000000" + // (0,0,0)
	"0000803f" + "00000000" + "00000000" + // (1,0,0)
	"00000000" + "0000803f" + "00000000" + "0000" + // (0,1,0), attribute
	"00000000" + "00000000" + "00000000" + // normal, masked
	"00000000" + "00004040" + "000000bf" + // (0,3,-0.5)
	"cdcccc3d" + "00000080" + "0000803f" + // (0.1,-0,1)
	"f9021550" + "000080bf" + "00000040" + "0000" // (1e10,-1,2), attribute

var c13Pinned = []c13Tri{{{0, 0, 0}, {1, 0, 0}, {0, 1, 0}}, {{0, 3, -0.5}, {0.1, math.Copysign(0, -1), 1}, {1e10, -1, 2}}}

func c13SelfTest(c *Ctx) bool {
	bad := func(s string) bool { c.Inconclusive("C13 oracle self-test failed: " + s); return false }
	lit, err := hex.DecodeString(c13PinnedHex)
	if err != nil || len(lit) != 104 {
		return bad(fmt.Sprintf("pinned literal: %v len %d", err, len(lit)))
	}
	enc := c13Encode(c13Pinned)
	for i := 0; i < 2; i++ { // vertex + attribute bytes of the encoder vs hand-written bytes
		if !bytes.Equal(enc[84+50*i+12:84+50*i+50], lit[4+50*i+12:4+50*i+50]) || !bytes.Equal(enc[80:84], lit[:4]) {
			return bad(fmt.Sprintf("encoder differs from hand-written bytes in triangle %d: %x", i, enc[84+50*i:84+50*i+50]))
		}
	}
	var st c13Stats
	mut := append(make([]byte, 80), lit...)
	if f := c13CheckBinary(mut, c13Pinned, &st); f == nil || f.Kind != "normal" || f.Tri != 1 {
		return bad(fmt.Sprintf("checker does not reject the zero normal of triangle 1: %+v", f))
	}
	nb := c13NormalBig(c13Pinned[1])
	for k := 0; k < 3; k++ {
		c13PutF32(mut, 84+50+4*k, nb[k])
	}
	if f := c13CheckBinary(mut, c13Pinned, &st); f != nil || st.normals != 3 {
		return bad(fmt.Sprintf("checker rejects the hand-written file: %+v (normals %d)", f, st.normals))
	}
	for _, o := range []int{80, 84 + 11, 84 + 12, 84 + 47, 84 + 48, 84 + 49, 84 + 50 + 7, 84 + 50 + 30} {
		m := append([]byte{}, mut...)
		m[o] ^= 0x80
		if c13CheckBinary(m, c13Pinned, &st) == nil {
			return bad(fmt.Sprintf("checker accepts a file with byte %d flipped", o))
		}
	}
	// normal oracle vs 2000-bit arithmetic
	r := newRng(12345, "c13-selftest")
	checked := 0
	for i := 0; i < 400; i++ {
		t := c13GenList(r, 1, i%len(c13Classes))[0]
		n, ok := c13Normal(t)
		if !ok {
			continue
		}
		nb := c13NormalBig(t)
		for k := 0; k < 3; k++ {
			if !(math.Abs(n[k]-nb[k]) <= 1e-10) {
				return bad(fmt.Sprintf("normal of %v: %v vs big %v", t, n, nb))
			}
		}
		checked++
	}
	if n, ok := c13Normal(c13Pinned[0]); !ok || n != [3]float64{0, 0, 1} || checked < 150 {
		return bad(fmt.Sprintf("unit triangle normal %v ok=%v, %d normals cross-checked", n, ok, checked))
	}
	// number texts of the ASCII writer denote exactly the value
	for i := 0; i < 20000; i++ {
		v := (&c13Gen{r: r, base: 1e5}).coord(i % len(c13Classes))
		s := string(c13Num(r, nil, v))
		if p, err := strconv.ParseFloat(s, 64); err != nil || math.Float64bits(p) != math.Float64bits(v) || strings.ContainsAny(s, " \t") {
			return bad(fmt.Sprintf("number text %q does not denote %g", s, v))
		}
	}
	return true
}

//-----------------------------------------------------------------------------
// the check

// c13FilterStdout hides the library's "rendering ..." progress lines; everything else is passed on.
func c13FilterStdout() func() int {
	realOut := os.Stdout
	pr, pw, err := os.Pipe()
	if err != nil {
		return func() int { return 0 }
	}
	os.Stdout = pw
	done := make(chan int)
	go func() {
		n := 0
		sc := bufio.NewScanner(pr)
		sc.Buffer(make([]byte, 1<<16), 1<<22)
		for sc.Scan() {
			if strings.HasPrefix(sc.Text(), "rendering ") {
				n++
				continue
			}
			fmt.Fprintln(realOut, sc.Text())
		}
		io.Copy(realOut, pr)
		done <- n
	}()
	return func() int { os.Stdout = realOut; pw.Close(); n := <-done; pr.Close(); return n }
}

type c13Case struct {
	Index  int    `json:"index"`
	MaxLen int    `json:"maxlen"`
	N      int    `json:"n"`
	Class  string `json:"class"`
	Path   string `json:"path,omitempty"`
	Tri    int    `json:"triangle,omitempty"`
	Input  any    `json:"input,omitempty"`
	Pinned string `json:"pinned,omitempty"`
	Text   string `json:"text,omitempty"`
}

var c13Shape sdf.SDF3

func (k c13Case) report(c *Ctx, key, api string, f *c13Fail, ts []c13Tri) {
	k.Path, k.Tri = api, f.Tri
	if f.Tri >= 0 && f.Tri < len(ts) {
		k.Input = ts[f.Tri]
	} else if len(ts) <= 4 {
		k.Input = ts
	}
	c.Violate(key, fmt.Sprintf("%s-%s list#%d n=%d class=%s: %s", api, f.Kind, k.Index, k.N, k.Class, f.Detail), k)
}

// c13Load calls render.LoadSTL; a panic of the library on a well-formed file is reported as an error of the load.
func c13Load(path string) (m []*sdf.Triangle3, err error) {
	defer func() {
		if p := recover(); p != nil {
			err = fmt.Errorf("PANIC: %v", p)
		}
	}()
	return render.LoadSTL(path)
}

// c13RunBinary: SaveSTL bytes, LoadSTL round trip, ToSTL (streaming) bytes for one list.
func c13RunBinary(c *Ctx, k c13Case, ts []c13Tri, r *Rng, st *c13Stats) {
	lib := c13ToLib(ts)
	base := filepath.Join(scratch(), fmt.Sprintf("c13-%s%d", k.Pinned, k.Index))
	pSave, pStream := base+"-save.stl", base+"-stream.stl"
	defer os.Remove(pSave)
	defer os.Remove(pStream)
	lc, key := c13LenClass(k.N), ""
	cls := k.Class
	if k.N == 0 {
		cls = "-"
	}
	// batch writer
	if err := render.SaveSTL(pSave, lib); err != nil {
		k.report(c, key, "SaveSTL", &c13Fail{"error", err.Error(), -1}, ts)
		return
	}
	saved, err := os.ReadFile(pSave)
	if err != nil {
		k.report(c, key, "SaveSTL", &c13Fail{"nofile", err.Error(), -1}, ts)
		return
	}
	okSave := true
	if f := c13CheckBinary(saved, ts, st); f != nil {
		k.report(c, key, "SaveSTL", f, ts)
		okSave = false
	} else {
		c.Distinct("save/len=" + lc + "/" + cls)
	}
	// loader on the saved file (meaningful only if the file itself is right)
	if okSave {
		got, err := c13Load(pSave)
		if err != nil {
			k.report(c, key, "LoadSTL-binary", &c13Fail{"error", err.Error(), -1}, ts)
		} else if f := c13CheckLoaded(got, ts, true); f != nil {
			k.report(c, key, "LoadSTL-binary", f, ts)
		} else {
			c.Distinct("load/len=" + lc + "/" + cls)
			c.Count("triangles_loaded_binary_bit_exact", int64(len(ts)))
		}
		// the same file reached through symbolic links (absolute and relative target): what is loaded is the file, not the link
		if k.Index%4 == 1 {
			for li, target := range []string{pSave, filepath.Base(pSave)} {
				link := fmt.Sprintf("%s-link%d.stl", base, li)
				os.Remove(link)
				if os.Symlink(target, link) != nil {
					continue
				}
				got, err := c13Load(link)
				os.Remove(link)
				if err != nil {
					k.report(c, key, "LoadSTL-binary", &c13Fail{"error", "through a symbolic link: " + err.Error(), -1}, ts)
				} else if f := c13CheckLoaded(got, ts, true); f != nil {
					f.Detail += " [loaded through a symbolic link]"
					k.report(c, key, "LoadSTL-binary", f, ts)
				} else {
					c.Count("files_loaded_through_a_symlink", 1)
				}
			}
		}
	}
	// streaming writer through render.ToSTL and the scripted renderer
	bs := c13Batches(r, len(ts))
	render.ToSTL(c13Shape, pStream, &c13Script{lib, bs})
	streamed, err := os.ReadFile(pStream)
	if err != nil {
		k.report(c, key, "ToSTL", &c13Fail{"nofile", err.Error(), -1}, ts)
		return
	}
	f := c13CheckBinary(streamed, ts, st)
	if f == nil && okSave && !bytes.Equal(streamed, saved) {
		d := 0
		for d < len(saved) && d < len(streamed) && saved[d] == streamed[d] {
			d++
		}
		f = &c13Fail{"differs", fmt.Sprintf("streamed file differs from SaveSTL file at byte %d (sizes %d/%d), batches %v", d, len(streamed), len(saved), bs), (d - 84) / 50}
	}
	if f != nil {
		f.Detail += fmt.Sprintf(" [write batches %v]", bs)
		if len(f.Detail) > 600 {
			f.Detail = f.Detail[:600] + "..."
		}
		k.report(c, key, "ToSTL", f, ts)
	} else {
		c.Distinct("stream/len=" + lc + "/" + cls)
		c.Count("stream_batches_written", int64(len(bs)))
		c.Count("bytes_streamed_equal_to_batch", int64(len(streamed)))
	}
}

// c13RunASCII: LoadSTL on a text file produced by the harness's writer.
func c13RunASCII(c *Ctx, k c13Case, ts []c13Tri, text []byte, key string) {
	if c13LooksBinary(text) {
		c.Count("ascii_skipped_size_collision", 1)
		return
	}
	p := filepath.Join(scratch(), fmt.Sprintf("c13-%s%d-ascii.stl", k.Pinned, k.Index))
	defer os.Remove(p)
	if err := os.WriteFile(p, text, 0o644); err != nil {
		c.Inconclusive("cannot write scratch file: " + err.Error())
		return
	}
	cls := k.Class
	if k.N == 0 {
		cls = "-"
	}
	head := string(text[:min(len(text), 160)])
	if len(text) <= 400 {
		k.Text = string(text)
	}
	got, err := c13Load(p)
	if err != nil {
		k.report(c, key, "LoadSTL-ascii", &c13Fail{"error", fmt.Sprintf("error %q for a %d-byte well-formed ASCII STL listing %d triangles; file starts %q", err, len(text), len(ts), head), -1}, ts)
	} else if f := c13CheckLoaded(got, ts, false); f != nil {
		f.Detail += fmt.Sprintf("; file starts %q", head)
		k.report(c, key, "LoadSTL-ascii", f, ts)
	} else {
		c.Distinct("ascii/len=" + c13LenClass(k.N) + "/" + cls)
		c.Count("triangles_loaded_ascii_exact", int64(len(ts)))
		c.Count("bytes_ascii_parsed", int64(len(text)))
	}
}

// c13IndentSweep: well-formed ASCII files whose first line is indented (as in the shipped bottle.stl), at every file length
// modulo 50 (blank lines appended): no length may make the loader take such a file for a binary one.
func c13IndentSweep(c *Ctx) {
	nl := c.Pick(3, 30)
	for li := 0; li < nl; li++ {
		r := c.Rng("indent-sweep", li)
		ts := c13GenList(r, r.IR(1, 12), li%len(c13Classes))
		var sb strings.Builder
		sb.WriteString(pickOne(r, []string{" ", "  ", "\t", "   "}) + "solid part\n")
		for _, t := range ts {
			sb.WriteString("  facet normal 0 0 0\n    outer loop\n")
			for v := 0; v < 3; v++ {
				fmt.Fprintf(&sb, "      vertex %s %s %s\n", strconv.FormatFloat(t[v][0], 'g', -1, 64), strconv.FormatFloat(t[v][1], 'g', -1, 64), strconv.FormatFloat(t[v][2], 'g', -1, 64))
			}
			sb.WriteString("    endloop\n  endfacet\n")
		}
		sb.WriteString(" endsolid part\n")
		base := sb.String()
		for pad := 0; pad < 50; pad++ {
			text := []byte(base + strings.Repeat("\n", pad))
			k := c13Case{Index: 8000000 + li*50 + pad, N: len(ts), Class: c13Classes[li%len(c13Classes)]}
			c13RunASCII(c, k, ts, text, "")
			c.Eval(1)
		}
	}
	c.Count("indented_header_files_at_every_length_mod_50", int64(nl*50))
}

func c13RunList(c *Ctx, i, maxLen int, st *c13Stats) {
	r := c.Rng("list", i)
	cls := i % len(c13Classes)
	n := c13Len(r, i, maxLen)
	ts := c13GenList(r, n, cls)
	k := c13Case{Index: i, MaxLen: maxLen, N: n, Class: c13Classes[cls]}
	c13RunBinary(c, k, ts, r, st)
	// a different list for the text path: ASCII carries float64 values, no float32 rounding
	ta := c13GenList(r, n, cls)
	text, key := c13ASCII(r, ta, 84), ""
	if len(text) < 84 { // cannot happen with the padding; if it did it is the pinned empty-solid case
		key = c13EmptyKey
	}
	c13RunASCII(c, k, ta, text, key)
	c.Eval(3)
	c.Count("lists/class="+c13Classes[cls], 1)
	c.Count("lists/len="+c13LenClass(n), 1)
	c.Count("normals_checked/class="+c13Classes[cls], st.normals)
	if i >= 10 && i < 16 && n > 0 {
		c.Sample(map[string]any{"list": i, "n": n, "class": c13Classes[cls], "first_triangle": ts[0], "first_record_hex": hex.EncodeToString(c13Encode(ts[:1])[84:])})
	}
}

const c13EmptyKey = "ascii-empty-solid-under-84-bytes"

func c13RunPinned(c *Ctx, st *c13Stats) {
	// hand-written bytes (see c13PinnedHex): both writers must produce exactly these 104 bytes after the header
	lit, _ := hex.DecodeString(c13PinnedHex)
	k := c13Case{Index: 0, N: 2, Class: "pinned", Pinned: "pinned"}
	c13RunBinary(c, k, c13Pinned, c.Rng("pinned"), st)
	p := filepath.Join(scratch(), "c13-literal.stl")
	if err := render.SaveSTL(p, c13ToLib(c13Pinned)); err == nil {
		b, _ := os.ReadFile(p)
		if len(b) == 184 { // normals are judged by value in c13CheckBinary (a -0 component is as good as +0)
			copy(b[84:84+12], make([]byte, 12))
			copy(b[84+50:84+62], make([]byte, 12))
			copy(lit[4:4+12], make([]byte, 12))
		}
		if len(b) != 184 || !bytes.Equal(b[80:], lit) {
			k.report(c, "", "SaveSTL", &c13Fail{"literal", fmt.Sprintf("bytes 80.. are %x want %x (normals masked)", b[min(80, len(b)):], lit), 0}, c13Pinned)
		}
	}
	os.Remove(p)
	// the textbook ASCII file, CRLF variant, and empty solids (padded name => >= 84 bytes; short => 19 bytes)
	txt := "solid cube_corner\n  facet normal 0.0 -1.0 0.0\n    outer loop\n      vertex 0.0 0.0 0.0\n      vertex 1.0 0.0 0.0\n      vertex 0.0 0.0 1.0\n    endloop\n  endfacet\n" +
		"  facet normal 0.0 0.0 -1.0\n    outer loop\n      vertex 0.0 0.0 0.0\n      vertex 0.0 1.0 0.0\n      vertex 1.0 0.0 0.0\n    endloop\n  endfacet\nendsolid cube_corner\n"
	want := []c13Tri{{{0, 0, 0}, {1, 0, 0}, {0, 0, 1}}, {{0, 0, 0}, {0, 1, 0}, {1, 0, 0}}}
	c13RunASCII(c, c13Case{Index: 1, N: 2, Class: "pinned", Pinned: "pinned"}, want, []byte(txt), "")
	c13RunASCII(c, c13Case{Index: 2, N: 2, Class: "pinned", Pinned: "pinned"}, want, []byte(strings.ReplaceAll(txt, "\n", "\r\n")), "")
	c13RunASCII(c, c13Case{Index: 3, N: 0, Class: "pinned", Pinned: "pinned"}, nil, []byte("solid "+strings.Repeat("n", 40)+"\nendsolid "+strings.Repeat("n", 40)+"\n"), "")
	c13RunASCII(c, c13Case{Index: 4, N: 0, Class: "pinned", Pinned: "pinned"}, nil, []byte("solid a\nendsolid a\n"), c13EmptyKey)
	c.Eval(6)
}

func c13Setup(c *Ctx) bool {
	c.Rule("list i: coordinate class i%10 of {int, unit(float64, not float32-representable), any finite float32 bits, huge 1e30..MaxFloat32, tiny 1.2e-38..1e-30, " +
		"float32-subnormal, float32 halfway ties, small model at a far offset, +0/-0/units, mixed}; length cycles special {0,1,2,3,80..82,255..257,263..265,511..513,1024} / " +
		"log-uniform / large (max/2..max; max 5000 quick, 20000 thorough), plus 1 (quick) / 4 (thorough) lists of 65535..200000 triangles. Per list: SaveSTL file parsed byte-wise, LoadSTL of it compared bit-wise with float32(input), " +
		"ToSTL via a scripted renderer (PRNG write batches incl. empty and 255..265/511..513) compared byte-wise with the SaveSTL file, and a second list written by the harness's ASCII writer " +
		"(varied indentation/separators/CRLF/number formats/solid names) loaded and compared bit-wise. A case is non-trivial when the library produced/loaded the file and every byte/triangle was compared without finding; " +
		"distinct = (path save|load|stream|ascii, length class, coordinate class).")
	c.Assume("Go's float64->float32 conversion is IEEE round-to-nearest-even (defines 'float32 rounding'); strconv.FormatFloat(-1 / 17 digits) texts denote exactly the value (cross-checked at start-up with ParseFloat)")
	c.Assume("normals are judged only for triangles whose corner-angle sine is >= 1e-5 both before and after float32 rounding; either reading of 'the triangle' is accepted, tolerance 1e-6 absolute per component")
	if !c13SelfTest(c) {
		return false
	}
	s, err := sdf.Sphere3D(1)
	if err != nil {
		c.Inconclusive("Sphere3D: " + err.Error())
		return false
	}
	c13Shape = s
	scratch()
	return true
}

func c13Publish(c *Ctx, st *c13Stats, filtered int) {
	c.Count("bytes_binary_checked", st.bytes)
	c.Count("triangles_binary_checked", st.tris)
	c.Count("normals_checked", st.normals)
	c.Count("normals_skipped_degenerate_or_thin", st.normalsSkipped)
	c.MaxObs("normal_worst_abs_err", st.worstNormal)
	c.Obs("normal_tolerance", c13NormalTol)
	c.Obs("rendering_lines_filtered_from_stdout", filtered)
}

func checkC13(c *Ctx) {
	if !c13Setup(c) {
		return
	}
	nLists := c.Pick(2000, 30000)
	maxLen := c.Pick(5000, 20000)
	restore := c13FilterStdout()
	var total c13Stats
	c13RunPinned(c, &total)
	c13IndentSweep(c)
	nBig := c.Pick(1, len(c13BigLens))
	stats := make([]c13Stats, nLists+nBig)
	parallelFor(nLists+nBig, func(i int) {
		if i < nBig { // the long lists first, so that they overlap with the rest
			c13RunList(c, c13BigBase+i, maxLen, &stats[i])
		} else {
			c13RunList(c, i-nBig, maxLen, &stats[i])
		}
	})
	// the same kind of lists once more with the process temp directory somewhere awkward
	withTmpdirVariants(c, func(tag string) {
		extra := make([]c13Stats, 24)
		parallelFor(len(extra), func(i int) { c13RunList(c, 7000000+i, 600, &extra[i]) })
		stats = append(stats, extra...)
	})
	for i := range stats {
		s := stats[i]
		total.bytes += s.bytes
		total.tris += s.tris
		total.normals += s.normals
		total.normalsSkipped += s.normalsSkipped
		total.worstNormal = math.Max(total.worstNormal, s.worstNormal)
	}
	c13Publish(c, &total, restore())
	if total.normals < 1000 {
		c.Inconclusive(fmt.Sprintf("only %d normals were checkable", total.normals))
	}
	c.Floor(c.Pick(120, 200))
}

// replayC13 re-runs the single list (or the pinned cases) recorded in a replay file.
func replayC13(c *Ctx, path string) {
	var rp struct {
		Seed uint64  `json:"seed"`
		Case c13Case `json:"case"`
	}
	b, err := os.ReadFile(path)
	if err == nil {
		err = json.Unmarshal(b, &rp)
	}
	if err != nil {
		c.Inconclusive("replay file: " + err.Error())
		return
	}
	c.Seed = rp.Seed
	if !c13Setup(c) {
		return
	}
	restore := c13FilterStdout()
	var st c13Stats
	if rp.Case.Pinned != "" {
		c13RunPinned(c, &st)
	} else {
		c13RunList(c, rp.Case.Index, rp.Case.MaxLen, &st)
	}
	c13Publish(c, &st, restore())
}
