//go:build verif

package main

import (
	"hash/fnv"
	"math"
)

// Rng is a splitmix64 stream. Streams are derived from (VERIF_SEED, property,
// stream name, index) so case lists are a pure function of the seed and tier.
type Rng struct{ s uint64 }

func newRng(seed uint64, parts ...any) *Rng {
	h := fnv.New64a()
	for _, p := range parts {
		h.Write([]byte(toStr(p)))
		h.Write([]byte{0})
	}
	r := &Rng{s: seed*0x9E3779B97F4A7C15 ^ h.Sum64()}
	r.U64()
	return r
}

func (c *Ctx) Rng(parts ...any) *Rng { return newRng(c.Seed, append([]any{c.Prop}, parts...)...) }

func (r *Rng) U64() uint64 {
	r.s += 0x9E3779B97F4A7C15
	z := r.s
	z = (z ^ (z >> 30)) * 0xBF58476D1CE4E5B9
	z = (z ^ (z >> 27)) * 0x94D049BB133111EB
	return z ^ (z >> 31)
}

func (r *Rng) State() uint64 { return r.s }

// F returns a float in [0,1).
func (r *Rng) F() float64 { return float64(r.U64()>>11) / (1 << 53) }

// R returns a float in [a,b).
func (r *Rng) R(a, b float64) float64 { return a + (b-a)*r.F() }

// I returns an int in [0,n).
func (r *Rng) I(n int) int {
	if n <= 0 {
		return 0
	}
	return int(r.U64() % uint64(n))
}

// IR returns an int in [a,b].
func (r *Rng) IR(a, b int) int { return a + r.I(b-a+1) }

func (r *Rng) Bool() bool { return r.U64()&1 == 1 }

// P returns true with probability p.
func (r *Rng) P(p float64) bool { return r.F() < p }

// LogR returns a log-uniform value in [a,b], a,b>0.
func (r *Rng) LogR(a, b float64) float64 { return math.Exp(r.R(math.Log(a), math.Log(b))) }

// N returns a standard normal value.
func (r *Rng) N() float64 {
	u1 := r.F()
	if u1 < 1e-300 {
		u1 = 1e-300
	}
	return math.Sqrt(-2*math.Log(u1)) * math.Cos(2*math.Pi*r.F())
}

// Sign returns +1 or -1.
func (r *Rng) Sign() float64 {
	if r.Bool() {
		return 1
	}
	return -1
}

func (r *Rng) Perm(n int) []int {
	p := make([]int, n)
	for i := range p {
		p[i] = i
	}
	for i := n - 1; i > 0; i-- {
		j := r.I(i + 1)
		p[i], p[j] = p[j], p[i]
	}
	return p
}

func pickOne[T any](r *Rng, xs []T) T { return xs[r.I(len(xs))] }
