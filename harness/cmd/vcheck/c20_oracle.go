//go:build verif

// C20 oracles: exact orientation / in-circle predicates (float filter, math/big
// fallback on the exact rational value of the float64 inputs), convex hull,
// a gift-wrapping Delaunay reference used only to measure the general-position
// margin of a set, and the start-up self-test of all of them.
package main

import (
	"fmt"
	"math"
	"math/big"
	"sort"

	v2 "github.com/deadsy/sdfx/vec/v2"
)

func c20Rat(x float64) *big.Rat { return new(big.Rat).SetFloat64(x) }

func c20RatF(d *big.Rat) float64 {
	f, _ := d.Float64()
	if f == 0 && d.Sign() != 0 {
		f = float64(d.Sign()) * math.SmallestNonzeroFloat64
	}
	return f
}

func c20Sub(a, b float64) *big.Rat  { return new(big.Rat).Sub(c20Rat(a), c20Rat(b)) }
func c20Mul(a, b *big.Rat) *big.Rat { return new(big.Rat).Mul(a, b) }

// c20OrientExact: exact 2*signed area of abc (rounded once at the end).
func c20OrientExact(a, b, c v2.Vec) float64 {
	d := c20Mul(c20Sub(a.X, c.X), c20Sub(b.Y, c.Y))
	d.Sub(d, c20Mul(c20Sub(a.Y, c.Y), c20Sub(b.X, c.X)))
	return c20RatF(d)
}

// c20Orient returns 2*signed area of abc (>0 counter-clockwise) with a certified sign.
func c20Orient(a, b, c v2.Vec) float64 {
	l := (a.X - c.X) * (b.Y - c.Y)
	r := (a.Y - c.Y) * (b.X - c.X)
	det := l - r
	if math.Abs(det) > 1e-15*(math.Abs(l)+math.Abs(r)) { // Shewchuk's bound is 3.4e-16
		return det
	}
	return c20OrientExact(a, b, c)
}

// c20InCircleExact: exact in-circle determinant of (a,b,c;d).
func c20InCircleExact(a, b, c, d v2.Vec) float64 {
	ax, ay := c20Sub(a.X, d.X), c20Sub(a.Y, d.Y)
	bx, by := c20Sub(b.X, d.X), c20Sub(b.Y, d.Y)
	cx, cy := c20Sub(c.X, d.X), c20Sub(c.Y, d.Y)
	al := new(big.Rat).Add(c20Mul(ax, ax), c20Mul(ay, ay))
	bl := new(big.Rat).Add(c20Mul(bx, bx), c20Mul(by, by))
	cl := new(big.Rat).Add(c20Mul(cx, cx), c20Mul(cy, cy))
	det := c20Mul(al, new(big.Rat).Sub(c20Mul(bx, cy), c20Mul(by, cx)))
	det.Add(det, c20Mul(bl, new(big.Rat).Sub(c20Mul(cx, ay), c20Mul(cy, ax))))
	det.Add(det, c20Mul(cl, new(big.Rat).Sub(c20Mul(ax, by), c20Mul(ay, bx))))
	return c20RatF(det)
}

var c20ExactCalls int64 // statistics only (racy increments are avoided: counted per case)

// c20InCircle: >0 iff d is strictly inside the circle through a,b,c when abc is
// counter-clockwise (sign flips with the orientation of abc). Certified sign.
func c20InCircle(a, b, c, d v2.Vec) float64 {
	adx, ady := a.X-d.X, a.Y-d.Y
	bdx, bdy := b.X-d.X, b.Y-d.Y
	cdx, cdy := c.X-d.X, c.Y-d.Y
	al, bl, cl := adx*adx+ady*ady, bdx*bdx+bdy*bdy, cdx*cdx+cdy*cdy
	det := al*(bdx*cdy-bdy*cdx) + bl*(cdx*ady-cdy*adx) + cl*(adx*bdy-ady*bdx)
	perm := al*(math.Abs(bdx*cdy)+math.Abs(bdy*cdx)) + bl*(math.Abs(cdx*ady)+math.Abs(cdy*adx)) + cl*(math.Abs(adx*bdy)+math.Abs(ady*bdx))
	if math.Abs(det) > 4e-15*perm { // Shewchuk's bound is 1.2e-15
		return det
	}
	return c20InCircleExact(a, b, c, d)
}

// c20Hull: Andrew monotone chain with the exact orientation predicate. Returns the
// hull VERTICES counter-clockwise and whether some input point lies exactly on a hull
// edge without being a vertex (such a set is not in general position).
func c20Hull(p []v2.Vec) (hull []int, collinear bool) {
	n := len(p)
	idx := make([]int, n)
	for i := range idx {
		idx[i] = i
	}
	sort.Slice(idx, func(i, j int) bool {
		a, b := p[idx[i]], p[idx[j]]
		if a.X != b.X {
			return a.X < b.X
		}
		return a.Y < b.Y
	})
	build := func(order []int) []int {
		var h []int
		for _, i := range order {
			for len(h) >= 2 && c20Orient(p[h[len(h)-2]], p[h[len(h)-1]], p[i]) <= 0 {
				h = h[:len(h)-1]
			}
			h = append(h, i)
		}
		return h
	}
	lo := build(idx)
	rev := make([]int, n)
	for i := range idx {
		rev[i] = idx[n-1-i]
	}
	up := build(rev)
	hull = append(lo[:len(lo)-1:len(lo)-1], up[:len(up)-1]...)
	on := map[int]bool{}
	for _, i := range hull {
		on[i] = true
	}
	for k := range hull {
		a, b := p[hull[k]], p[hull[(k+1)%len(hull)]]
		for i := range p {
			if !on[i] && c20Orient(a, b, p[i]) == 0 {
				return hull, true
			}
		}
	}
	return hull, false
}

// c20HullArea: area of the hull polygon (coordinates taken relative to the first vertex).
func c20HullArea(p []v2.Vec, hull []int) float64 {
	o := p[hull[0]]
	s := 0.0
	for k := 1; k+1 < len(hull); k++ {
		a, b := p[hull[k]].Sub(o), p[hull[k+1]].Sub(o)
		s += a.X*b.Y - a.Y*b.X
	}
	return 0.5 * s
}

// c20OwnDT: gift-wrapping Delaunay triangulation with the exact predicates, O(n^2).
// Only used to measure how robustly unique the true triangulation of a set is.
func c20OwnDT(p []v2.Vec, hull []int) [][3]int {
	done := map[[2]int]bool{}
	stack := [][2]int{{hull[0], hull[1]}}
	var out [][3]int
	for len(stack) > 0 {
		e := stack[len(stack)-1]
		stack = stack[:len(stack)-1]
		if done[e] {
			continue
		}
		a, b := e[0], e[1]
		best := -1
		for k := range p {
			if k == a || k == b || c20Orient(p[a], p[b], p[k]) <= 0 {
				continue
			}
			if best < 0 || c20InCircle(p[a], p[b], p[best], p[k]) > 0 {
				best = k
			}
		}
		if best < 0 {
			continue // hull edge seen from outside
		}
		out = append(out, [3]int{a, b, best})
		done[[2]int{a, b}], done[[2]int{b, best}], done[[2]int{best, a}] = true, true, true
		stack = append(stack, [2]int{best, b}, [2]int{a, best})
		if len(out) > 4*len(p) {
			return nil // cannot happen for a set in general position
		}
	}
	return out
}

// c20Margin describes how far a triangulation is from violating / nearly violating
// the empty-circle condition.
type c20Margin struct {
	Mu      float64 // min over (triangle, other point) of |dist(p,circle)| / min(R, extent)
	MinPow  float64 // min over the same pairs of | |p-o|^2 - R^2 | (absolute)
	RMax    float64 // max circumradius / extent
	RMinAbs float64 // min circumradius (absolute units)
	Depth   float64 // max relative depth of a point strictly inside a circumcircle (0 if none)
	WT, WP  int     // worst (deepest) triangle index / point index
}

// c20Circles evaluates the empty-circle condition of tris over all points.
// Every triangle must be non-degenerate (caller checks).
func c20Circles(p []v2.Vec, tris [][3]int, ext float64) c20Margin {
	m := c20Margin{Mu: math.Inf(1), MinPow: math.Inf(1), RMinAbs: math.Inf(1), WT: -1, WP: -1}
	for ti, t := range tris {
		a, b, c := p[t[0]], p[t[1]], p[t[2]]
		or := c20Orient(a, b, c)
		r := a.Sub(b).Length() * b.Sub(c).Length() * c.Sub(a).Length() / (2 * math.Abs(or))
		norm := 2 * r * math.Min(r, ext)
		m.RMax = math.Max(m.RMax, r/ext)
		m.RMinAbs = math.Min(m.RMinAbs, r)
		for i := range p {
			if i == t[0] || i == t[1] || i == t[2] {
				continue
			}
			pow := -c20InCircle(a, b, c, p[i]) / or
			ap := math.Abs(pow)
			if ap < m.MinPow {
				m.MinPow = ap
			}
			if ap/norm < m.Mu {
				m.Mu = ap / norm
			}
			if pow < 0 && ap/norm > m.Depth {
				m.Depth, m.WT, m.WP = ap/norm, ti, i
			}
		}
	}
	return m
}

// c20Canon: the harness's own canonical form of a triangle set: each triple rotated
// (cyclic order kept) so that its smallest index comes first, then sorted.
func c20Canon(ts [][3]int) [][3]int {
	out := make([][3]int, len(ts))
	for i, t := range ts {
		k := 0
		if t[1] < t[k] {
			k = 1
		}
		if t[2] < t[k] {
			k = 2
		}
		out[i] = [3]int{t[k], t[(k+1)%3], t[(k+2)%3]}
	}
	sort.Slice(out, func(i, j int) bool {
		for k := 0; k < 3; k++ {
			if out[i][k] != out[j][k] {
				return out[i][k] < out[j][k]
			}
		}
		return false
	})
	return out
}

func c20SameSet(a, b [][3]int) bool {
	if len(a) != len(b) {
		return false
	}
	ca, cb := c20Canon(a), c20Canon(b)
	for i := range ca {
		if ca[i] != cb[i] {
			return false
		}
	}
	return true
}

// c20SelfTest validates the oracles against dumber methods. Returns "" if sound.
func c20SelfTest() string {
	r := newRng(12345, "C20-selftest")
	// 1. filtered predicates == always-exact predicates; in-circle == comparison of exact
	// squared distances to the exact rational circumcentre.
	for i := 0; i < 3000; i++ {
		var q [4]v2.Vec
		mode := i % 4
		for k := range q {
			switch mode {
			case 0:
				q[k] = v2.Vec{X: r.R(-1, 1), Y: r.R(-1, 1)}
			case 1: // lattice points: many exactly cocircular / collinear
				q[k] = v2.Vec{X: float64(r.IR(-3, 3)), Y: float64(r.IR(-3, 3))}
			case 2: // lattice + 1 ulp noise, far from the origin
				q[k] = v2.Vec{X: 1e6 + float64(r.IR(-3, 3)), Y: -3e5 + float64(r.IR(-3, 3))}
				if r.Bool() {
					q[k].X = math.Nextafter(q[k].X, 2e6)
				}
			default: // nearly cocircular
				a := r.R(0, 2*math.Pi)
				q[k] = v2.Vec{X: 5 + math.Cos(a)*(1+r.R(-1e-15, 1e-15)), Y: 7 + math.Sin(a)}
			}
		}
		sgn := func(x float64) int {
			if x > 0 {
				return 1
			} else if x < 0 {
				return -1
			}
			return 0
		}
		o, oe := c20Orient(q[0], q[1], q[2]), c20OrientExact(q[0], q[1], q[2])
		if sgn(o) != sgn(oe) {
			return fmt.Sprintf("orient filter disagrees with exact on %v", q)
		}
		ic, ice := c20InCircle(q[0], q[1], q[2], q[3]), c20InCircleExact(q[0], q[1], q[2], q[3])
		if sgn(ic) != sgn(ice) {
			return fmt.Sprintf("incircle filter disagrees with exact on %v", q)
		}
		if oe == 0 {
			continue
		}
		// circumcentre by exact rational arithmetic (perpendicular bisector equations)
		bx, by := c20Sub(q[1].X, q[0].X), c20Sub(q[1].Y, q[0].Y)
		cx, cy := c20Sub(q[2].X, q[0].X), c20Sub(q[2].Y, q[0].Y)
		bb := new(big.Rat).Add(c20Mul(bx, bx), c20Mul(by, by))
		cc := new(big.Rat).Add(c20Mul(cx, cx), c20Mul(cy, cy))
		d := new(big.Rat).Sub(c20Mul(bx, cy), c20Mul(by, cx))
		d.Mul(d, big.NewRat(2, 1))
		ux := new(big.Rat).Quo(new(big.Rat).Sub(c20Mul(cy, bb), c20Mul(by, cc)), d)
		uy := new(big.Rat).Quo(new(big.Rat).Sub(c20Mul(bx, cc), c20Mul(cx, bb)), d)
		r2 := new(big.Rat).Add(c20Mul(ux, ux), c20Mul(uy, uy))
		px := new(big.Rat).Sub(c20Sub(q[3].X, q[0].X), ux)
		py := new(big.Rat).Sub(c20Sub(q[3].Y, q[0].Y), uy)
		d2 := new(big.Rat).Add(c20Mul(px, px), c20Mul(py, py))
		wantInside := d2.Cmp(r2) // -1 inside, 0 on, +1 outside
		if sgn(ic)*sgn(oe) != -wantInside {
			return fmt.Sprintf("incircle sign %g (orient %g) disagrees with exact centre distance test (%d) on %v", ic, oe, wantInside, q)
		}
	}
	// 2. hull and own triangulation against brute force on small sets.
	for i := 0; i < 60; i++ {
		n := 4 + i%7
		p := make([]v2.Vec, n)
		for k := range p {
			p[k] = v2.Vec{X: r.R(-1, 1) + 3, Y: r.R(-1, 1) - 2}
		}
		hull, col := c20Hull(p)
		if col {
			continue
		}
		// brute force hull vertex: some other point q with all remaining points strictly on one side of pq
		cnt := 0
		for a := range p {
			isV := false
			for b := range p {
				if a == b {
					continue
				}
				pos, neg := 0, 0
				for k := range p {
					if k == a || k == b {
						continue
					}
					if c20OrientExact(p[a], p[b], p[k]) > 0 {
						pos++
					} else {
						neg++
					}
				}
				if pos == 0 || neg == 0 {
					isV = true
				}
			}
			if isV {
				cnt++
			}
		}
		if cnt != len(hull) {
			return fmt.Sprintf("hull: %d vertices, brute force %d on %v", len(hull), cnt, p)
		}
		if c20HullArea(p, hull) <= 0 {
			return "hull not counter-clockwise"
		}
		var brute [][3]int
		for a := 0; a < n; a++ {
			for b := a + 1; b < n; b++ {
				for c := b + 1; c < n; c++ {
					t := [3]int{a, b, c}
					o := c20OrientExact(p[a], p[b], p[c])
					if o == 0 {
						continue
					}
					if o < 0 {
						t[1], t[2] = t[2], t[1]
					}
					empty := true
					for k := range p {
						if k != a && k != b && k != c && c20InCircleExact(p[t[0]], p[t[1]], p[t[2]], p[k]) >= 0 {
							empty = false
						}
					}
					if empty {
						brute = append(brute, t)
					}
				}
			}
		}
		own := c20OwnDT(p, hull)
		if !c20SameSet(own, brute) {
			return fmt.Sprintf("own Delaunay %v != brute force %v on %v", c20Canon(own), c20Canon(brute), p)
		}
		if len(own) != 2*n-2-len(hull) {
			return "own Delaunay count != 2n-2-h"
		}
		if m := c20Circles(p, own, 2); m.Depth != 0 || m.Mu <= 0 {
			return "own Delaunay has a non-empty circumcircle"
		}
	}
	// 3. canonicalisation keeps the cyclic order
	if !c20SameSet([][3]int{{5, 1, 3}, {0, 2, 4}}, [][3]int{{4, 0, 2}, {1, 3, 5}}) || c20SameSet([][3]int{{5, 1, 3}}, [][3]int{{1, 5, 3}}) {
		return "own canonical form broken"
	}
	return ""
}
