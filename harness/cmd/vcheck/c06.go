//go:build verif

// C06 - mesh vertices lie on the surface; the mesh is complete and accurate.
package main

import (
	"fmt"
	"math"

	"github.com/deadsy/sdfx/render"
	"github.com/deadsy/sdfx/sdf"
	v3 "github.com/deadsy/sdfx/vec/v3"
)

func init() { checks["C06"] = checkC06 }

type c06Shape struct {
	s       sdf.SDF3
	desc    string
	kind    string  // plane, sphere, rbox, box, cyl, cone, csg
	smooth  bool    // gradient continuous near the surface
	exact   bool    // Euclidean distance field
	radius  float64 // sphere
	center  v3.Vec
	volume  float64 // analytic volume if known (>0)
	surface func(r *Rng) (v3.Vec, bool)
}

func c06MakeShape(r *Rng, i int) c06Shape {
	scale := r.LogR(0.2, 50)
	ofs := v3.Vec{X: r.R(-2, 2) * scale, Y: r.R(-2, 2) * scale, Z: r.R(-2, 2) * scale}
	if r.P(0.3) {
		ofs = v3.Vec{} // lattice-symmetric placement
	}
	rot := sdf.Identity3d()
	rotDesc := ""
	if r.P(0.5) {
		ax := v3.Vec{X: r.N(), Y: r.N(), Z: r.N()}.Normalize()
		a := r.R(0, 2*math.Pi)
		rot = sdf.Rotate3d(ax, a)
		rotDesc = fmt.Sprintf(" rot(%.3g about %.3g,%.3g,%.3g)", a, ax.X, ax.Y, ax.Z)
	}
	m := sdf.Translate3d(ofs).Mul(rot)
	var sh c06Shape
	switch i % 7 {
	case 0: // plane through an anisotropic box (open at the box boundary; only vertex accuracy is judged)
		n := v3.Vec{X: r.N(), Y: r.N(), Z: r.N()}.Normalize()
		if r.P(0.3) {
			n = [3]v3.Vec{{X: 1}, {Y: 1}, {Z: 1}}[r.I(3)]
		}
		half := v3.Vec{X: scale * r.R(0.5, 2), Y: scale * r.R(0.5, 2), Z: scale * r.R(0.5, 2)}
		d := n.Dot(ofs) + r.R(-0.3, 0.3)*half.MinComponent()
		bb := sdf.Box3{Min: ofs.Sub(half), Max: ofs.Add(half)}
		sh = c06Shape{s: &fieldSDF3{bb: bb, fn: func(p v3.Vec) float64 { return n.Dot(p) - d }}, kind: "plane", smooth: true, exact: true,
			desc: fmt.Sprintf("plane n=(%.4g,%.4g,%.4g) d=%.6g in box half=(%.3g,%.3g,%.3g)", n.X, n.Y, n.Z, d, half.X, half.Y, half.Z)}
		return sh
	case 1, 2:
		rad := scale * r.R(0.5, 2)
		s, _ := sdf.Sphere3D(rad)
		sh = c06Shape{s: sdf.Transform3D(s, sdf.Translate3d(ofs)), kind: "sphere", smooth: true, exact: true, radius: rad, center: ofs,
			volume: 4.0 / 3 * math.Pi * rad * rad * rad, desc: fmt.Sprintf("sphere(%.6g)", rad)}
		sh.surface = func(r *Rng) (v3.Vec, bool) {
			return ofs.Add(v3.Vec{X: r.N(), Y: r.N(), Z: r.N()}.Normalize().MulScalar(rad)), true
		}
		sh.desc += fmt.Sprintf(" at (%.4g,%.4g,%.4g)", ofs.X, ofs.Y, ofs.Z)
		return sh
	case 3:
		sz := v3.Vec{X: scale * r.R(1, 3), Y: scale * r.R(1, 3), Z: scale * r.R(1, 3)}
		rd := 0.5 * sz.MinComponent() * r.R(0.3, 1)
		s, _ := sdf.Box3D(sz, rd)
		sh = c06Shape{s: sdf.Transform3D(s, m), kind: "rbox", smooth: true, exact: true, desc: fmt.Sprintf("rbox(%.4g,%.4g,%.4g;r=%.4g)", sz.X, sz.Y, sz.Z, rd)}
	case 4:
		sz := v3.Vec{X: scale * r.R(0.5, 3), Y: scale * r.R(0.5, 3), Z: scale * r.R(0.5, 3)}
		s, _ := sdf.Box3D(sz, 0)
		sh = c06Shape{s: sdf.Transform3D(s, m), kind: "box", exact: true, volume: sz.X * sz.Y * sz.Z, desc: fmt.Sprintf("box(%.4g,%.4g,%.4g)", sz.X, sz.Y, sz.Z)}
	case 5:
		h, rad := scale*r.R(0.5, 3), scale*r.R(0.4, 1.5)
		rd := 0.0
		if r.Bool() {
			rd = math.Min(rad, h/2) * r.R(0.2, 0.9)
		}
		s, _ := sdf.Cylinder3D(h, rad, rd)
		sh = c06Shape{s: sdf.Transform3D(s, m), kind: "cyl", exact: true, desc: fmt.Sprintf("cylinder(h=%.4g,r=%.4g,round=%.4g)", h, rad, rd)}
		if rd == 0 {
			sh.volume = math.Pi * rad * rad * h
		}
	default:
		a, _ := sdf.Sphere3D(scale)
		b, _ := sdf.Box3D(v3.Vec{X: scale * r.R(0.8, 1.6), Y: scale * r.R(0.8, 1.6), Z: scale * r.R(0.8, 1.6)}, 0)
		b = sdf.Transform3D(b, sdf.Translate3d(v3.Vec{X: scale * r.R(0.3, 1), Y: scale * r.R(-0.5, 0.5), Z: scale * r.R(-0.5, 0.5)}))
		var s sdf.SDF3
		if r.Bool() {
			s = sdf.Union3D(a, b)
			sh.desc = "union(sphere,box)"
		} else {
			s = sdf.Difference3D(a, b)
			sh.desc = "difference(sphere,box)"
		}
		sh.s, sh.kind = sdf.Transform3D(s, m), "csg"
	}
	sh.desc += rotDesc + fmt.Sprintf(" at (%.4g,%.4g,%.4g)", ofs.X, ofs.Y, ofs.Z)
	return sh
}

// surfaceByRay finds a surface point by bisection along a ray from an inside point.
func surfaceByRay(s sdf.SDF3, r *Rng) (v3.Vec, bool) {
	bb := s.BoundingBox()
	var in v3.Vec
	found := false
	for k := 0; k < 50; k++ {
		p := v3.Vec{X: r.R(bb.Min.X, bb.Max.X), Y: r.R(bb.Min.Y, bb.Max.Y), Z: r.R(bb.Min.Z, bb.Max.Z)}
		if s.Evaluate(p) < 0 {
			in, found = p, true
			break
		}
	}
	if !found {
		return v3.Vec{}, false
	}
	d := v3.Vec{X: r.N(), Y: r.N(), Z: r.N()}.Normalize()
	L := bb.Size().Length()
	out := in.Add(d.MulScalar(L))
	if s.Evaluate(out) <= 0 {
		return v3.Vec{}, false
	}
	a, b := in, out // f(a)<0<f(b); first crossing not guaranteed, any crossing is a surface point
	for k := 0; k < 60; k++ {
		mid := a.Add(b).MulScalar(0.5)
		if s.Evaluate(mid) < 0 {
			a = mid
		} else {
			b = mid
		}
	}
	return a.Add(b).MulScalar(0.5), true
}

func gradient3(s sdf.SDF3, p v3.Vec, eps float64) v3.Vec {
	return v3.Vec{
		X: s.Evaluate(p.Add(v3.Vec{X: eps})) - s.Evaluate(p.Sub(v3.Vec{X: eps})),
		Y: s.Evaluate(p.Add(v3.Vec{Y: eps})) - s.Evaluate(p.Sub(v3.Vec{Y: eps})),
		Z: s.Evaluate(p.Add(v3.Vec{Z: eps})) - s.Evaluate(p.Sub(v3.Vec{Z: eps})),
	}.DivScalar(2 * eps)
}

// triGrid is a uniform hash grid over triangles for nearest-distance queries up to `cell`.
type triGrid struct {
	cell float64
	m    map[cell3][]*sdf.Triangle3
}

func newTriGrid(ts []*sdf.Triangle3, cell float64) *triGrid {
	g := &triGrid{cell: cell, m: map[cell3][]*sdf.Triangle3{}}
	for _, t := range ts {
		bb := t.BoundingBox()
		lo, hi := g.key(bb.Min), g.key(bb.Max)
		for x := lo.x; x <= hi.x; x++ {
			for y := lo.y; y <= hi.y; y++ {
				for z := lo.z; z <= hi.z; z++ {
					k := cell3{x, y, z}
					g.m[k] = append(g.m[k], t)
				}
			}
		}
	}
	return g
}
func (g *triGrid) key(p v3.Vec) cell3 {
	return cell3{int64(math.Floor(p.X / g.cell)), int64(math.Floor(p.Y / g.cell)), int64(math.Floor(p.Z / g.cell))}
}

// dist returns the distance from p to the mesh if it is <= g.cell*reach, else +Inf.
func (g *triGrid) dist(p v3.Vec, reach int64) float64 {
	k := g.key(p)
	best := math.Inf(1)
	for x := -reach; x <= reach; x++ {
		for y := -reach; y <= reach; y++ {
			for z := -reach; z <= reach; z++ {
				for _, t := range g.m[cell3{k.x + x, k.y + y, k.z + z}] {
					if d := pointTriangleDist(p, t); d < best {
						best = d
					}
				}
			}
		}
	}
	return best
}

type c06Case struct {
	Index    int    `json:"index"`
	Renderer string `json:"renderer"`
	Cells    int    `json:"mesh_cells"`
	Shape    string `json:"shape"`
}

func checkC06(c *Ctx) {
	c.Rule("analytic shapes (planes at arbitrary orientation/offset, spheres, rounded and sharp boxes, cylinders, unions/differences; " +
		"translated/rotated, lattice-symmetric and irrational placements) x resolutions x both marching-cubes renderers, each rendered " +
		"through a recording wrapper; every output vertex is matched offline against the recorded (point,value) log. " +
		"Non-trivial = >= 100 vertices matched against the log; distinct = (shape, renderer, cells).")
	c.Assume("h = largest cell edge of the learned lattice; 'resolvable' surface point = the field is <= -d at p - d*n and >= d at p + d*n for d = one cell diagonal")
	n := c.Pick(140, 1000)
	maxCells := c.Pick(40, 120)
	gate := newGate(12_000_000) // sum of sampled nodes in flight (each recorded sample costs ~150 bytes)
	parallelFor(n, func(i int) {
		r := c.Rng("case", i)
		rk := mcRenderers[(i/7)%2]
		cells := r.IR(6, maxCells)
		if i%5 == 0 {
			cells = r.IR(6, 14)
		}
		if i%6 == 1 { // resolutions where the octree has no slack: powers of two and their neighbours
			cells = pickOne(r, []int{8, 16, 32, 64, 7, 9, 15, 17, 31, 33, 63})
			if !c.Quick && r.P(0.06) {
				cells = pickOne(r, []int{127, 128, 129})
			}
		} else if rk.name == "octree" && cells > 120 {
			cells = 120 // the octree works on the next power of two above 1.01 x cells: 127.. cells cost 256^3 samples each
		}
		w := int64(cells) * int64(cells) * int64(cells)
		if rk.name == "octree" {
			w = octreeNodes(cells)
		}
		defer gate.enter(w)()
		sh := c06MakeShape(r, i)
		cs := c06Case{i, rk.name, cells, sh.desc}
		rd := rk.mk(cells)
		lat, err := learnLattice3(rd, sh.s.BoundingBox())
		if err != nil {
			c.Inconclusive("learn: " + err.Error())
			return
		}
		if f, ok := sh.s.(*fieldSDF3); ok && sh.kind == "plane" && i%14 == 0 {
			// a plane lying exactly in a lattice plane: every node on it evaluates to exactly 0
			axis := r.I(3)
			coords := [3][]float64{lat.xs, lat.ys, lat.zs}[axis]
			k := r.IR(2, (len(coords)-1)/lat.stride-2) * lat.stride
			d := coords[k]
			sgn := r.Sign()
			f.fn = func(p v3.Vec) float64 { return sgn * (p.Get(axis) - d) }
			sh.desc = fmt.Sprintf("plane through the lattice plane axis %d = %.17g (sign %+g)", axis, d, sgn)
			cs.Shape = sh.desc
		}
		rec := &recSDF3{s: sh.s}
		ts := render.ToTriangles(rec, rd)
		c.Eval(1)
		if len(ts) == 0 {
			c.Violate("", fmt.Sprintf("mc-empty %s cells=%d %s: no triangles for a shape whose surface is inside the sampled box", rk.name, cells, sh.desc), cs)
			return
		}
		vals := rec.valueMap()
		val := func(a, b, e int) (float64, bool) { v, ok := vals[lat.corner(a, b, e)]; return v, ok }
		cs3 := lat.cellSize()
		h := cs3.MaxComponent()
		diag := cs3.Length()
		bbScale := sh.s.BoundingBox().Size().MaxComponent()
		// sampled box = hull of the recorded points
		lo := v3.Vec{X: lat.xs[0], Y: lat.ys[0], Z: lat.zs[0]}
		hi := v3.Vec{X: lat.xs[len(lat.xs)-1], Y: lat.ys[len(lat.ys)-1], Z: lat.zs[len(lat.zs)-1]}
		bad, outside, nverts := 0, 0, 0
		var why string
		var first v3.Vec
		worstF := 0.0
		for _, t := range ts {
			for k := 0; k < 3; k++ {
				v := t[k]
				nverts++
				ok, w := explain3(lat, val, v.X, v.Y, v.Z)
				if !ok {
					if bad == 0 {
						why, first = w, v
					}
					bad++
				}
				tol := 1e-9 * bbScale
				if v.X < lo.X-tol || v.Y < lo.Y-tol || v.Z < lo.Z-tol || v.X > hi.X+tol || v.Y > hi.Y+tol || v.Z > hi.Z+tol {
					outside++
				}
				if f := math.Abs(sh.s.Evaluate(v)); f > worstF {
					worstF = f
				}
			}
		}
		c.Count("vertices_matched_against_event_log", int64(nverts))
		if nverts >= 100 {
			c.Distinct(fmt.Sprintf("%s/%s/%d", sh.desc, rk.name, cells))
		}
		if i < 4 {
			c.Sample(cs)
		}
		if bad > 0 {
			c.Violate("", fmt.Sprintf("mc-crossing %s cells=%d %s: %d of %d vertices are not the linear zero crossing of a straddling lattice edge (first %v: %s)",
				rk.name, cells, sh.desc, bad, nverts, first, why), cs)
		}
		if outside > 0 {
			c.Violate("", fmt.Sprintf("mc-outside-box %s cells=%d %s: %d vertices outside the sampled box", rk.name, cells, sh.desc, outside), cs)
		}
		switch sh.kind {
		case "plane":
			c.MaxObs("plane_worst_abs_f_rel", worstF/bbScale)
			if worstF > 1e-9*bbScale {
				c.Violate("", fmt.Sprintf("mc-plane %s cells=%d %s: |f(v)|=%g at a vertex of a planar surface", rk.name, cells, sh.desc, worstF), cs)
			}
		case "sphere":
			if sh.radius > 2*h {
				bound := h * h / (8 * (sh.radius - h))
				c.MaxObs("sphere_worst_f_over_bound", worstF/bound)
				if worstF > bound*(1+1e-6)+1e-12*sh.radius {
					c.Violate("", fmt.Sprintf("mc-sphere %s cells=%d %s: |f(v)|=%g exceeds h^2/(8(R-h))=%g (h=%g)", rk.name, cells, sh.desc, worstF, bound, h), cs)
				}
			}
		}
		if sh.exact {
			c.MaxObs("exact_worst_f_over_h", worstF/h)
			if worstF > h*(1+1e-9) {
				c.Violate("", fmt.Sprintf("mc-exact %s cells=%d %s: |f(v)|=%g exceeds the cell edge %g", rk.name, cells, sh.desc, worstF, h), cs)
			}
		}
		if sh.kind == "plane" {
			return // open at the box boundary: global checks do not apply
		}
		// mesh -> surface: random points on triangles are within one cell diagonal of the surface
		rs := c.Rng("pts", i)
		if sh.exact {
			worst := 0.0
			for q := 0; q < 600; q++ {
				t := ts[rs.I(len(ts))]
				u, w := rs.F(), rs.F()
				if u+w > 1 {
					u, w = 1-u, 1-w
				}
				p := t[0].Add(t[1].Sub(t[0]).MulScalar(u)).Add(t[2].Sub(t[0]).MulScalar(w))
				if f := math.Abs(sh.s.Evaluate(p)); f > worst {
					worst = f
				}
			}
			c.MaxObs("mesh_to_surface_over_diag", worst/diag)
			if worst > diag {
				c.Violate("", fmt.Sprintf("mc-far-from-surface %s cells=%d %s: mesh point %g from the surface, cell diagonal %g", rk.name, cells, sh.desc, worst, diag), cs)
			}
		}
		// surface -> mesh: resolvable surface points are within one cell diagonal of the mesh
		if sh.exact {
			grid := newTriGrid(ts, diag)
			checked, worst := 0, 0.0
			for q := 0; q < 400; q++ {
				var p v3.Vec
				var ok bool
				if sh.surface != nil {
					p, ok = sh.surface(rs)
				} else {
					p, ok = surfaceByRay(sh.s, rs)
				}
				if !ok {
					continue
				}
				g := gradient3(sh.s, p, 1e-5*h)
				if gl := g.Length(); gl < 0.5 {
					continue
				}
				nrm := g.Normalize()
				if sh.s.Evaluate(p.Sub(nrm.MulScalar(diag))) > -diag*(1-1e-6) || sh.s.Evaluate(p.Add(nrm.MulScalar(diag))) < diag*(1-1e-6) {
					continue // not resolvable: a ball of one diagonal does not fit on both sides
				}
				checked++
				d := grid.dist(p, 2)
				if d > worst {
					worst = d
				}
			}
			c.Count("resolvable_surface_points_checked", int64(checked))
			if checked > 0 {
				c.MaxObs("surface_to_mesh_over_diag", worst/diag)
				if worst > diag {
					c.Violate("", fmt.Sprintf("mc-incomplete %s cells=%d %s: resolvable surface point %g (or more) from the mesh, cell diagonal %g", rk.name, cells, sh.desc, worst, diag), cs)
				}
			}
		}
		// normals agree with the gradient (smooth shapes, non-sliver triangles)
		if sh.smooth {
			minCos := 1.0
			for _, t := range ts {
				e1, e2 := t[1].Sub(t[0]), t[2].Sub(t[0])
				cr := e1.Cross(e2)
				if cr.Length() < 2e-3*h*h {
					continue
				}
				ctr := t[0].Add(t[1]).Add(t[2]).DivScalar(3)
				g := gradient3(sh.s, ctr, 1e-5*h)
				if g.Length() < 0.5 {
					continue
				}
				cosv := cr.Normalize().Dot(g.Normalize())
				if cosv < minCos {
					minCos = cosv
				}
			}
			c.MaxObs("smooth_shapes_worst_normal_misalignment_1_minus_cos", 1-minCos)
			if minCos <= 0 {
				c.Violate("", fmt.Sprintf("mc-normal %s cells=%d %s: a non-sliver triangle's normal opposes the field gradient (cos=%g)", rk.name, cells, sh.desc, minCos), cs)
			}
		}
		// volume
		if sh.volume > 0 {
			vol := 0.0
			for _, t := range ts {
				c0 := sh.center
				vol += t[0].Sub(c0).Dot(t[1].Sub(c0).Cross(t[2].Sub(c0))) / 6
			}
			if sh.kind == "sphere" && sh.radius > 3*h {
				bound := 4.5 * 4 * math.Pi * sh.radius * sh.radius * h * h / (8 * (sh.radius - h))
				gap := sh.volume - vol
				c.MaxObs("sphere_volume_gap_over_bound", gap/bound)
				if gap < -1e-9*sh.volume || gap > bound {
					c.Violate("", fmt.Sprintf("mc-volume %s cells=%d %s: mesh volume %g vs %g, deficit %g outside [0,%g]", rk.name, cells, sh.desc, vol, sh.volume, gap, bound), cs)
				}
			}
		}
	})
	// convergence order for the evidence (sphere at n and 2n) - reported, not a verdict
	for _, rk := range mcRenderers {
		s, _ := sdf.Sphere3D(1)
		var errs []float64
		for _, n := range []int{12, 24, 48} {
			ts := render.ToTriangles(s, rk.mk(n))
			vol := 0.0
			for _, t := range ts {
				vol += t[0].Dot(t[1].Cross(t[2])) / 6
			}
			errs = append(errs, 4.0/3*math.Pi-vol)
		}
		c.Obs("sphere_volume_error_at_12_24_48_cells_"+rk.name, errs)
		if errs[1] > 0 && errs[2] > 0 {
			c.Obs("sphere_volume_error_ratio_per_doubling_"+rk.name, []float64{errs[0] / errs[1], errs[1] / errs[2]})
		}
	}
	c06HighRes(c)
	c.Floor(c.Pick(60, 500))
}

// c06HighRes: completeness and accuracy at resolutions where a full lattice cannot be recorded: slender rods spanning their
// whole box (so the surface reaches the maximum side of the long axis), incl. cell counts next to powers of two and both
// renderers where affordable. Surface points (lateral surface and both end caps) must lie within one cell diagonal of the
// mesh, vertices within one cell of the surface and inside the padded box.
func c06HighRes(c *Ctx) {
	type hr struct {
		axis, cells int
		uniform     bool
	}
	// the uniform renderer evaluates its lattice in rows and batches: rods of more than 1024 and 2048 nodes along each axis
	// (the cross-section stays small, so the whole lattice is a few million nodes)
	cases := []hr{{0, 255, false}, {1, 256, false}, {2, 511, false}, {1, 300, false}, {2, 150, true}, {2, 1100, true}, {0, 1300, true}, {1, 1500, true}, {2, 2100, true}}
	if !c.Quick {
		cases = append(cases, hr{0, 2100, true}, hr{1, 2060, true}, hr{1, 255, false}, hr{2, 255, false}, hr{0, 510, false}, hr{0, 1023, false}, hr{1, 1019, false}, hr{0, 1000, false}, hr{2, 257, false}, hr{0, 200, true})
	}
	c06Sparse(c)
	parallelFor(len(cases), func(i int) {
		k := cases[i]
		r := c.Rng("highres", i)
		sz := v3.Vec{X: 0.4, Y: 0.3, Z: 0.35}
		sz.Set(k.axis, 10)
		var rod sdf.SDF3
		kind := "box"
		if i%2 == 0 {
			rod, _ = sdf.Box3D(sz, 0)
		} else {
			rod, _ = sdf.Cylinder3D(10, 0.17, 0)
			kind = "cylinder"
			switch k.axis {
			case 0:
				rod = sdf.Transform3D(rod, sdf.RotateY(math.Pi/2))
			case 1:
				rod = sdf.Transform3D(rod, sdf.RotateX(math.Pi/2))
			}
		}
		ofs := v3.Vec{X: r.R(-1, 1), Y: r.R(-1, 1), Z: r.R(-1, 1)}
		s := sdf.Transform3D(rod, sdf.Translate3d(ofs))
		var rd render.Render3 = render.NewMarchingCubesOctree(k.cells)
		rname := "octree"
		if k.uniform {
			rd, rname = render.NewMarchingCubesUniform(k.cells), "uniform"
		}
		ts := render.ToTriangles(s, rd)
		c.Eval(1)
		bb := s.BoundingBox()
		h := bb.Size().MaxComponent() / float64(k.cells)
		diag := h * math.Sqrt(3)
		desc := fmt.Sprintf("%s rod 10 long along axis %d at %v", kind, k.axis, ofs)
		cs := c06Case{i, rname, k.cells, desc}
		if len(ts) == 0 {
			c.Violate("", fmt.Sprintf("mc-empty %s cells=%d %s: no triangles", rname, k.cells, desc), cs)
			return
		}
		grid := newTriGrid(ts, diag)
		far := 0.0
		var farAt v3.Vec
		probe := func(in, out v3.Vec) { // f(in) < 0 < f(out): bisect to the surface, measure the distance to the mesh
			if !(s.Evaluate(in) < 0 && s.Evaluate(out) > 0) {
				return
			}
			for it := 0; it < 50; it++ {
				m := in.Add(out).MulScalar(0.5)
				if s.Evaluate(m) < 0 {
					in = m
				} else {
					out = m
				}
			}
			c.Count("highres_surface_points_checked", 1)
			if d := grid.dist(in, 2); d > far {
				far, farAt = d, in
			}
		}
		for q := 0; q < 3000; q++ {
			u := v3.Vec{X: r.N(), Y: r.N(), Z: r.N()}
			u.Set(k.axis, 0)
			if u.Length() == 0 {
				continue
			}
			u = u.Normalize()
			p := ofs
			p.Set(k.axis, ofs.Get(k.axis)+r.R(-4.9, 4.9))
			probe(p, p.Add(u.MulScalar(0.6)))
		}
		for q := 0; q < 600; q++ { // end caps, away from their rims
			p := ofs.Add(v3.Vec{X: r.R(-0.08, 0.08), Y: r.R(-0.08, 0.08), Z: r.R(-0.08, 0.08)})
			sgn := r.Sign()
			in, out := p, p
			in.Set(k.axis, ofs.Get(k.axis)+sgn*4.5)
			out.Set(k.axis, ofs.Get(k.axis)+sgn*5.5)
			probe(in, out)
		}
		worst, outside := 0.0, 0
		pad := bb.Size().MulScalar(0.0051)
		for _, t := range ts {
			for q := 0; q < 3; q++ {
				v := t[q]
				worst = math.Max(worst, math.Abs(s.Evaluate(v)))
				if v.X < bb.Min.X-pad.X || v.Y < bb.Min.Y-pad.Y || v.Z < bb.Min.Z-pad.Z || v.X > bb.Max.X+pad.X || v.Y > bb.Max.Y+pad.Y || v.Z > bb.Max.Z+pad.Z {
					outside++
				}
			}
		}
		switch {
		case far > diag:
			c.Violate("", fmt.Sprintf("mc-incomplete %s cells=%d %s: surface point %v is %g (or more) from the mesh, cell diagonal %g", rname, k.cells, desc, farAt, far, diag), cs)
		case worst > h:
			c.Violate("", fmt.Sprintf("mc-accuracy %s cells=%d %s: a vertex is %g from the surface (cell %g)", rname, k.cells, desc, worst, h), cs)
		case outside > 0:
			c.Violate("", fmt.Sprintf("mc-outside-box %s cells=%d %s: %d vertices outside the 0.5%% padded box", rname, k.cells, desc, outside), cs)
		default:
			c.Distinct(fmt.Sprintf("%s/highres/%s/%d/%d", rname, kind, k.axis, k.cells))
		}
	})
}

// c06Sparse: very high cell counts are only affordable for sparse models - two small balls far apart. Both must be meshed.
func c06Sparse(c *Ctx) {
	type sp struct {
		axis, cells int
	}
	cases := []sp{{0, 20100}, {2, 9000}}
	if !c.Quick {
		cases = append(cases, sp{1, 40000}, sp{0, 70000}, sp{2, 33000})
	}
	parallelFor(len(cases), func(i int) {
		k := cases[i]
		r := c.Rng("sparse", i)
		ball, _ := sdf.Sphere3D(0.5)
		var ctr [2]v3.Vec
		ctr[0].Set(k.axis, -100)
		ctr[1].Set(k.axis, 100)
		jit := v3.Vec{X: r.R(-0.2, 0.2), Y: r.R(-0.2, 0.2), Z: r.R(-0.2, 0.2)}
		ctr[1] = ctr[1].Add(jit)
		s := sdf.Union3D(sdf.Transform3D(ball, sdf.Translate3d(ctr[0])), sdf.Transform3D(ball, sdf.Translate3d(ctr[1])))
		ts := render.ToTriangles(s, render.NewMarchingCubesOctree(k.cells))
		c.Eval(1)
		h := s.BoundingBox().Size().MaxComponent() / float64(k.cells)
		diag := h * math.Sqrt(3)
		desc := fmt.Sprintf("two balls r=0.5 at -100 and +100 along axis %d", k.axis)
		cs := c06Case{i, "octree", k.cells, desc}
		grid := newTriGrid(ts, diag)
		for b := 0; b < 2; b++ {
			far := 0.0
			for q := 0; q < 300; q++ {
				u := v3.Vec{X: r.N(), Y: r.N(), Z: r.N()}
				if u.Length() == 0 {
					continue
				}
				p := ctr[b].Add(u.Normalize().MulScalar(0.5))
				if d := grid.dist(p, 2); d > far {
					far = d
				}
			}
			c.Count("highres_surface_points_checked", 300)
			if far > diag {
				c.Violate("", fmt.Sprintf("mc-incomplete octree cells=%d %s: a point of ball %d is %g (or more) from the mesh, cell diagonal %g (%d triangles in all)", k.cells, desc, b, far, diag, len(ts)), cs)
				return
			}
		}
		c.Distinct(fmt.Sprintf("octree/sparse/%d/%d", k.axis, k.cells))
	})
}
