//go:build verif

// C17 addition (lead): Bezier spans whose end control points coincide (closed loops from one end point with
// handles or mid points, loops inside longer curves). Such a span is still a curve and has to be sampled.
package main

import (
	"fmt"
	"math"

	"github.com/deadsy/sdfx/sdf"
	v2 "github.com/deadsy/sdfx/vec/v2"
)

func deCasteljau(cp []v2.Vec, t float64) v2.Vec {
	q := append([]v2.Vec(nil), cp...)
	for n := len(q) - 1; n > 0; n-- {
		for i := 0; i < n; i++ {
			q[i] = q[i].MulScalar(1 - t).Add(q[i+1].MulScalar(t))
		}
	}
	return q[0]
}

func c17Loops(c *Ctx) {
	n := c.Pick(300, 6000)
	r := c.Rng("loops")
	c17CaptureStdout(func() { c17LoopsRun(c, r, n) }) // the sampler prints recursion warnings
}

func c17LoopsRun(c *Ctx, r *Rng, n int) {
	for i := 0; i < n; i++ {
		scale := r.LogR(0.1, 100)
		p := v2.Vec{X: r.R(-3, 3) * scale, Y: r.R(-3, 3) * scale}
		b := sdf.NewBezier()
		var spans [][]v2.Vec // oracle control polygons, in order
		kind := i % 6
		var desc string
		polar := func(rad, th float64) v2.Vec { return v2.Vec{X: rad * math.Cos(th), Y: rad * math.Sin(th)} }
		switch kind {
		case 0: // teardrop: one end point, forward and reverse handles, closed
			t1, t2 := r.R(-math.Pi, math.Pi), r.R(-math.Pi, math.Pi)
			r1, r2 := scale*r.R(0.5, 3), scale*r.R(0.5, 3)
			b.AddV2(p).HandleFwd(t1, r1).HandleRev(t2, r2)
			b.Close()
			spans = [][]v2.Vec{{p, p.Add(polar(r1, t1)), p.Add(polar(r2, t2)), p}}
			desc = fmt.Sprintf("teardrop at %v fwd(%.3g,%.3g) rev(%.3g,%.3g)", p, t1, r1, t2, r2)
		case 1: // closed loop of one end point plus 2..3 mid points
			k := r.IR(2, 3)
			cp := []v2.Vec{p}
			b.AddV2(p)
			for j := 0; j < k; j++ {
				m := p.Add(polar(scale*r.R(0.5, 3), r.R(-math.Pi, math.Pi)))
				b.AddV2(m).Mid()
				cp = append(cp, m)
			}
			b.Close()
			cp = append(cp, p)
			spans = [][]v2.Vec{cp}
			desc = fmt.Sprintf("closed loop through %v with %d mid points", p, k)
		case 3, 4, 5: // an end point entered twice (a zero-length span) at the start, in the middle or at the end of a curve
			a := p.Add(v2.Vec{X: -scale * r.R(1, 3), Y: scale * r.R(-0.5, 0.5)})
			e := p.Add(v2.Vec{X: scale * r.R(1, 3), Y: scale * r.R(-0.5, 0.5)})
			m1 := a.Add(p).MulScalar(0.5).Add(polar(scale*r.R(0.3, 2), r.R(0.3, 2.8)))
			m2 := p.Add(e).MulScalar(0.5).Add(polar(scale*r.R(0.3, 2), r.R(0.3, 2.8)))
			closed := r.P(0.3)
			b.AddV2(a)
			if kind == 3 {
				b.AddV2(a)
			}
			b.AddV2(m1).Mid()
			b.AddV2(p)
			if kind == 4 {
				b.AddV2(p)
			}
			b.AddV2(m2).Mid()
			b.AddV2(e)
			if kind == 5 {
				b.AddV2(e)
			}
			spans = [][]v2.Vec{{a, m1, p}, {p, m2, e}}
			if closed {
				b.Close()
				spans = append(spans, []v2.Vec{e, a})
			}
			desc = fmt.Sprintf("curve %v ~ %v ~ %v with the %s end point entered twice (closed=%v)", a, p, e, []string{"first", "middle", "last"}[kind-3], closed)
		default: // a loop in the middle of an open curve: a - p =loop= p - e
			a := p.Add(v2.Vec{X: -scale * r.R(1, 3), Y: scale * r.R(-0.5, 0.5)})
			e := p.Add(v2.Vec{X: scale * r.R(1, 3), Y: scale * r.R(-0.5, 0.5)})
			m1 := p.Add(polar(scale*r.R(0.5, 3), r.R(0.3, 2.8)))
			m2 := p.Add(polar(scale*r.R(0.5, 3), r.R(0.3, 2.8)))
			b.AddV2(a)
			b.AddV2(p)
			b.AddV2(m1).Mid()
			b.AddV2(m2).Mid()
			b.AddV2(p)
			b.AddV2(e)
			spans = [][]v2.Vec{{a, p}, {p, m1, m2, p}, {p, e}}
			desc = fmt.Sprintf("open curve %v - loop at %v - %v", a, p, e)
		}
		poly, err := b.Polygon()
		c.Eval(1)
		if err != nil {
			c.Violate("", fmt.Sprintf("Bezier-loop %s: Polygon() failed: %v", desc, err), map[string]any{"case": desc, "index": i})
			continue
		}
		vs := poly.Vertices()
		first, last := spans[0][0], spans[len(spans)-1][len(spans[len(spans)-1])-1]
		bad := ""
		switch {
		case len(vs) < 2:
			bad = fmt.Sprintf("only %d vertices", len(vs))
		case vs[0] != first || vs[len(vs)-1] != last:
			bad = fmt.Sprintf("ends %v..%v, want %v..%v", vs[0], vs[len(vs)-1], first, last)
		}
		if bad == "" {
			// every span of degree >= 2 with a non-degenerate control polygon must contribute a vertex strictly inside
			// it, and every vertex must lie on some span
			tol := 1e-6 * scale
			dense := map[int][]v2.Vec{}
			for k, cp := range spans {
				for q := 0; q <= 2000; q++ {
					dense[k] = append(dense[k], deCasteljau(cp, float64(q)/2000))
				}
			}
			interior := make([]int, len(spans))
			for _, v := range vs {
				bestK, bestD, bestQ := -1, math.Inf(1), 0
				for k := range spans {
					for q, d := range dense[k] {
						if dd := d.Sub(v).Length(); dd < bestD {
							bestK, bestD, bestQ = k, dd, q
						}
					}
				}
				// dense sampling spacing bounds the matching error
				if bestD > tol+2*polylineStep(dense[bestK]) {
					bad = fmt.Sprintf("vertex %v is %g from the curve", v, bestD)
					break
				}
				if bestQ > 0 && bestQ < 2000 {
					interior[bestK]++
				}
			}
			if bad == "" {
				for k, cp := range spans {
					// only a span that ends where it starts is obliged to show up: an ordinary span may be flat enough for the
					// adaptive sampler to emit nothing between its end points
					if len(cp) >= 3 && cp[0] == cp[len(cp)-1] && interior[k] == 0 {
						bad = fmt.Sprintf("span %d (degree %d loop, control polygon %v) contributed no vertex: the loop was dropped; polyline %v", k, len(cp)-1, cp, vs)
					}
				}
			}
		}
		if bad != "" {
			c.Violate("", fmt.Sprintf("Bezier-loop %s: %s", desc, bad), map[string]any{"case": desc, "index": i})
			continue
		}
		c.Distinct(fmt.Sprintf("bezier-loop/kind%d/%d", kind, i%50))
		c.Count("bezier_loop_spans_checked", 1)
	}
}

func polylineStep(d []v2.Vec) float64 {
	m := 0.0
	for i := 1; i < len(d); i++ {
		if l := d[i].Sub(d[i-1]).Length(); l > m {
			m = l
		}
	}
	return m
}
