//go:build verif

// C15 - 3MF, DXF and SVG exports contain exactly the supplied geometry.
//
// Known lists of triangles / segments are pushed through the batch writers
// (SaveDXF, SaveSVG) and the streaming writers (To3MF, ToDXF, ToSVG driven by
// scripted renderers). Every file is read back with an independent reader
// (go3mf decoder, yofu/dxf parser + a raw group-code scan, encoding/xml) and
// compared item by item with an oracle built from exact rational arithmetic.
//
// Decimal precisions of the encoders (from the dependency sources):
//   - 3MF: go3mf encoder.go defaultFloatPrecision = 4, FormatFloat(float32,'f',4,32)
//   - DXF: yofu/dxf drawing.go formatter.SetPrecision(16) -> "%.16f"
//   - SVG: svgo/float Decimals = 2 -> "%.2f"
package main

import (
	"bytes"
	"encoding/xml"
	"fmt"
	"io"
	"math"
	"math/big"
	"os"
	"path/filepath"
	"regexp"
	"sort"
	"strconv"
	"strings"
	"sync"

	"github.com/deadsy/sdfx/render"
	"github.com/deadsy/sdfx/sdf"
	v2 "github.com/deadsy/sdfx/vec/v2"
	v3 "github.com/deadsy/sdfx/vec/v3"
	"github.com/hpinc/go3mf"
	"github.com/yofu/dxf"
	"github.com/yofu/dxf/entity"
)

func init() { checks["C15"] = checkC15 }

// c15StrictDedup additionally demands that the 3MF vertex table is exactly the
// list of distinct float32 triples in first-appearance order. go3mf's
// MeshBuilder de-duplicates on 1e-6 cells instead, so this is only true once
// write3MF de-duplicates on the float32 triple itself.
const c15StrictDedup = true

const (
	c15Dec3MF = 4
	c15DecDXF = 16
	c15DecSVG = 2
	// beyond this |coordinate| go3mf's MeshBuilder key int32(floor(v/1e-6)) is out of range
	c15MicronRange = 2147.483648
	c15KeyLarge    = "3mf-large-coordinate-vertex-merge"
	c15KeySubMu    = "3mf-submicron-vertex-merge"
)

//-----------------------------------------------------------------------------
// oracle: correctly rounded decimals in exact arithmetic

func c15Pow10(dec int) *big.Int {
	return new(big.Int).Exp(big.NewInt(10), big.NewInt(int64(dec)), nil)
}

var c15Half = big.NewRat(1, 2)

// c15Nearest returns the multiples of 10^-dec nearest to x (two on an exact tie:
// the tie rule belongs to the encoder, not to the property).
func c15Nearest(x *big.Rat, dec int) []*big.Rat {
	p := c15Pow10(dec)
	s := new(big.Rat).Mul(x, new(big.Rat).SetInt(p))
	f := new(big.Int).Div(s.Num(), s.Denom()) // Euclidean: floor, the denominator is positive
	frac := new(big.Rat).Sub(s, new(big.Rat).SetInt(f))
	f1 := new(big.Int).Add(f, big.NewInt(1))
	lo, hi := new(big.Rat).SetFrac(f, p), new(big.Rat).SetFrac(f1, p)
	switch frac.Cmp(c15Half) {
	case -1:
		return []*big.Rat{lo}
	case 1:
		return []*big.Rat{hi}
	}
	return []*big.Rat{lo, hi}
}

// c15Want32: the float32 values a reader may legitimately decode for input x in
// a 3MF file: x rounded to float32, then to four decimals, then parsed.
func c15Want32(x float64) []float32 {
	var out []float32
	for _, q := range c15Nearest(new(big.Rat).SetFloat64(float64(float32(x))), c15Dec3MF) {
		f, _ := q.Float32()
		out = append(out, f)
	}
	return out
}

// c15Want64: the float64 values a reader may decode from the DXF text for x.
func c15Want64(x float64) []float64 {
	var out []float64
	for _, q := range c15Nearest(new(big.Rat).SetFloat64(x), c15DecDXF) {
		f, _ := q.Float64()
		out = append(out, f)
	}
	return out
}

func c15In32(v float32, want []float32) bool {
	for _, w := range want {
		if v == w {
			return true
		}
	}
	return false
}

func c15In64(v float64, want []float64) bool {
	for _, w := range want {
		if v == w {
			return true
		}
	}
	return false
}

var c15Dec2Re = regexp.MustCompile(`^-?[0-9]+\.[0-9]{2}$`)

// c15SvgOK: text is a two-decimal number within half a unit of the last digit of
// the exact value a-b (plus 1e-12 relative to the operands for the float64
// subtraction, whose error is below 1.2e-16 relative). Returns |text-(a-b)|/0.005.
func c15SvgOK(text string, a, b float64) (bool, float64) {
	if !c15Dec2Re.MatchString(text) {
		return false, math.Inf(1)
	}
	v, ok := new(big.Rat).SetString(text)
	if !ok {
		return false, math.Inf(1)
	}
	want := new(big.Rat).Sub(new(big.Rat).SetFloat64(a), new(big.Rat).SetFloat64(b))
	diff := new(big.Rat).Sub(v, want)
	diff.Abs(diff)
	bound := new(big.Rat).SetFloat64(0.005 + 1e-12*(math.Abs(a)+math.Abs(b)))
	d, _ := diff.Float64()
	return diff.Cmp(bound) <= 0, d / 0.005
}

// c15SelfTest compares the rational oracle with the dumbest possible method
// (strconv print + parse) and with hand-computed values.
func c15SelfTest(c *Ctx) string {
	r := c.Rng("selftest")
	for i := 0; i < 4000; i++ {
		x := r.Sign() * r.LogR(1e-9, 1e7)
		if i%4 == 0 {
			x = math.Round(x*1024) / 1024
		}
		s4 := strconv.FormatFloat(float64(float32(x)), 'f', 4, 32)
		p4, _ := strconv.ParseFloat(s4, 32)
		if !c15In32(float32(p4), c15Want32(x)) {
			return fmt.Sprintf("3MF rounding oracle disagrees with strconv for %v: %v vs %s", x, c15Want32(x), s4)
		}
		s16 := strconv.FormatFloat(x, 'f', 16, 64)
		p16, _ := strconv.ParseFloat(s16, 64)
		if !c15In64(p16, c15Want64(x)) {
			return fmt.Sprintf("DXF rounding oracle disagrees with strconv for %v: %v vs %s", x, c15Want64(x), s16)
		}
		if math.Abs(x) >= 0.5 && (len(c15Want64(x)) != 1 || c15Want64(x)[0] != x) {
			return fmt.Sprintf("DXF oracle not bit-exact for |x|>=0.5: %v", x)
		}
		y := r.Sign() * r.LogR(1e-9, 1e7)
		if ok, _ := c15SvgOK(strconv.FormatFloat(x-y, 'f', 2, 64), x, y); !ok {
			return fmt.Sprintf("SVG oracle rejects %%.2f of %v-%v", x, y)
		}
		if ok, _ := c15SvgOK(strconv.FormatFloat(x-y+0.011, 'f', 2, 64), x, y); ok {
			return fmt.Sprintf("SVG oracle accepts a value 0.011 off for %v-%v", x, y)
		}
	}
	if w := c15Want32(0.00005); len(w) != 1 || w[0] != 0 { // float32(0.00005) < 0.00005
		return fmt.Sprintf("c15Want32(0.00005)=%v want [0]", w)
	}
	if w := c15Want32(1.23456); len(w) != 1 || w[0] != 1.2346 {
		return fmt.Sprintf("c15Want32(1.23456)=%v", w)
	}
	if w := c15Want32(0.03125 / 2 / 2 / 2 / 2 / 2); len(w) != 1 { // 0.0009765625
		return fmt.Sprintf("c15Want32(2^-10)=%v", w)
	}
	if w := c15Nearest(big.NewRat(1, 8), 2); len(w) != 2 { // 0.125 is an exact tie at two decimals
		return "tie not detected for 0.125 at two decimals"
	}
	if w := c15Nearest(big.NewRat(-7, 4), 0); len(w) != 1 || w[0].Cmp(big.NewRat(-2, 1)) != 0 {
		return fmt.Sprintf("nearest(-1.75,0)=%v", w)
	}
	if ok, _ := c15SvgOK("2.88", 3, 0.125); !ok {
		return "SVG oracle rejects 2.88 for 3-0.125"
	}
	if ok, _ := c15SvgOK("2.9", 3, 0.125); ok {
		return "SVG oracle accepts a one-decimal text"
	}
	return ""
}

//-----------------------------------------------------------------------------
// workload

var c15Lens = []int{0, 1, 2, 127, 128, 129, 255, 256, 257, 1000, -1} // -1: 3..60
var c15Coords = []string{"unit", "grid", "negative", "tiny", "large", "collide", "mixed", "late-extent", "zeros", "origin-first"}
var c15Combos = [][2]string{{"3mf", "stream"}, {"dxf", "batch"}, {"dxf", "stream"}, {"svg", "batch"}, {"svg", "stream"}}

type c15Case struct {
	Idx    int    `json:"index"`
	Format string `json:"format"`
	Path   string `json:"path"`
	LenCls int    `json:"length_class"`
	Coord  string `json:"coord_class"`
	Pinned string `json:"pinned,omitempty"`
	pts    [][][3]float64
}

func c15Res(format string) float64 {
	switch format {
	case "3mf":
		return 1e-4
	case "dxf":
		return 1e-16
	}
	return 1e-2
}

func c15Coord(r *Rng, cls string, res float64) float64 {
	switch cls {
	case "unit":
		return r.R(-10, 10)
	case "grid":
		return float64(r.IR(-128, 128)) / 8
	case "negative":
		return -r.LogR(1, 500)
	case "tiny":
		return r.Sign() * r.LogR(1e-7, 1e-5)
	case "large":
		if r.P(0.3) {
			return r.Sign() * r.R(1500, 5000) // straddles 2^31 micron
		}
		return r.Sign() * r.LogR(1e5, 2e6)
	case "collide": // neighbours closer than the format's last digit, incl. values next to rounding ties
		off := pickOne(r, []float64{0, 0.1, -0.1, 0.3, -0.3, 0.49, -0.49, 0.5, -0.5, 0.51, 0.499999, 0.500001})
		return (float64(r.IR(-40, 40)) + off) * res * pickOne(r, []float64{1, 1, 1000})
	case "mixed":
		return c15Coord(r, pickOne(r, c15Coords[:6]), res)
	case "zeros": // the same value with either sign of zero (mirrored geometry), underflowing values, a few small integers
		return pickOne(r, []float64{0, math.Copysign(0, -1), 0, math.Copysign(0, -1), 1e-50, -1e-50, 1, -1, 2, 0.5})
	case "origin-first": // everything on one side of the origin; the first items are dots on the origin itself
		return r.LogR(0.5, 200)
	}
	return r.R(-100, 100) // late-extent: the first item is shrunk afterwards
}

// c15Gen returns n items of k points (dim coordinates used) with shared
// vertices, exact duplicates, reversed copies and degenerate items.
func c15Gen(r *Rng, n, k, dim int, cls string, res float64) [][][3]float64 {
	pt := func(cl string) (p [3]float64) {
		for a := 0; a < dim; a++ {
			p[a] = c15Coord(r, cl, res)
		}
		return
	}
	pool := make([][3]float64, 1+n/2)
	for i := range pool {
		pool[i] = pt(cls)
	}
	items := make([][][3]float64, n)
	for i := range items {
		it := make([][3]float64, k)
		switch u := r.F(); {
		case i > 0 && u < 0.08: // duplicate of an earlier item
			copy(it, items[r.I(i)])
		case i > 0 && u < 0.14: // reversed copy (opposite winding / direction)
			src := items[r.I(i)]
			for j := range it {
				it[j] = src[k-1-j]
			}
		case u < 0.18: // degenerate: repeated corner
			it[0] = pool[r.I(len(pool))]
			for j := 1; j < k; j++ {
				it[j] = it[0]
			}
		case u < 0.30: // fresh vertices
			for j := range it {
				it[j] = pt(cls)
			}
		default: // shared vertices from the pool
			for j := range it {
				it[j] = pool[r.I(len(pool))]
			}
		}
		items[i] = it
	}
	if cls == "origin-first" && n > 0 {
		sx, sy, sz := r.Sign(), r.Sign(), r.Sign()
		for i := range items {
			for j := range items[i] {
				items[i][j][0] *= sx
				items[i][j][1] *= sy
				items[i][j][2] *= sz
			}
		}
		for i := 0; i < r.IR(1, 3) && i < n; i++ {
			for j := range items[i] {
				for a := 0; a < 3; a++ {
					items[i][j][a] = pickOne(r, []float64{0, 0, math.Copysign(0, -1)})
				}
			}
		}
	}
	if cls == "late-extent" && n > 0 {
		for j := range items[0] {
			for a := 0; a < dim; a++ {
				items[0][j][a] = r.R(-1, 1)
			}
		}
	}
	return items
}

func c15Tris(pts [][][3]float64, r *Rng) []*sdf.Triangle3 {
	out := make([]*sdf.Triangle3, len(pts))
	for i, p := range pts {
		if i > 0 && fmt.Sprint(p) == fmt.Sprint(pts[i-1]) && r.Bool() {
			out[i] = out[i-1] // the very same pointer twice
			continue
		}
		out[i] = &sdf.Triangle3{v3.Vec{X: p[0][0], Y: p[0][1], Z: p[0][2]}, v3.Vec{X: p[1][0], Y: p[1][1], Z: p[1][2]}, v3.Vec{X: p[2][0], Y: p[2][1], Z: p[2][2]}}
	}
	return out
}

func c15Lines(pts [][][3]float64) []*sdf.Line2 {
	out := make([]*sdf.Line2, len(pts))
	for i, p := range pts {
		out[i] = &sdf.Line2{v2.Vec{X: p[0][0], Y: p[0][1]}, v2.Vec{X: p[1][0], Y: p[1][1]}}
	}
	return out
}

// c15Batches splits n into PRNG batch sizes incl. empty ones and sizes around
// the 256-triangle / 128-line buffer thresholds.
func c15Batches(r *Rng, n int) []int {
	var out []int
	for left := n; left > 0; {
		b := pickOne(r, []int{0, 0, 1, 2, 3, r.IR(1, 40), 127, 128, 129, 255, 256, 257, 300})
		if b > left {
			b = left
		}
		out = append(out, b)
		left -= b
	}
	if r.Bool() {
		out = append(out, 0)
	}
	return out
}

type c15Script3 struct {
	ts []*sdf.Triangle3
	bs []int
}

func (s *c15Script3) Info(sdf.SDF3) string { return "scripted" }
func (s *c15Script3) Render(_ sdf.SDF3, out sdf.Triangle3Writer) {
	pos := 0
	for i, b := range s.bs {
		out.Write(s.ts[pos : pos+b])
		pos += b
		// an assembly renderer runs one stock renderer per part over the same writer, and each of them ends with Close
		// (documented as a flush): in a third of the scripts some batches are followed by a Close
		if len(s.bs)%3 == 1 && i%2 == 0 {
			out.Close()
		}
	}
	out.Close()
}

type c15Script2 struct {
	ls []*sdf.Line2
	bs []int
}

func (s *c15Script2) Info(sdf.SDF2) string { return "scripted" }
func (s *c15Script2) Render(_ sdf.SDF2, out sdf.Line2Writer) {
	pos := 0
	for i, b := range s.bs {
		out.Write(s.ls[pos : pos+b])
		pos += b
		// an assembly renderer runs one stock renderer per part over the same writer, and each of them ends with Close
		// (documented as a flush): in a third of the scripts some batches are followed by a Close
		if len(s.bs)%3 == 1 && i%2 == 0 {
			out.Close()
		}
	}
	out.Close()
}

//-----------------------------------------------------------------------------
// readers + comparison

type c15Fail struct {
	key, kind, detail string
	item              int
}

type c15Stats struct {
	mu                                          sync.Mutex
	files, items                                map[string]int64
	corners, table, distinct32, distinctRounded int64
	firstOrder, meshFiles                       int64
	dxfBitExact, dxfRounded                     int64
	svgWorst                                    float64
}

func c15Fmt3(v [3]float64) string { return fmt.Sprintf("(%v,%v,%v)", v[0], v[1], v[2]) }

func c15Check3MF(file string, pts [][][3]float64, st *c15Stats) *c15Fail {
	rd, err := go3mf.OpenReader(file)
	if err != nil {
		return &c15Fail{"", "3MF-unreadable", "OpenReader: " + err.Error(), -1}
	}
	defer rd.Close()
	var m go3mf.Model
	if err := rd.Decode(&m); err != nil {
		return &c15Fail{"", "3MF-unreadable", "Decode: " + err.Error(), -1}
	}
	if m.Units != go3mf.UnitMillimeter {
		return &c15Fail{"", "3MF-unit", fmt.Sprintf("model unit %v, want millimeter", m.Units), -1}
	}
	if len(m.Resources.Objects) != 1 || m.Resources.Objects[0].Mesh == nil || m.Resources.Objects[0].Components != nil {
		return &c15Fail{"", "3MF-objects", fmt.Sprintf("%d objects in the file (want exactly one, with a mesh)", len(m.Resources.Objects)), -1}
	}
	obj := m.Resources.Objects[0]
	if len(m.Build.Items) != 1 || m.Build.Items[0].ObjectID != obj.ID || m.Build.Items[0].HasTransform() || len(m.Childs) != 0 {
		return &c15Fail{"", "3MF-build", fmt.Sprintf("%d build items (want one untransformed item for object %d)", len(m.Build.Items), obj.ID), -1}
	}
	verts, tris := obj.Mesh.Vertices.Vertex, obj.Mesh.Triangles.Triangle
	if len(tris) != len(pts) {
		return &c15Fail{"", "3MF-count", fmt.Sprintf("%d triangles in the file, %d supplied", len(tris), len(pts)), -1}
	}
	type corner struct{ item, k int }
	firstUse := map[uint32]corner{}     // file index -> first corner using it
	byTriple := map[[3]float32]uint32{} // float32 triple -> file index of its first appearance
	rounded := map[[3]float32]struct{}{}
	inOrder := true
	for i, t := range tris {
		for k, idx := range []uint32{t.V1, t.V2, t.V3} {
			in := pts[i][k]
			if int(idx) >= len(verts) {
				return &c15Fail{"", "3MF-index", fmt.Sprintf("triangle %d corner %d: index %d outside the table of %d vertices", i, k, idx, len(verts)), i}
			}
			got := verts[idx]
			f32 := [3]float32{float32(in[0]), float32(in[1]), float32(in[2])}
			first, seen := firstUse[idx]
			if !seen {
				firstUse[idx] = corner{i, k}
				if int(idx) != len(firstUse)-1 {
					inOrder = false
				}
			}
			ok := true
			var want [3][]float32
			for a := 0; a < 3; a++ {
				want[a] = c15Want32(in[a])
				ok = ok && c15In32(got[a], want[a])
			}
			if !ok {
				// classify: merged into another input's (correct) vertex by the micron-cell de-duplication?
				key := ""
				if seen {
					o := pts[first.item][first.k]
					collide, large := true, false // model of the MeshBuilder key int32(floor(v/1e-6)) per axis
					for a := 0; a < 3; a++ {
						x, y := float64(f32[a]), float64(float32(o[a]))
						sat := math.Abs(x) >= c15MicronRange && math.Abs(y) >= c15MicronRange
						collide = collide && (sat || math.Abs(x-y) <= 1.001e-6)
						large = large || sat
					}
					kind := "3MF-vertex"
					if collide && large {
						key, kind = c15KeyLarge, "3MF-vertex-merged-large-coordinate"
					} else if collide {
						key, kind = c15KeySubMu, "3MF-vertex-merged-submicron"
					}
					return &c15Fail{key, kind, fmt.Sprintf("triangle %d corner %d: input %s read back as %v (want %v %v %v): it shares vertex %d with triangle %d corner %d = %s",
						i, k, c15Fmt3(in), got, want[0], want[1], want[2], idx, first.item, first.k, c15Fmt3(o)), i}
				}
				return &c15Fail{"", "3MF-vertex", fmt.Sprintf("triangle %d corner %d (v%d=%d): input %s read back as %v, want %v %v %v", i, k, k+1, idx, c15Fmt3(in), got, want[0], want[1], want[2]), i}
			}
			if j, dup := byTriple[f32]; dup && j != idx {
				return &c15Fail{"", "3MF-dedup", fmt.Sprintf("triangle %d corner %d: input %s is vertex %d but the identical float32 triple was vertex %d before", i, k, c15Fmt3(in), idx, j), i}
			} else if !dup {
				byTriple[f32] = idx
				if c15StrictDedup && (int(idx) != len(byTriple)-1) {
					return &c15Fail{"", "3MF-dedup-order", fmt.Sprintf("triangle %d corner %d: new float32 triple %v got vertex index %d, first-appearance rank is %d", i, k, f32, idx, len(byTriple)-1), i}
				}
			}
			rounded[[3]float32{got[0], got[1], got[2]}] = struct{}{}
		}
	}
	if len(firstUse) != len(verts) {
		return &c15Fail{"", "3MF-unreferenced-vertex", fmt.Sprintf("vertex table has %d entries, only %d referenced", len(verts), len(firstUse)), -1}
	}
	if c15StrictDedup && len(verts) != len(byTriple) {
		return &c15Fail{"", "3MF-dedup-count", fmt.Sprintf("vertex table has %d entries, %d distinct float32 triples supplied", len(verts), len(byTriple)), -1}
	}
	st.mu.Lock()
	st.corners += int64(3 * len(tris))
	st.table += int64(len(verts))
	st.distinct32 += int64(len(byTriple))
	st.distinctRounded += int64(len(rounded))
	st.meshFiles++
	if inOrder {
		st.firstOrder++
	}
	st.mu.Unlock()
	return nil
}

// c15DXFScan counts entity records of the ENTITIES section in the raw
// group-code stream and returns their types and layer names.
func c15DXFScan(file string) (types, layers []string, err error) {
	b, err := os.ReadFile(file)
	if err != nil {
		return nil, nil, err
	}
	ln := strings.Split(strings.ReplaceAll(string(b), "\r", ""), "\n")
	in := false
	for i := 0; i+1 < len(ln); i += 2 {
		code, val := strings.TrimSpace(ln[i]), strings.TrimSpace(ln[i+1])
		switch {
		case code == "2" && val == "ENTITIES" && i >= 2 && strings.TrimSpace(ln[i-1]) == "SECTION":
			in = true
		case in && code == "0" && val == "ENDSEC":
			return types, layers, nil
		case in && code == "0":
			types = append(types, val)
			layers = append(layers, "")
		case in && code == "8" && len(layers) > 0:
			layers[len(layers)-1] = val
		}
	}
	return types, layers, fmt.Errorf("no complete ENTITIES section")
}

func c15CheckDXF(file string, pts [][][3]float64, st *c15Stats) *c15Fail {
	d, err := dxf.FromFile(file)
	if err != nil {
		return &c15Fail{"", "DXF-unreadable", err.Error(), -1}
	}
	es := d.Entities()
	types, layers, err := c15DXFScan(file)
	if err != nil {
		return &c15Fail{"", "DXF-unreadable", "raw scan: " + err.Error(), -1}
	}
	if len(es) != len(pts) || len(types) != len(pts) {
		return &c15Fail{"", "DXF-count", fmt.Sprintf("%d entities (raw scan %d) in the file, %d segments supplied", len(es), len(types), len(pts)), -1}
	}
	var exact, rnd int64
	for i, e := range es {
		l, ok := e.(*entity.Line)
		if !ok || types[i] != "LINE" {
			return &c15Fail{"", "DXF-entity", fmt.Sprintf("entity %d is %T / %q, want LINE", i, e, types[i]), i}
		}
		if l.Layer() == nil || l.Layer().Name() != "Lines" || layers[i] != "Lines" {
			name := "<nil>"
			if l.Layer() != nil {
				name = l.Layer().Name()
			}
			return &c15Fail{"", "DXF-layer", fmt.Sprintf("LINE %d is on layer %q (raw scan %q), want Lines", i, name, layers[i]), i}
		}
		if len(l.Start) != 3 || len(l.End) != 3 {
			return &c15Fail{"", "DXF-entity", fmt.Sprintf("LINE %d has malformed points", i), i}
		}
		for k, got := range [][]float64{l.Start, l.End} {
			in := pts[i][k]
			for a := 0; a < 3; a++ { // in[2] is 0: the segment lies in the z=0 plane
				want := c15Want64(in[a])
				if !c15In64(got[a], want) {
					return &c15Fail{"", "DXF-coordinate", fmt.Sprintf("LINE %d point %d axis %d: input (%v,%v) read back as %v, want %v", i, k, a, in[0], in[1], got, want), i}
				}
				if a < 2 {
					if got[a] == in[a] {
						exact++
					} else {
						rnd++
					}
				}
			}
		}
	}
	st.mu.Lock()
	st.dxfBitExact += exact
	st.dxfRounded += rnd
	st.mu.Unlock()
	return nil
}

func c15CheckSVG(file string, pts [][][3]float64, style string, st *c15Stats) *c15Fail {
	b, err := os.ReadFile(file)
	if err != nil {
		return &c15Fail{"", "SVG-unreadable", err.Error(), -1}
	}
	// the drawing's extent: over ALL endpoints of ALL segments
	mn, mx := [2]float64{}, [2]float64{}
	for i, it := range pts {
		for k, p := range it {
			for a := 0; a < 2; a++ {
				if i == 0 && k == 0 {
					mn[a], mx[a] = p[a], p[a]
				}
				mn[a], mx[a] = math.Min(mn[a], p[a]), math.Max(mx[a], p[a])
			}
		}
	}
	dec := xml.NewDecoder(bytes.NewReader(b))
	attr := func(se xml.StartElement, name string) (string, bool) {
		for _, a := range se.Attr {
			if a.Name.Local == name && a.Name.Space == "" {
				return a.Value, true
			}
		}
		return "", false
	}
	worst := 0.0
	near := func(text string, a, b float64) bool {
		ok, m := c15SvgOK(text, a, b)
		if ok && m > worst {
			worst = m
		}
		return ok
	}
	depth, nline, root := 0, 0, false
	firstStyle := ""
	for {
		tok, err := dec.Token()
		if err != nil {
			if err == io.EOF {
				break
			}
			return &c15Fail{"", "SVG-unreadable", "xml: " + err.Error(), -1}
		}
		switch se := tok.(type) {
		case xml.EndElement:
			depth--
		case xml.StartElement:
			depth++
			switch {
			case depth == 1:
				if se.Name.Local != "svg" || root {
					return &c15Fail{"", "SVG-structure", "root element is " + se.Name.Local, -1}
				}
				root = true
				w, _ := attr(se, "width")
				h, _ := attr(se, "height")
				if !near(w, mx[0], mn[0]) || !near(h, mx[1], mn[1]) {
					return &c15Fail{"", "SVG-canvas", fmt.Sprintf("canvas %q x %q, drawing extent is %v x %v (min %v max %v)", w, h, mx[0]-mn[0], mx[1]-mn[1], mn, mx), -1}
				}
				if _, has := attr(se, "viewBox"); has {
					return &c15Fail{"", "SVG-canvas", "unexpected viewBox: coordinates are no longer canvas units", -1}
				}
			case depth == 2 && se.Name.Local == "line":
				i := nline
				nline++
				if i >= len(pts) {
					continue
				}
				for k := 0; k < 2; k++ {
					p := pts[i][k]
					xs, _ := attr(se, fmt.Sprintf("x%d", k+1))
					ys, _ := attr(se, fmt.Sprintf("y%d", k+1))
					if !near(xs, p[0], mn[0]) {
						return &c15Fail{"", "SVG-x", fmt.Sprintf("line %d x%d=%q, want (%v)-(%v)=%.6g to two decimals", i, k+1, xs, p[0], mn[0], p[0]-mn[0]), i}
					}
					if !near(ys, mx[1], p[1]) {
						return &c15Fail{"", "SVG-y", fmt.Sprintf("line %d y%d=%q, want (%v)-(%v)=%.6g to two decimals (Y flipped)", i, k+1, ys, mx[1], p[1], mx[1]-p[1]), i}
					}
				}
				s, _ := attr(se, "style")
				if i == 0 {
					firstStyle = s
				}
				if (style != "" && s != style) || s == "" || s != firstStyle {
					return &c15Fail{"", "SVG-style", fmt.Sprintf("line %d style %q, want %q", i, s, style), i}
				}
				if _, has := attr(se, "transform"); has {
					return &c15Fail{"", "SVG-structure", "line carries a transform", i}
				}
			default:
				return &c15Fail{"", "SVG-structure", fmt.Sprintf("unexpected element <%s> at depth %d", se.Name.Local, depth), -1}
			}
		}
	}
	if !root || nline != len(pts) {
		return &c15Fail{"", "SVG-count", fmt.Sprintf("%d <line> elements in the file, %d segments supplied", nline, len(pts)), -1}
	}
	st.mu.Lock()
	st.svgWorst = math.Max(st.svgWorst, worst)
	st.mu.Unlock()
	return nil
}

//-----------------------------------------------------------------------------

var c15Styles = []string{"fill:none;stroke:black;stroke-width:0.1", "stroke:red", "fill:none;stroke:#00f;stroke-width:0.25;stroke-linecap:round"}

// c15Run writes the file for one case through the library and checks it.
func c15Run(c *Ctx, cs *c15Case, dir string, st *c15Stats) *c15Fail {
	r := c.Rng("case-run", cs.Idx)
	file := filepath.Join(dir, fmt.Sprintf("c%06d.%s", cs.Idx, cs.Format))
	defer os.Remove(file)
	n := len(cs.pts)
	// history: in some cases the path already holds an earlier, longer export of the same kind (the same geometry twice
	// over plus a little more, written through the same call) or unrelated bytes
	switch cs.Idx % 6 {
	case 1:
		os.WriteFile(file, bytes.Repeat([]byte("stale bytes of an earlier, longer file\n"), 300+40*n), 0644)
	case 4:
		rp := c.Rng("case-earlier", cs.Idx)
		k, dim := 2, 2
		if cs.Format == "3mf" {
			k, dim = 3, 3
		}
		more := append(append(append([][][3]float64{}, cs.pts...), cs.pts...), c15Gen(rp, 40, k, dim, "unit", c15Res(cs.Format))...)
		switch {
		case cs.Format == "3mf":
			s3, _ := sdf.Sphere3D(1)
			render.To3MF(s3, file, &c15Script3{c15Tris(more, rp), c15Batches(rp, len(more))})
		case cs.Format == "dxf" && cs.Path == "batch":
			render.SaveDXF(file, c15Lines(more))
		case cs.Format == "dxf":
			s2, _ := sdf.Circle2D(1)
			render.ToDXF(s2, file, &c15Script2{c15Lines(more), c15Batches(rp, len(more))})
		case cs.Path == "batch":
			render.SaveSVG(file, c15Styles[0], c15Lines(more))
		default:
			s2, _ := sdf.Circle2D(1)
			render.ToSVG(s2, file, &c15Script2{c15Lines(more), c15Batches(rp, len(more))})
		}
	}
	switch cs.Format {
	case "3mf":
		s3, _ := sdf.Sphere3D(1)
		render.To3MF(s3, file, &c15Script3{c15Tris(cs.pts, r), c15Batches(r, n)})
		return c15Check3MF(file, cs.pts, st)
	case "dxf":
		if cs.Path == "batch" {
			if err := render.SaveDXF(file, c15Lines(cs.pts)); err != nil {
				return &c15Fail{"", "DXF-save-error", err.Error(), -1}
			}
		} else {
			s2, _ := sdf.Circle2D(1)
			render.ToDXF(s2, file, &c15Script2{c15Lines(cs.pts), c15Batches(r, n)})
		}
		return c15CheckDXF(file, cs.pts, st)
	}
	style := ""
	if cs.Path == "batch" {
		style = c15Styles[cs.Idx%len(c15Styles)]
		if err := render.SaveSVG(file, style, c15Lines(cs.pts)); err != nil {
			return &c15Fail{"", "SVG-save-error", err.Error(), -1}
		}
	} else {
		s2, _ := sdf.Circle2D(1)
		render.ToSVG(s2, file, &c15Script2{c15Lines(cs.pts), c15Batches(r, n)})
	}
	return c15CheckSVG(file, cs.pts, style, st)
}

// c15DXFObject: the DXF drawing object used directly - segments added in several Lines / Line calls with point markers
// (Points) added before, between or after them. Every supplied segment must be a LINE on layer "Lines", in order.
func c15DXFObject(c *Ctx, dir string) {
	seg := func(i int) *sdf.Line2 {
		f := float64(i)
		return &sdf.Line2{v2.Vec{X: f, Y: 0.5 * f}, v2.Vec{X: f + 1, Y: 0.25 * f}}
	}
	for qi, seq := range []string{"LL", "LPL", "PL", "LP", "lPlL", "PLPLP", "LPlPl"} {
		file := filepath.Join(dir, fmt.Sprintf("object-%d.dxf", qi))
		d := render.NewDXF(file)
		var want []*sdf.Line2
		n := 0
		for _, op := range seq {
			switch op {
			case 'L':
				ls := []*sdf.Line2{seg(n), seg(n + 1), seg(n + 2)}
				n += 3
				d.Lines(ls)
				want = append(want, ls...)
			case 'l':
				l := seg(n)
				n++
				d.Line(l)
				want = append(want, l)
			case 'P':
				d.Points(v2.VecSet{{X: 1, Y: 1}, {X: -2, Y: 3}}, 0.1)
			}
		}
		err := d.Save()
		c.Eval(1)
		tag := fmt.Sprintf("DXF object API sequence %q (L=Lines, l=Line, P=Points)", seq)
		if err != nil {
			c.Violate("", fmt.Sprintf("DXF-save-error %s: %v", tag, err), map[string]any{"sequence": seq})
			continue
		}
		dr, err := dxf.FromFile(file)
		os.Remove(file)
		if err != nil {
			c.Violate("", fmt.Sprintf("DXF-unreadable %s: %v", tag, err), map[string]any{"sequence": seq})
			continue
		}
		k := 0
		bad := ""
		for _, e := range dr.Entities() {
			l, ok := e.(*entity.Line)
			if !ok {
				continue
			}
			switch {
			case k >= len(want):
				bad = fmt.Sprintf("more LINE entities than the %d supplied segments", len(want))
			case l.Layer() == nil || l.Layer().Name() != "Lines":
				name := "<nil>"
				if l.Layer() != nil {
					name = l.Layer().Name()
				}
				bad = fmt.Sprintf("segment %d is on layer %q, want Lines", k, name)
			case len(l.Start) < 2 || len(l.End) < 2 || l.Start[0] != want[k][0].X || l.Start[1] != want[k][0].Y || l.End[0] != want[k][1].X || l.End[1] != want[k][1].Y:
				bad = fmt.Sprintf("segment %d read back as %v-%v, want %v", k, l.Start, l.End, *want[k])
			}
			if bad != "" {
				break
			}
			k++
		}
		if bad == "" && k != len(want) {
			bad = fmt.Sprintf("%d LINE entities for %d supplied segments", k, len(want))
		}
		if bad != "" {
			c.Violate("", fmt.Sprintf("DXF-layer %s: %s", tag, bad), map[string]any{"sequence": seq})
			continue
		}
		c.Distinct("dxf/object/" + seq)
	}
}

func c15Pinned() []*c15Case {
	t := func(name string, p ...[3]float64) *c15Case {
		return &c15Case{Format: "3mf", Path: "stream", Coord: "pinned", Pinned: name, pts: [][][3]float64{p}}
	}
	l := func(format, path, name string, segs ...[2][2]float64) *c15Case {
		cs := &c15Case{Format: format, Path: path, Coord: "pinned", Pinned: name}
		for _, s := range segs {
			cs.pts = append(cs.pts, [][3]float64{{s[0][0], s[0][1]}, {s[1][0], s[1][1]}})
		}
		return cs
	}
	inside := [][2][2]float64{{{0, 0}, {1, 1}}, {{-5, 7}, {9, -3}}, {{2, 2}, {3, 12}}}
	return []*c15Case{
		// go3mf MeshBuilder: every coordinate beyond 2^31 micron gets the same de-duplication key
		t("3mf-large-coordinate", [3]float64{3000, 0, 0}, [3]float64{4000, 0, 0}, [3]float64{0, 1, 0}),
		t("3mf-large-coordinate-signs", [3]float64{-3000, 5, 0}, [3]float64{4000, 5, 0}, [3]float64{0, 1, -2500}),
		// two float32 values in one micron cell on opposite sides of a four-decimal rounding boundary
		t("3mf-submicron", [3]float64{0.0000503, 0, 0}, [3]float64{0.00005, 0, 0}, [3]float64{0, 1, 0}),
		t("3mf-winding", [3]float64{1, 2, 3}, [3]float64{-4, 5.5, 6}, [3]float64{7, -8, 9.25}),
		l("svg", "batch", "svg-extent-not-in-first-segment", inside...),
		l("svg", "stream", "svg-extent-not-in-first-segment", inside...),
		l("dxf", "batch", "dxf-direction", [2][2]float64{{1, 2}, {-3, 4.5}}, [2][2]float64{{-3, 4.5}, {1, 2}}),
		l("dxf", "stream", "dxf-direction", [2][2]float64{{1, 2}, {-3, 4.5}}, [2][2]float64{{-3, 4.5}, {1, 2}}),
	}
}

func checkC15(c *Ctx) {
	c.Rule("cases = pinned witnesses + passes over the grid {3mf/stream, dxf/batch, dxf/stream, svg/batch, svg/stream} x length class " +
		"{0,1,2,127,128,129,255,256,257,~1000,3..60} x coordinate class {unit, grid, negative, tiny 1e-6, large 1e6 (incl. around 2147.48), " +
		"collide (neighbours below the format's last digit / next to rounding ties), mixed, late-extent (first item inside the extent)}; " +
		"items share vertices, repeat, appear reversed and degenerate; streaming cases are fed in PRNG batches incl. empty ones and sizes " +
		"around the 256/128 buffer thresholds. A case is non-trivial once its file was written by the library, read back by the independent " +
		"reader and every item compared; distinct = (format, path kind, length class, coordinate class).")
	c.Assume("go3mf decoder, yofu/dxf parser and encoding/xml read what is in the file; the decimal text precision (3MF 4, DXF 16, SVG 2 decimals) is the encoder dependency's and is accepted as the format's precision; on an exact decimal tie either neighbour is accepted")
	c.Assume("SVG style strings are plain CSS declarations (no '=' and no XML special characters); for ToSVG only 'one non-empty style shared by all lines' is demanded")
	if msg := c15SelfTest(c); msg != "" {
		c.Inconclusive("oracle self-test failed: " + msg)
		return
	}

	// case list: pure function of seed and tier
	cases := c15Pinned()
	passes := c.Pick(1, 20)
	for p := 0; p < passes; p++ {
		for _, combo := range c15Combos {
			for _, lc := range c15Lens {
				for _, cc := range c15Coords {
					cases = append(cases, &c15Case{Format: combo[0], Path: combo[1], LenCls: lc, Coord: cc})
				}
			}
		}
	}
	for i, cs := range cases {
		cs.Idx = i
		if cs.Pinned != "" {
			cs.LenCls = len(cs.pts)
			continue
		}
		r := c.Rng("case-gen", i)
		n := cs.LenCls
		switch n {
		case -1:
			n = r.IR(3, 60)
		case 1000:
			n = r.IR(900, 1100)
		}
		k, dim := 2, 2
		if cs.Format == "3mf" {
			k, dim = 3, 3
		}
		cs.pts = c15Gen(r, n, k, dim, cs.Coord, c15Res(cs.Format))
	}

	// The To* functions print "rendering ..." per call: keep the library's
	// stdout in a scratch file while the workload runs, report afterwards.
	dir := scratch()
	logPath := filepath.Join(dir, "c15-library-stdout.log")
	logF, err := os.Create(logPath)
	if err != nil {
		c.Inconclusive("scratch: " + err.Error())
		return
	}
	realStdout := os.Stdout
	os.Stdout = logF
	st := &c15Stats{files: map[string]int64{}, items: map[string]int64{}}
	fails := make([]*c15Fail, len(cases))
	parallelFor(len(cases), func(i int) {
		cs := cases[i]
		func() {
			defer func() {
				if p := recover(); p != nil {
					fails[i] = &c15Fail{"", "panic", fmt.Sprint(p), -1}
				}
			}()
			fails[i] = c15Run(c, cs, dir, st)
		}()
		c.Eval(1)
		st.mu.Lock()
		st.files[cs.Format+"/"+cs.Path]++
		st.items[cs.Format+"/"+cs.Path] += int64(len(cs.pts))
		st.mu.Unlock()
		if fails[i] == nil || fails[i].key != "" {
			c.Distinct(fmt.Sprintf("%s/%s/len%d/%s", cs.Format, cs.Path, cs.LenCls, cs.Coord))
		}
	})
	c15DXFObject(c, dir)
	// some of the cases once more with the process temp directory somewhere awkward (see withTmpdirVariants)
	withTmpdirVariants(c, func(tag string) {
		m := len(cases)
		if m > 150 {
			m = 150
		}
		extra := make([]*c15Fail, m)
		parallelFor(m, func(i int) {
			func() {
				defer func() {
					if p := recover(); p != nil {
						extra[i] = &c15Fail{"", "panic", fmt.Sprint(p), -1}
					}
				}()
				extra[i] = c15Run(c, cases[i*(len(cases)/m)], dir, st)
			}()
			c.Eval(1)
		})
		for i, f := range extra {
			if f != nil && fails[i*(len(cases)/m)] == nil {
				f.detail += " [" + tag + "]"
				fails[i*(len(cases)/m)] = f
			}
		}
	})
	os.Stdout = realStdout
	logF.Close()

	for i, f := range fails {
		if f == nil {
			continue
		}
		cs := cases[i]
		rp := map[string]any{"case": cs, "failure": f.kind, "detail": f.detail, "items": len(cs.pts),
			"regenerate": "case list is a pure function of (seed, tier): stream case-gen/<index>, batches from case-run/<index>"}
		if len(cs.pts) <= 8 {
			rp["input"] = cs.pts
		} else if f.item >= 0 {
			rp["failing_item"] = cs.pts[f.item]
		}
		c.Count("failures/"+f.kind, 1)
		c.Violate(f.key, fmt.Sprintf("%s %s/%s n=%d coords=%s%s: %s", f.kind, cs.Format, cs.Path, len(cs.pts), cs.Coord, cs.Pinned, f.detail), rp)
	}

	// evidence
	var keys []string
	for k := range st.files {
		keys = append(keys, k)
	}
	sort.Strings(keys)
	for _, k := range keys {
		c.Count("files_read_back/"+k, st.files[k])
		c.Count("items_compared/"+k, st.items[k])
	}
	c.Obs("3mf_corners", st.corners)
	c.Obs("3mf_vertex_table_entries", st.table)
	c.Obs("3mf_distinct_float32_triples", st.distinct32)
	c.Obs("3mf_distinct_decoded_vertices", st.distinctRounded)
	if st.corners > 0 {
		c.Obs("3mf_dedup_ratio_table_over_corners", float64(st.table)/float64(st.corners))
	}
	c.Obs("3mf_files_fully_checked", st.meshFiles)
	c.Obs("3mf_files_with_first_appearance_vertex_order", st.firstOrder)
	c.Obs("3mf_strict_float32_dedup_demanded", c15StrictDedup)
	c.Obs("dxf_coordinates_bit_exact", st.dxfBitExact)
	c.Obs("dxf_coordinates_rounded_at_16_decimals", st.dxfRounded)
	c.Obs("svg_worst_|text-exact|_in_half_units_of_last_digit", st.svgWorst)
	if b, err := os.ReadFile(logPath); err == nil {
		other := []string{}
		nr := 0
		for _, ln := range strings.Split(string(b), "\n") {
			if strings.HasPrefix(ln, "rendering ") {
				nr++
			} else if ln != "" && len(other) < 5 {
				other = append(other, ln)
			}
		}
		c.Obs("library_stdout_rendering_lines", nr)
		c.Obs("library_stdout_other_lines_sample", other)
	}
	for _, cs := range cases[:4] {
		c.Sample(map[string]any{"case": cs, "input": cs.pts, "verdict": map[bool]string{true: "matches", false: "differs"}[fails[cs.Idx] == nil]})
	}
	c.Floor(c.Pick(400, 430))
}
