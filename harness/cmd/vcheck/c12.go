//go:build verif

// C12 - rendering always returns and does not accumulate goroutines.
package main

import (
	"bytes"
	"fmt"
	"math"
	"os"
	"os/exec"
	"os/signal"
	"path/filepath"
	"runtime"
	"runtime/pprof"
	"strconv"
	"strings"
	"sync"
	"syscall"
	"time"
	"unsafe"

	"github.com/deadsy/sdfx/render"
	"github.com/deadsy/sdfx/sdf"
	v2 "github.com/deadsy/sdfx/vec/v2"
	v3 "github.com/deadsy/sdfx/vec/v3"
)

func init() {
	checks["C12"] = checkC12
	children["c12-render"] = childC12Render
	children["c12-census"] = childC12Census
}

// scripted renderers: emit n numbered items in batches of b, then Close.
type scriptR3 struct{ n, b int }

func (s scriptR3) Info(sdf.SDF3) string { return fmt.Sprintf("scripted %d", s.n) }
func (s scriptR3) Render(_ sdf.SDF3, out sdf.Triangle3Writer) {
	for i := 0; i < s.n; i += s.b {
		var ts []*sdf.Triangle3
		for j := i; j < i+s.b && j < s.n; j++ {
			f := float64(j)
			ts = append(ts, &sdf.Triangle3{{X: f}, {X: f, Y: 1}, {X: f, Z: 1}})
		}
		out.Write(ts)
	}
	out.Close()
}

// scripted renderers whose geometry is not finite: every 7th item has a NaN, +Inf or -Inf coordinate (what a blend that
// overflows far from the surface, or a division by zero in a user shape, hands to the sinks). The call has to return.
type scriptNaN3 struct{ n, b int }

func (s scriptNaN3) Info(sdf.SDF3) string { return fmt.Sprintf("scripted-nan %d", s.n) }
func (s scriptNaN3) Render(_ sdf.SDF3, out sdf.Triangle3Writer) {
	bad := []float64{math.NaN(), math.Inf(1), math.Inf(-1), math.MaxFloat64, -math.MaxFloat64}
	for i := 0; i < s.n; i += s.b {
		var ts []*sdf.Triangle3
		for j := i; j < i+s.b && j < s.n; j++ {
			f := float64(j)
			t := &sdf.Triangle3{{X: f}, {X: f, Y: 1}, {X: f, Z: 1}}
			if j%7 == 3 {
				t[j%3].Y = bad[(j/7)%len(bad)]
			}
			ts = append(ts, t)
		}
		out.Write(ts)
	}
	out.Close()
}

type scriptNaN2 struct{ n, b int }

func (s scriptNaN2) Info(sdf.SDF2) string { return fmt.Sprintf("scripted-nan %d", s.n) }
func (s scriptNaN2) Render(_ sdf.SDF2, out sdf.Line2Writer) {
	bad := []float64{math.NaN(), math.Inf(1), math.Inf(-1), math.MaxFloat64, -math.MaxFloat64}
	for i := 0; i < s.n; i += s.b {
		var ls []*sdf.Line2
		for j := i; j < i+s.b && j < s.n; j++ {
			f := float64(j)
			l := &sdf.Line2{{X: f}, {X: f, Y: 1}}
			if j%7 == 3 {
				l[j%2].Y = bad[(j/7)%len(bad)]
			}
			ls = append(ls, l)
		}
		out.Write(ls)
	}
	out.Close()
}

// scripted renderers that put several parts into one output: after each part the writer is Closed (as every stock renderer
// does at the end of its Render), then the next part is written through the same writer.
type scriptParts3 struct{ n, b int }

func (s scriptParts3) Info(sdf.SDF3) string { return fmt.Sprintf("scripted-parts %d", s.n) }
func (s scriptParts3) Render(_ sdf.SDF3, out sdf.Triangle3Writer) {
	for i := 0; i < s.n; i += s.b {
		var ts []*sdf.Triangle3
		for j := i; j < i+s.b && j < s.n; j++ {
			f := float64(j)
			ts = append(ts, &sdf.Triangle3{{X: f}, {X: f, Y: 1}, {X: f, Z: 1}})
		}
		out.Write(ts)
		if (i/s.b)%3 == 2 {
			out.Close()
		}
	}
	out.Close()
}

type scriptParts2 struct{ n, b int }

func (s scriptParts2) Info(sdf.SDF2) string { return fmt.Sprintf("scripted-parts %d", s.n) }
func (s scriptParts2) Render(_ sdf.SDF2, out sdf.Line2Writer) {
	for i := 0; i < s.n; i += s.b {
		var ls []*sdf.Line2
		for j := i; j < i+s.b && j < s.n; j++ {
			f := float64(j)
			ls = append(ls, &sdf.Line2{{X: f}, {X: f, Y: 1}})
		}
		out.Write(ls)
		if (i/s.b)%3 == 2 {
			out.Close()
		}
	}
	out.Close()
}

type scriptR2 struct{ n, b int }

func (s scriptR2) Info(sdf.SDF2) string { return fmt.Sprintf("scripted %d", s.n) }
func (s scriptR2) Render(_ sdf.SDF2, out sdf.Line2Writer) {
	for i := 0; i < s.n; i += s.b {
		var ls []*sdf.Line2
		for j := i; j < i+s.b && j < s.n; j++ {
			f := float64(j)
			ls = append(ls, &sdf.Line2{{X: f}, {X: f, Y: 1}})
		}
		out.Write(ls)
	}
	out.Close()
}

func c12Shape3() sdf.SDF3 {
	a, _ := sdf.Sphere3D(1)
	b, _ := sdf.Box3D(v3.Vec{X: 1.2, Y: 1.2, Z: 1.2}, 0.1)
	return sdf.Union3D(a, sdf.Transform3D(b, sdf.Translate3d(v3.Vec{X: 0.8})))
}

func c12Shape2() sdf.SDF2 {
	a, _ := sdf.Circle2D(1)
	return sdf.Union2D(a, sdf.Transform2D(sdf.Box2D(v2.Vec{X: 1, Y: 1}, 0.1), sdf.Translate2d(v2.Vec{X: 0.9})))
}

func c12Render3(name string, size int) render.Render3 {
	switch name {
	case "uniform":
		return render.NewMarchingCubesUniform(size)
	case "octree":
		return render.NewMarchingCubesOctree(size)
	}
	if name == "scripted-nan" {
		return scriptNaN3{size, 37}
	}
	if name == "scripted-parts" {
		return scriptParts3{size, 37}
	}
	return scriptR3{size, 37}
}

func c12Render2(name string, size int) render.Render2 {
	switch name {
	case "uniform":
		return render.NewMarchingSquaresUniform(size)
	case "quadtree":
		return render.NewMarchingSquaresQuadtree(size)
	}
	if name == "scripted-nan" {
		return scriptNaN2{size, 37}
	}
	if name == "scripted-parts" {
		return scriptParts2{size, 37}
	}
	return scriptR2{size, 37}
}

func c12Call(sink, rname, path string, size int) {
	switch sink {
	case "stl":
		render.ToSTL(c12Shape3(), path, c12Render3(rname, size))
	case "3mf":
		render.To3MF(c12Shape3(), path, c12Render3(rname, size))
	case "dxf":
		render.ToDXF(c12Shape2(), path, c12Render2(rname, size))
	case "svg":
		render.ToSVG(c12Shape2(), path, c12Render2(rname, size))
	}
}

// child: one render-to-file call on the main goroutine with no timers running, so that a caller blocked
// forever on the sink channel is reported by the Go runtime itself ("all goroutines are asleep").
// args: sink renderer path size fsizeLimit(-1 none)
const c12CPULimit = 40

// c12PinToOneCPU: restrict this process to one of its allowed CPUs and re-execute it, so that the Go runtime of the new
// image starts with NumCPU() == 1 (a single-cpu VM, a cpuset, taskset -c N).
func c12PinToOneCPU() { c12PinToCPUs(1) }

// c12PinToCPUs: the same for the first n allowed CPUs.
func c12PinToCPUs(n int) {
	var mask [32]uint64
	if _, _, e := syscall.RawSyscall(syscall.SYS_SCHED_GETAFFINITY, 0, uintptr(len(mask)*8), uintptr(unsafe.Pointer(&mask[0]))); e != 0 {
		fmt.Println("PIN-FAILED getaffinity", e)
		os.Exit(4)
	}
	var one [32]uint64
	done := false
	for i := range mask {
		for b := 0; b < 64 && n > 0; b++ {
			if mask[i]&(1<<uint(b)) != 0 {
				one[i] |= 1 << uint(b)
				done = true
				n--
			}
		}
	}
	if _, _, e := syscall.RawSyscall(syscall.SYS_SCHED_SETAFFINITY, 0, uintptr(len(one)*8), uintptr(unsafe.Pointer(&one[0]))); e != 0 || !done {
		fmt.Println("PIN-FAILED setaffinity", e)
		os.Exit(4)
	}
	var env []string
	for _, kv := range os.Environ() {
		if !strings.HasPrefix(kv, "C12_PIN=") {
			env = append(env, kv)
		}
	}
	env = append(env, "C12_PINNED=1")
	fmt.Println("PINNING")
	syscall.Exec(os.Args[0], os.Args, env)
	fmt.Println("PIN-FAILED exec")
	os.Exit(4)
}

func childC12Render(args []string) {
	if os.Getenv("C12_PIN") == "1" {
		c12PinToOneCPU()
	}
	if os.Getenv("C12_PINNED") == "1" {
		fmt.Println("NUMCPU", runtime.NumCPU())
	}
	sink, rname, path := args[0], args[1], args[2]
	size, _ := strconv.Atoi(args[3])
	limit, _ := strconv.ParseInt(args[4], 10, 64)
	if limit >= 0 {
		signal.Ignore(syscall.SIGXFSZ)
		lim := syscall.Rlimit{Cur: uint64(limit), Max: uint64(limit)}
		if err := syscall.Setrlimit(syscall.RLIMIT_FSIZE, &lim); err != nil {
			fmt.Println("SETRLIMIT-FAILED", err)
			os.Exit(4)
		}
	}
	// a call that neither returns nor blocks but spins is ended by the kernel after c12CPULimit seconds of CPU (the fault-free
	// renders of these sizes need well under a second); the parent reads the consumed CPU from the exit status
	cpu := syscall.Rlimit{Cur: c12CPULimit, Max: c12CPULimit + 5}
	syscall.Setrlimit(syscall.RLIMIT_CPU, &cpu)
	fmt.Println("CALLING", sink, rname, path, size, limit)
	c12Call(sink, rname, path, size)
	fmt.Println("\nRETURNED")
}

func sdfxGoroutines() int {
	var buf bytes.Buffer
	pprof.Lookup("goroutine").WriteTo(&buf, 2)
	n := 0
	for _, g := range strings.Split(buf.String(), "\n\n") {
		if strings.Contains(g, "github.com/deadsy/sdfx/") {
			n++
		}
	}
	return n
}

// settle waits until the sdfx goroutine count has been stable for several polls and returns it.
func settle() int {
	last, stable := -1, 0
	for i := 0; i < 400 && stable < 6; i++ {
		runtime.Gosched()
		time.Sleep(2 * time.Millisecond)
		n := sdfxGoroutines()
		if n == last {
			stable++
		} else {
			last, stable = n, 0
		}
	}
	return last
}

// child: K renders in one process, sdfx goroutine population after each. args: sink renderer dir size K
func childC12Census(args []string) {
	sink, rname, dir := args[0], args[1], args[2]
	size, _ := strconv.Atoi(args[3])
	K, _ := strconv.Atoi(args[4])
	var counts []string
	alt := strings.HasSuffix(rname, "-alt") // history alternating coarse and fine renders (differently sized work per render)
	rname = strings.TrimSuffix(rname, "-alt")
	unclean := strings.HasSuffix(rname, "-paths") // history of renders to the same files through paths that are not in clean form
	rname = strings.TrimSuffix(rname, "-paths")
	procs := strings.HasSuffix(rname, "-procs") // history in which GOMAXPROCS is lowered and raised between renders
	rname = strings.TrimSuffix(rname, "-procs")
	base := size
	for k := 1; k <= K; k++ {
		if procs {
			runtime.GOMAXPROCS([]int{1, 4, runtime.NumCPU(), 2}[k%4])
		}
		if alt {
			size = base
			if k%2 == 0 {
				size = base * 6
			}
			if k%5 == 0 {
				size = base * 3
			}
		}
		if sink == "mem" {
			if rname == "uniform" || rname == "octree" || rname == "scripted" {
				render.ToTriangles(c12Shape3(), c12Render3(rname, size))
			}
		} else {
			name := fmt.Sprintf("census-%s-%s-%d.%s", sink, rname, k%3, sink)
			path := filepath.Join(dir, name)
			if unclean {
				// the same few files again and again, spelled in ways filepath.Clean would change
				os.MkdirAll(filepath.Join(dir, "sub"), 0o755)
				path = []string{dir + "/./" + name, dir + "//" + name, dir + "/sub/../" + name, dir + "/" + name}[k%4]
			}
			c12Call(sink, rname, path, size)
		}
		counts = append(counts, strconv.Itoa(settle()))
	}
	fmt.Printf("\nCENSUS:%s\n", strings.Join(counts, ","))
}

type c12Fault struct {
	Sink, Renderer, Fault string
	Size                  int
	Limit                 int64
	Path                  string
}

func checkC12(c *Ctx) {
	c.Level("fault_enumeration")
	c.Rule("render-to-file calls (ToSTL/To3MF/ToDXF/ToSVG) x renderers {uniform, octree|quadtree, scripted} in child processes with an OS-level " +
		"fault: create failure (missing directory, path is a directory, read-only directory), /dev/full, RLIMIT_FSIZE=N for N at the header, " +
		"the first buffered flush, the n-th flush and the final flush/seek/rewrite; the call runs on the child's main goroutine with no timers so " +
		"a caller blocked on the sink channel is reported by the Go runtime as a deadlock (logical hang oracle, no clock). Plus a goroutine census " +
		"(sdfx frames, at quiescence) after each of K renders per sink/renderer in one process. Non-trivial fault = the write really failed " +
		"(error text in the child's output or file shorter than the fault-free file); distinct = (sink, renderer, fault point).")
	c.Assume("a watchdog expiry alone is inconclusive; a violation needs the runtime's deadlock report or a dump showing the caller in chan send")
	dir := scratch()
	os.MkdirAll(filepath.Join(dir, "rodir"), 0o555)
	os.MkdirAll(filepath.Join(dir, "isdir.stl"), 0o755)
	os.WriteFile(filepath.Join(dir, "plainfile"), []byte("x"), 0o644)
	for _, ext := range []string{"stl", "3mf", "dxf", "svg"} {
		os.Symlink(filepath.Join(dir, "build", "latest", "part."+ext), filepath.Join(dir, "dangling."+ext)) // target directory does not exist
		os.Symlink(filepath.Join(dir, "loop."+ext), filepath.Join(dir, "loop."+ext))
	}
	// fault-free sizes
	type combo struct {
		sink, r string
		size    int
	}
	combos := []combo{
		{"stl", "uniform", 12}, {"stl", "octree", 12}, {"stl", "scripted", 5000}, {"stl", "scripted", 1}, {"stl", "scripted", 300}, {"stl", "scripted", 40000},
		{"3mf", "uniform", 10}, {"3mf", "scripted", 600},
		{"dxf", "uniform", 20}, {"dxf", "quadtree", 20}, {"dxf", "scripted", 600},
		{"svg", "uniform", 20}, {"svg", "quadtree", 20}, {"svg", "scripted", 600},
		{"stl", "scripted-nan", 900}, {"3mf", "scripted-nan", 900}, {"dxf", "scripted-nan", 900}, {"svg", "scripted-nan", 900},
		{"stl", "scripted-parts", 1200}, {"3mf", "scripted-parts", 1200}, {"dxf", "scripted-parts", 1200}, {"svg", "scripted-parts", 1200},
	}
	var faults []c12Fault
	for ci, cb := range combos {
		ok := filepath.Join(dir, fmt.Sprintf("ok-%d.%s", ci, cb.sink))
		res := runChild("", "c12-render", []string{cb.sink, cb.r, ok, strconv.Itoa(cb.size), "-1"}, nil, 2*time.Minute)
		if !strings.Contains(res.Out, "RETURNED") {
			if strings.Contains(res.Out, "all goroutines are asleep - deadlock!") {
				c.Violate("", fmt.Sprintf("render-hangs To%s with %s renderer, no fault at all: the call never returns (deadlock): %s",
					strings.ToUpper(cb.sink), cb.r, lastLines(trimDump(res.Out), 6)), map[string]any{"combo": fmt.Sprint(cb), "child_output_tail": tailStr(res.Out, 3000)})
			} else if !res.TimedOut && res.Signaled && res.UserCPU+res.SysCPU >= (c12CPULimit-1)*time.Second {
				c.Violate("", fmt.Sprintf("render-hangs To%s with %s renderer, no fault at all: the call never returns (spinning): it consumed %d s of CPU and was ended by the CPU limit",
					strings.ToUpper(cb.sink), cb.r, c12CPULimit), map[string]any{"combo": fmt.Sprint(cb), "child_output_tail": tailStr(res.Out, 3000)})
			} else {
				c.Inconclusive(fmt.Sprintf("fault-free control %v did not return: %s", cb, lastLines(res.Out, 5)))
			}
			continue
		}
		st, err := os.Stat(ok)
		if err != nil {
			c.Inconclusive(fmt.Sprintf("fault-free control %v wrote no file", cb))
			continue
		}
		full := st.Size()
		c.Count("fault_free_controls", 1)
		// create failures and /dev/full
		for _, f := range []struct{ name, path string }{
			{"create-missing-dir", filepath.Join(dir, "no", "such", "dir", "x."+cb.sink)},
			{"create-path-is-directory", filepath.Join(dir, "isdir.stl")},
			{"create-readonly-dir", filepath.Join(dir, "rodir", "x."+cb.sink)},
			{"dev-full", "/dev/full"},
			{"create-dangling-symlink", filepath.Join(dir, "dangling."+cb.sink)},
			{"create-symlink-loop", filepath.Join(dir, "loop."+cb.sink)},
			{"create-below-a-regular-file", filepath.Join(dir, "plainfile", "x."+cb.sink)},
			{"create-name-too-long", filepath.Join(dir, strings.Repeat("n", 300)+"."+cb.sink)},
		} {
			faults = append(faults, c12Fault{cb.sink, cb.r, f.name, cb.size, -1, f.path})
		}
		// no fault at all, but the process may use a single CPU only (NumCPU() == 1)
		faults = append(faults, c12Fault{cb.sink, cb.r, "single-cpu", cb.size, -1, filepath.Join(dir, fmt.Sprintf("pinned-%d.%s", ci, cb.sink))})
		// file size limits
		lims := map[int64]bool{}
		for _, n := range []int64{0, 1, 83, 84, 85, 133, 134, 4095, 4096, 4097, 8192, full / 2, full - 1, full, full + 1000} {
			if n >= 0 {
				lims[n] = true
			}
		}
		if !c.Quick {
			for n := int64(0); n <= 400 && n < full; n += 7 {
				lims[n] = true
			}
			for n := int64(4096); n < full; n += 4096 {
				lims[n], lims[n-1], lims[n+1] = true, true, true
			}
			r := c.Rng("limits", ci)
			for k := 0; k < 60; k++ {
				lims[int64(r.I(int(full)+1))] = true
			}
		}
		if cb.size == 40000 { // large mesh: a limit inside every 2 KiB stretch of the file (periodic work of the writer)
			for n := int64(1); n < full; n += 2048 {
				lims[n] = true
			}
		}
		if cb.sink != "stl" && c.Quick { // the other sinks write at the end: a few limits suffice in the quick tier
			lims = map[int64]bool{0: true, 1: true, 4096: true, full / 2: true, full - 1: true}
		}
		for n := range lims {
			faults = append(faults, c12Fault{cb.sink, cb.r, fmt.Sprintf("fsize-limit=%d/%d", n, full), cb.size, n,
				filepath.Join(dir, fmt.Sprintf("lim-%d-%d.%s", ci, n, cb.sink))})
		}
	}
	// no fault at all, but a reader that stops taking data for a while: the file is a FIFO whose reader (another process) takes
	// 100 kB, pauses for 2 s and then drains the rest. Only the STL sink streams while the render runs.
	for _, rn := range []string{"uniform", "octree"} {
		faults = append(faults, c12Fault{"stl", rn, "slow-reader-pauses-2s", 60, -1, filepath.Join(dir, "fifo-"+rn+".stl")})
	}
	var mu sync.Mutex
	outcomes := map[string]int{}
	parallelFor(len(faults), func(i int) {
		f := faults[i]
		var env []string
		if f.Fault == "single-cpu" {
			env = []string{"C12_PIN=1"}
		}
		if strings.HasPrefix(f.Fault, "slow-reader") {
			if err := syscall.Mkfifo(f.Path, 0o644); err != nil {
				c.Count("slow_reader_runs_skipped_no_fifo", 1)
				return
			}
			rd := exec.Command("sh", "-c", `exec <"$0"; head -c 100000 >/dev/null; sleep 2; cat >/dev/null`, f.Path)
			if err := rd.Start(); err != nil {
				c.Count("slow_reader_runs_skipped_no_shell", 1)
				return
			}
			defer func() { rd.Process.Kill(); rd.Wait() }()
		}
		res := runChildPipe("", "c12-render", []string{f.Sink, f.Renderer, f.Path, strconv.Itoa(f.Size), strconv.FormatInt(f.Limit, 10)}, env, 3*time.Minute)
		if f.Fault == "single-cpu" {
			switch {
			case strings.Contains(res.Out, "PIN-FAILED"):
				c.Count("single_cpu_runs_skipped_affinity_not_settable", 1)
				return
			case strings.Contains(res.Out, "NUMCPU 1\n"):
				c.Count("single_cpu_runs", 1)
			}
		}
		c.Eval(1)
		if !strings.Contains(f.Fault, "symlink") {
			os.Remove(f.Path)
		}
		failed := strings.Contains(res.Out, "too many levels of symbolic links") || strings.Contains(res.Out, "not a directory") || strings.Contains(res.Out, "file name too long") || strings.Contains(res.Out, "file too large") || strings.Contains(res.Out, "no space left") ||
			strings.Contains(res.Out, "no such file") || strings.Contains(res.Out, "is a directory") || strings.Contains(res.Out, "permission denied") ||
			strings.Contains(res.Out, "File too large")
		var outcome string
		switch {
		case strings.Contains(res.Out, "RETURNED"):
			outcome = "returned"
		case strings.Contains(res.Out, "all goroutines are asleep - deadlock!"):
			outcome = "deadlock"
		case res.TimedOut && strings.Contains(res.Out, "chan send"):
			outcome = "blocked-in-chan-send"
		case !res.TimedOut && res.Signaled && res.UserCPU+res.SysCPU >= (c12CPULimit-1)*time.Second:
			outcome = "spins"
		case res.TimedOut:
			outcome = "watchdog"
		default:
			outcome = "crash"
		}
		mu.Lock()
		outcomes[f.Sink+"/"+outcome]++
		mu.Unlock()
		switch outcome {
		case "returned":
			if failed || f.Fault == "single-cpu" && strings.Contains(res.Out, "NUMCPU 1\n") || strings.HasPrefix(f.Fault, "slow-reader") {
				c.Distinct(fmt.Sprintf("%s/%s/%s", f.Sink, f.Renderer, f.Fault))
			} else {
				c.Count("no_fault_controls_limit_above_file_size", 1)
			}
		case "deadlock", "blocked-in-chan-send":
			c.Violate("", fmt.Sprintf("render-hangs To%s with %s renderer, fault %s: the call never returns (%s): %s",
				strings.ToUpper(f.Sink), f.Renderer, f.Fault, outcome, lastLines(trimDump(res.Out), 6)),
				map[string]any{"fault": f, "child_output_tail": tailStr(res.Out, 3000)})
		case "spins":
			c.Violate("", fmt.Sprintf("render-hangs To%s with %s renderer, fault %s: the call never returns (spinning): it consumed %d s of CPU, where the fault-free render needs under a second, and was ended by the CPU limit",
				strings.ToUpper(f.Sink), f.Renderer, f.Fault, c12CPULimit), map[string]any{"fault": f, "child_output_tail": tailStr(res.Out, 3000)})
		case "watchdog":
			c.Inconclusive(fmt.Sprintf("watchdog expired for %v", f))
		default:
			c.Violate("", fmt.Sprintf("render-crashes To%s with %s renderer, fault %s: exit=%d: %s", strings.ToUpper(f.Sink), f.Renderer, f.Fault, res.Exit, lastLines(res.Out, 6)),
				map[string]any{"fault": f, "child_output_tail": tailStr(res.Out, 3000)})
		}
		if i%41 == 0 {
			c.Sample(map[string]any{"fault": f, "outcome": outcome, "write_failed": failed})
		}
	})
	c.Obs("outcomes", outcomes)

	// goroutine census
	K := c.Pick(30, 200)
	type cen struct {
		sink, r string
		size    int
	}
	cens := []cen{{"mem", "uniform", 8}, {"mem", "octree", 8}, {"mem", "uniform-alt", 6}, {"stl", "uniform-alt", 5}, {"mem", "octree-alt", 6}, {"dxf", "uniform-alt", 10}, {"stl", "uniform", 8}, {"stl", "octree", 8}, {"stl", "scripted", 600},
		{"mem", "uniform-procs", 6}, {"stl", "uniform-procs", 5}, {"stl", "uniform-paths", 5}, {"3mf", "octree-paths", 6}, {"dxf", "uniform-paths", 10}, {"svg", "quadtree-paths", 10}, {"3mf", "uniform", 6}, {"dxf", "uniform", 12}, {"dxf", "quadtree", 12}, {"svg", "uniform", 12}, {"svg", "quadtree", 12}}
	census := map[string]string{}
	parallelFor(len(cens), func(i int) {
		e := cens[i]
		res := runChild("", "c12-census", []string{e.sink, e.r, dir, strconv.Itoa(e.size), strconv.Itoa(K)}, nil, 10*time.Minute)
		var counts []int
		jsonLines(res.Out, "CENSUS:", func(raw []byte) {
			for _, s := range strings.Split(string(raw), ",") {
				n, _ := strconv.Atoi(strings.TrimSpace(s))
				counts = append(counts, n)
			}
		})
		c.Eval(K)
		if len(counts) != K {
			if res.TimedOut {
				c.Inconclusive(fmt.Sprintf("census %v: watchdog", e))
			} else {
				c.Violate("", fmt.Sprintf("census-crash %v: %s", e, lastLines(res.Out, 6)), map[string]any{"census": e, "tail": tailStr(res.Out, 3000)})
			}
			return
		}
		mu.Lock()
		census[fmt.Sprintf("%s/%s", e.sink, e.r)] = fmt.Sprintf("after 1,5,%d renders: %d,%d,%d", K, counts[0], counts[4], counts[K-1])
		mu.Unlock()
		c.Distinct(fmt.Sprintf("census/%s/%s", e.sink, e.r))
		if counts[K-1] > counts[4] {
			c.Violate("", fmt.Sprintf("goroutine-growth %s/%s: sdfx goroutines alive after k renders: k=1:%d k=5:%d k=%d:%d (grows with k)",
				e.sink, e.r, counts[0], counts[4], K, counts[K-1]), map[string]any{"census": e, "counts": counts})
		}
	})
	c.Obs("sdfx_goroutines_at_quiescence", census)
	c.Floor(c.Pick(60, 400))
}

func tailStr(s string, n int) string {
	if len(s) > n {
		return s[len(s)-n:]
	}
	return s
}

// trimDump keeps the head of a runtime report (the goroutine list can be long).
func trimDump(s string) string {
	if i := strings.Index(s, "fatal error:"); i >= 0 {
		s = s[i:]
		if len(s) > 1500 {
			s = s[:1500]
		}
	}
	return s
}
