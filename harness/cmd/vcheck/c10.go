//go:build verif

// C10 - shapes may be evaluated concurrently.
package main

import (
	"fmt"
	"github.com/deadsy/sdfx/vec/v2i"
	"github.com/deadsy/sdfx/vec/v3i"
	"math"
	"runtime"
	"sync"
	"sync/atomic"
	"time"

	"github.com/deadsy/sdfx/render"
	"github.com/deadsy/sdfx/sdf"
	v2 "github.com/deadsy/sdfx/vec/v2"
	v3 "github.com/deadsy/sdfx/vec/v3"
)

func init() {
	checks["C10"] = checkC10
	shardFns["c10"] = shardC10
}

func checkC10(c *Ctx) {
	c.Rule("every catalogued constructor (sdf/ and obj/, incl. cache, voxel, mesh-import, text, screws) and random expression trees " +
		"(2D trees contain Cache2D wrappers): sequential baseline on a point set, then NumCPU goroutines evaluate the same points in " +
		"different PRNG orders with repeats (cache hits and misses interleave); every concurrent value is compared bitwise with the " +
		"baseline; each shape is then rendered with NewMarchingCubesUniform (2D shapes through an extrusion). Runs in race-instrumented " +
		"child processes; race reports are counted by report blocks and de-duplicated by the racing sdfx functions. Non-trivial = shape " +
		"whose concurrent phase really overlapped (in-flight Evaluate calls > 1 observed); distinct = shape description.")
	c.Assume("the race detector only sees accesses that executed; a report with an sdfx frame in a racing stack is a violation wherever it is")
	nshards := c.Pick(24, 96)
	c.runSharded("c10", nshards, 16, true, 40*time.Minute)
	c.Floor(c.Pick(100, 1500))
}

type c10Job struct {
	desc string
	s2   sdf.SDF2
	s3   sdf.SDF3
}

// c10Gated is a shape some of whose operands are behind a gate (see c10Gate); it evaluates as the shape does.
type c10Gated struct {
	sdf.SDF2
	gate *c10Gate
}

// c10Gate makes "many goroutines inside the same combinator at the same moment" a certainty instead of a matter of
// scheduling: while armed, every Evaluate passing through a gated operand waits (at most 2 ms) until `need` callers are inside.
type c10Gate struct {
	need   atomic.Int32
	inside atomic.Int32
}

type gatedSDF2 struct {
	s sdf.SDF2
	g *c10Gate
}

func (w *gatedSDF2) BoundingBox() sdf.Box2 { return w.s.BoundingBox() }
func (w *gatedSDF2) Evaluate(p v2.Vec) float64 {
	if need := w.g.need.Load(); need > 0 {
		w.g.inside.Add(1)
		for t0 := time.Now(); w.g.inside.Load() < w.g.need.Load() && time.Since(t0) < 2*time.Millisecond; {
			runtime.Gosched()
		}
		v := w.s.Evaluate(p)
		w.g.inside.Add(-1)
		return v
	}
	return w.s.Evaluate(p)
}

func shardC10(c *Ctx, shard, nshards int) {
	nTrees := c.Pick(260, 4000)
	perEntry := c.Pick(2, 20)
	nPts := c.Pick(600, 3000)
	reps := c.Pick(3, 12)
	caseNo := 0
	mine := func() bool { caseNo++; return (caseNo-1)%nshards == shard }
	run := func(j c10Job, heavy bool) {
		fmt.Printf("SHAPE %s\n", j.desc) // announced before it runs: a fatal runtime error is attributable
		pts := nPts
		if heavy {
			pts = nPts / 10
		}
		c10Hammer(c, j, pts, reps)
	}
	for i := 0; i < nTrees; i++ {
		if !mine() {
			continue
		}
		r := c.Rng("tree", i)
		scale := r.LogR(0.1, 50)
		var n *node
		if i%2 == 0 {
			n = gen2(r, r.IR(1, 3), scale, genOpts{})
			if i%4 == 0 { // make sure the memoising wrapper is hit hard: cache at the root
				k := n
				n = wrap2("cache", "Cache2D", sdf.Cache2D(k.s2), func(p v2.Vec) []float64 { return k.ref2(p) }, k)
			}
		} else {
			n = gen3(r, r.IR(1, 3), scale, genOpts{})
		}
		if n == nil {
			continue
		}
		run(c10Job{n.desc, n.s2, n.s3}, false)
	}
	// wide combinators: many operands (per-operand scratch state only matters beyond small operand counts)
	for i := 0; i < c.Pick(12, 120); i++ {
		if !mine() {
			continue
		}
		r := c.Rng("wide", i)
		scale := r.LogR(0.1, 20)
		k := r.IR(17, 60)
		leaf := leaf2(r, scale)
		switch i % 3 {
		case 0:
			ps := make(v2.VecSet, k)
			for j := range ps {
				ps[j] = v2.Vec{X: r.R(-8, 8) * scale, Y: r.R(-8, 8) * scale}
			}
			run(c10Job{fmt.Sprintf("Multi2D[%d positions](%s)", k, leaf.desc), sdf.Multi2D(leaf.s2, ps), nil}, false)
		case 1:
			var ops []sdf.SDF2
			for j := 0; j < k; j++ {
				l := leaf2(r, scale)
				m, _ := rigid2(r, 4*scale)
				ops = append(ops, sdf.Transform2D(l.s2, m))
			}
			run(c10Job{fmt.Sprintf("Union2D[%d different operands]", k), sdf.Union2D(ops...), nil}, false)
		default:
			var ops []sdf.SDF3
			for j := 0; j < k; j++ {
				l := leaf3(r, scale)
				m, _ := rigid3(r, 4*scale)
				ops = append(ops, sdf.Transform3D(l.s3, m))
			}
			run(c10Job{fmt.Sprintf("Union3D[%d different operands]", k), nil, sdf.Union3D(ops...)}, false)
		}
	}
	// every blend function the library offers, installed on unions / arrays / rotate-unions / differences / intersections of
	// parts from a tenth of a unit to hundreds of units (ExpMin leaves its representable range about 745/k from the surfaces)
	for i := 0; i < c.Pick(30, 300); i++ {
		if !mine() {
			continue
		}
		r := c.Rng("blendfn", i)
		scale := pickOne(r, []float64{0.1, 1, 10, 100, 300})
		k := pickOne(r, []float64{0.05, 0.3, 1, 8, 32})
		fname := []string{"PolyMin", "RoundMin", "ChamferMin", "ExpMin", "PowMin"}[i%5]
		mk := map[string]func() sdf.MinFunc{
			"PolyMin": func() sdf.MinFunc { return sdf.PolyMin(k * scale * 0.1) }, "RoundMin": func() sdf.MinFunc { return sdf.RoundMin(k * scale * 0.1) },
			"ChamferMin": func() sdf.MinFunc { return sdf.ChamferMin(k * scale * 0.1) }, "ExpMin": func() sdf.MinFunc { return sdf.ExpMin(k) }, "PowMin": func() sdf.MinFunc { return sdf.PowMin(k) }}[fname]
		a, b := leaf3(r, scale), leaf3(r, scale)
		bt := sdf.Transform3D(b.s3, sdf.Translate3d(v3.Vec{X: scale * r.R(0.3, 1.5), Y: scale * r.R(-1, 1)}))
		var s3 sdf.SDF3
		var s2 sdf.SDF2
		var kind string
		switch (i / 5) % 6 {
		case 0:
			u := sdf.Union3D(a.s3, bt).(*sdf.UnionSDF3)
			u.SetMin(mk())
			s3, kind = u, "Union3D"
		case 1:
			u := sdf.Array3D(a.s3, v3i.Vec{X: 3, Y: 2, Z: 1}, v3.Vec{X: scale * 1.3, Y: scale * 1.1, Z: scale}).(*sdf.ArraySDF3)
			u.SetMin(mk())
			s3, kind = u, "Array3D"
		case 2:
			u := sdf.RotateUnion3D(sdf.Transform3D(a.s3, sdf.Translate3d(v3.Vec{X: scale})), 5, sdf.RotateZ(1.1)).(*sdf.RotateUnionSDF3)
			u.SetMin(mk())
			s3, kind = u, "RotateUnion3D"
		case 3:
			a2, b2 := leaf2(r, scale), leaf2(r, scale)
			u := sdf.Union2D(a2.s2, sdf.Transform2D(b2.s2, sdf.Translate2d(v2.Vec{X: scale * r.R(0.3, 1.5)}))).(*sdf.UnionSDF2)
			u.SetMin(mk())
			s2, kind = u, "Union2D"
		case 4:
			a2 := leaf2(r, scale)
			u := sdf.Array2D(a2.s2, v2i.Vec{X: 3, Y: 3}, v2.Vec{X: scale * 1.3, Y: scale * 1.2}).(*sdf.ArraySDF2)
			u.SetMin(mk())
			s2, kind = u, "Array2D"
		default:
			a2 := leaf2(r, scale)
			u := sdf.RotateUnion2D(sdf.Transform2D(a2.s2, sdf.Translate2d(v2.Vec{X: scale})), 6, sdf.Rotate2d(0.9)).(*sdf.RotateUnionSDF2)
			u.SetMin(mk())
			s2, kind = u, "RotateUnion2D"
		}
		run(c10Job{fmt.Sprintf("%s+%s(k=%g) of parts of size %g (%s ...)", kind, fname, k, scale, a.desc), s2, s3}, false)
	}
	// unions with operands whose field is not a distance (non-uniform scale): whatever shortcut the union takes, it has to take
	// the same one for a point no matter how many goroutines are inside it
	for i := 0; i < c.Pick(12, 120); i++ {
		if !mine() {
			continue
		}
		r := c.Rng("nondist-union", i)
		scale := r.LogR(0.1, 20)
		n := r.IR(2, 6)
		var ops []sdf.SDF2
		for j := 0; j < n; j++ {
			l := leaf2(r, scale)
			m := sdf.Translate2d(v2.Vec{X: r.R(-6, 6) * scale, Y: r.R(-6, 6) * scale}).Mul(sdf.Rotate2d(r.R(0, 6.28)))
			if r.P(0.6) {
				m = m.Mul(sdf.Scale2d(v2.Vec{X: r.LogR(0.25, 4), Y: r.LogR(0.25, 4)}))
			}
			ops = append(ops, sdf.Transform2D(l.s2, m))
		}
		var gate *c10Gate
		if i%2 == 0 { // every operand behind one gate: all callers are inside the union at the same time
			gate = &c10Gate{}
			for j := range ops {
				ops[j] = &gatedSDF2{ops[j], gate}
			}
		}
		var u sdf.SDF2 = sdf.Union2D(ops...)
		if gate != nil {
			u = &c10Gated{u, gate}
		}
		run(c10Job{fmt.Sprintf("Union2D[%d operands, some scaled non-uniformly, gated=%v]", n, gate != nil), u, nil}, false)
	}
	// shared sub-expressions: one cached profile object used twice in a model, once directly and once through a second
	// Cache2D around it (a helper that caches whatever it is given)
	for i := 0; i < c.Pick(9, 90); i++ {
		if !mine() {
			continue
		}
		r := c.Rng("dag", i)
		scale := r.LogR(0.1, 20)
		leaf := leaf2(r, scale)
		a := sdf.Cache2D(leaf.s2)
		b := sdf.Cache2D(a)
		mv := sdf.Translate2d(v2.Vec{X: r.R(-1, 1) * scale, Y: r.R(-1, 1) * scale}).Mul(sdf.Rotate2d(r.R(0, 6.28)))
		switch i % 3 {
		case 0:
			run(c10Job{fmt.Sprintf("Union2D(c=Cache2D(%s), Transform2D(Cache2D(c)))", leaf.desc), sdf.Union2D(a, sdf.Transform2D(b, mv)), nil}, false)
		case 1:
			h := scale * r.R(0.3, 2)
			m3 := sdf.Translate3d(v3.Vec{X: r.R(-1, 1) * scale, Y: r.R(-1, 1) * scale, Z: r.R(-1, 1) * scale})
			run(c10Job{fmt.Sprintf("Union3D(Extrude3D(c=Cache2D(%s)), Transform3D(Extrude3D(Cache2D(c))))", leaf.desc), nil,
				sdf.Union3D(sdf.Extrude3D(a, h), sdf.Transform3D(sdf.Extrude3D(b, h*r.R(0.5, 2)), m3))}, false)
		default:
			run(c10Job{fmt.Sprintf("Union2D(Cache2D(c=Cache2D(%s)), Transform2D(c), Transform2D(Cache2D(c)))", leaf.desc),
				sdf.Union2D(b, sdf.Transform2D(a, mv), sdf.Transform2D(sdf.Cache2D(a), mv.Mul(mv))), nil}, false)
		}
	}
	// long-lived memoising wrappers: one Cache2D that has already stored very many distinct points (a cached profile reused
	// by several fine renders) and is then read back concurrently - old and new points, hits and misses mixed
	fills := []int{70_000, 300_000, 1_200_000}
	if c.Pick(0, 1) == 1 {
		fills = append(fills, 2_300_000, 4_500_000)
	}
	for i, fill := range fills {
		if !mine() {
			continue
		}
		fmt.Printf("SHAPE long-lived Cache2D, %d stored points\n", fill)
		c10LongCache(c, i, fill)
	}
	for _, e := range catalog {
		for i := 0; i < perEntry; i++ {
			if !mine() {
				continue
			}
			sh, ok := e.Gen(c.Rng("catalog", e.Name, i))
			if !ok {
				continue
			}
			run(c10Job{sh.Desc, sh.S2, sh.S3}, e.Heavy)
		}
	}
}

func c10Hammer(c *Ctx, j c10Job, nPts, reps int) {
	r := c.Rng("pts", j.desc)
	W := runtime.NumCPU()
	if W < 4 {
		W = 4
	}
	var inflight, maxInflight int32
	track := func() func() {
		n := atomic.AddInt32(&inflight, 1)
		for {
			m := atomic.LoadInt32(&maxInflight)
			if n <= m || atomic.CompareAndSwapInt32(&maxInflight, m, n) {
				break
			}
		}
		return func() { atomic.AddInt32(&inflight, -1) }
	}
	var eval func(i int) float64
	if j.s3 != nil {
		bb := j.s3.BoundingBox()
		pts := make([]v3.Vec, nPts)
		for i := range pts {
			pts[i] = samplePoint3(r, bb, nil)
			if i > 0 && r.P(0.3) {
				pts[i] = pts[r.I(i)] // repeats
			}
		}
		eval = func(i int) float64 { return j.s3.Evaluate(pts[i]) }
	} else {
		bb := j.s2.BoundingBox()
		pts := make([]v2.Vec, nPts)
		for i := range pts {
			pts[i] = samplePoint2(r, bb, nil)
			if i > 0 && r.P(0.3) {
				pts[i] = pts[r.I(i)]
			}
		}
		eval = func(i int) float64 { return j.s2.Evaluate(pts[i]) }
	}
	base := make([]float64, nPts)
	for i := range base {
		base[i] = eval(i)
	}
	var mu sync.Mutex
	mismatch := 0
	var firstI int
	var firstGot float64
	for rep := 0; rep < reps; rep++ {
		var wg sync.WaitGroup
		// every other repetition uses more goroutines than CPUs (a pool sized to the CPU count runs dry)
		W := W
		if rep%2 == 1 {
			W = 2*W + 3
		}
		gated, _ := j.s2.(*c10Gated)
		if gated != nil {
			gated.gate.need.Store(int32(W))
		}
		for w := 0; w < W; w++ {
			wg.Add(1)
			order := c.Rng("order", j.desc, rep, w).Perm(nPts)
			go func(order []int) {
				defer wg.Done()
				if gated != nil {
					defer gated.gate.need.Add(-1) // a caller that has finished is not waited for by the others
				}
				for _, i := range order {
					done := track()
					v := eval(i)
					done()
					if math.Float64bits(v) != math.Float64bits(base[i]) && !(math.IsNaN(v) && math.IsNaN(base[i])) {
						mu.Lock()
						if mismatch == 0 {
							firstI, firstGot = i, v
						}
						mismatch++
						mu.Unlock()
					}
				}
			}(order)
		}
		wg.Wait()
		if gated != nil {
			gated.gate.need.Store(0)
		}
	}
	c.Eval(nPts * reps * W)
	if mismatch > 0 {
		c.Violate("", fmt.Sprintf("concurrent-value-differs %s: %d concurrent evaluations differ from the sequential baseline (point #%d: %g vs %g)", j.desc, mismatch, firstI, firstGot, base[firstI]),
			map[string]any{"shape": j.desc, "point_index": firstI})
	}
	// the parallel renderer itself
	var s3 sdf.SDF3 = j.s3
	if s3 == nil {
		bb := j.s2.BoundingBox()
		h := bb.Size().MaxComponent() * 0.2
		if h > 0 && !math.IsInf(h, 0) && !math.IsNaN(h) {
			s3 = sdf.Extrude3D(j.s2, h)
		}
	}
	if s3 != nil {
		sz := s3.BoundingBox().Size()
		if sz.MinComponent() > 0 && !math.IsInf(sz.MaxComponent(), 0) && !math.IsNaN(sz.MaxComponent()) {
			ts1 := render.ToTriangles(s3, render.NewMarchingCubesUniform(14))
			ts2 := render.ToTriangles(s3, render.NewMarchingCubesUniform(14))
			if len(ts1) != len(ts2) {
				c.Violate("", fmt.Sprintf("concurrent-render-differs %s: two parallel renders gave %d and %d triangles", j.desc, len(ts1), len(ts2)), map[string]any{"shape": j.desc})
			}
			// the same shape rendered by two renders at once (two parts of an assembly meshed in parallel): twice NumCPU
			// workers evaluate it, at two resolutions
			var ta, tb []*sdf.Triangle3
			var wg sync.WaitGroup
			wg.Add(2)
			go func() { defer wg.Done(); ta = render.ToTriangles(s3, render.NewMarchingCubesUniform(14)) }()
			go func() { defer wg.Done(); tb = render.ToTriangles(s3, render.NewMarchingCubesUniform(19)) }()
			wg.Wait()
			tb0 := render.ToTriangles(s3, render.NewMarchingCubesUniform(19))
			if len(ta) != len(ts1) || len(tb) != len(tb0) {
				c.Violate("", fmt.Sprintf("concurrent-render-differs %s: renders overlapping in time gave %d / %d triangles, the same renders alone %d / %d", j.desc, len(ta), len(tb), len(ts1), len(tb0)), map[string]any{"shape": j.desc})
			}
			c.Count("parallel_renders", 5)
		}
	}
	if maxInflight > 1 {
		c.Distinct(j.desc)
	}
	c.MaxObs("max_overlapping_evaluate_calls", float64(maxInflight))
	if len(j.desc) < 200 && c.Counter("samples_taken") < 3 {
		c.Count("samples_taken", 1)
		c.Sample(map[string]any{"shape": j.desc, "points": nPts, "goroutines": W, "repetitions": reps, "max_in_flight": maxInflight})
	}
}

// c10LongCache: fill one Cache2D with `fill` distinct points (concurrently, disjoint ranges), then let every goroutine read
// back points of every age in its own PRNG order, mixed with fresh points; every value must equal the wrapped shape's.
func c10LongCache(c *Ctx, idx, fill int) {
	r := c.Rng("longcache", idx)
	inner := leaf2(r, r.LogR(0.5, 5))
	cs := sdf.Cache2D(inner.s2)
	desc := fmt.Sprintf("Cache2D(%s) after %d stored points", inner.desc, fill)
	bb := inner.s2.BoundingBox()
	const row = 2048
	dx := bb.Size().X * 1.5 / row
	dy := bb.Size().Y * 1.5 / float64(fill/row+1)
	x0, y0 := bb.Min.X-0.25*bb.Size().X, bb.Min.Y-0.25*bb.Size().Y
	pt := func(i int) v2.Vec { return v2.Vec{X: x0 + float64(i%row)*dx, Y: y0 + float64(i/row)*dy} }
	W := runtime.NumCPU()
	if W < 4 {
		W = 4
	}
	var bad atomic.Int64
	var firstBad atomic.Int64
	firstBad.Store(-1)
	check := func(i int) {
		p := pt(i)
		if got, want := cs.Evaluate(p), inner.s2.Evaluate(p); math.Float64bits(got) != math.Float64bits(want) {
			bad.Add(1)
			firstBad.CompareAndSwap(-1, int64(i))
		}
	}
	var wg sync.WaitGroup
	for w := 0; w < W; w++ {
		wg.Add(1)
		go func(w int) {
			defer wg.Done()
			for i := w; i < fill; i += W {
				check(i)
			}
		}(w)
	}
	wg.Wait()
	reads := 60_000
	for w := 0; w < W; w++ {
		wg.Add(1)
		rw := c.Rng("longcache-read", idx, w)
		go func(rw *Rng) {
			defer wg.Done()
			for k := 0; k < reads; k++ {
				switch k % 4 {
				case 0: // the oldest points
					check(rw.I(fill/16 + 1))
				case 1: // any age
					check(rw.I(fill))
				case 2: // the newest
					check(fill - 1 - rw.I(fill/16+1))
				default: // fresh points: misses that store
					check(fill + rw.I(fill/8+1))
				}
			}
		}(rw)
	}
	wg.Wait()
	c.Eval(fill + reads*W)
	c.Distinct(desc)
	c.MaxObs("long_lived_cache_stored_points", float64(fill))
	c.Count("long_lived_cache_reads", int64(reads*W))
	if n := bad.Load(); n > 0 {
		c.Violate("", fmt.Sprintf("concurrent-value-differs %s: %d cached values differ from the wrapped shape's own value (first at point #%d)", desc, n, firstBad.Load()),
			map[string]any{"shape": desc, "point_index": firstBad.Load(), "stored_points": fill})
	}
}
