//go:build verif

// Sharded child workers: a check can split its case list over child
// processes (crash isolation, bounded goroutine/memory growth per process).
// The child runs the same monitor code on a sub-Ctx and prints its state as
// one JSON line; the parent merges counts and re-emits violations.
package main

import (
	"encoding/json"
	"fmt"
	"os"
	"runtime"
	"strconv"
	"strings"
	"sync"
	"syscall"
	"time"
)

var shardFns = map[string]func(c *Ctx, shard, nshards int){}

type shardViolation struct {
	Key     string          `json:"key"`
	Summary string          `json:"summary"`
	Replay  json.RawMessage `json:"replay"`
}

type shardState struct {
	Evals    int64              `json:"evals"`
	Distinct []string           `json:"distinct"`
	Samples  []json.RawMessage  `json:"samples"`
	Counters map[string]int64   `json:"counters"`
	MaxObs   map[string]float64 `json:"maxobs"`
	Obs      map[string]any     `json:"obs"`
	Viol     []shardViolation   `json:"viol"`
	Inconcl  []string           `json:"inconcl"`
}

func init() {
	children["shard"] = func(args []string) {
		// args: name prop tier seed shard nshards
		if len(args) < 6 {
			fmt.Fprintln(os.Stderr, "shard: bad args")
			os.Exit(3)
		}
		seed, _ := strconv.ParseUint(args[3], 10, 64)
		sh, _ := strconv.Atoi(args[4])
		n, _ := strconv.Atoi(args[5])
		fn, ok := shardFns[args[0]]
		if !ok {
			fmt.Fprintf(os.Stderr, "shard: unknown %q\n", args[0])
			os.Exit(3)
		}
		c := newCtx(args[1], args[2], seed)
		c.child = true
		startDeadlockWatch()
		// a workload that spins instead of blocking is ended by the kernel after a CPU budget far above what the unchanged tree
		// needs (quick shards use seconds to a few minutes of CPU); the parent reads the consumed CPU from the exit status
		lim := uint64(shardCPULimitQuick)
		if args[2] != "quick" {
			lim = shardCPULimitThorough
		}
		syscall.Setrlimit(syscall.RLIMIT_CPU, &syscall.Rlimit{Cur: lim, Max: lim + 5})
		fn(c, sh, n)
		c.dumpState()
	}
}

const exitChildDeadlock = 97
const shardCPULimitQuick, shardCPULimitThorough = 600, 6 * 3600 // seconds of CPU per shard child

// startDeadlockWatch: a logical hang verdict for workload children. When the process has burnt (next to) no CPU for 10 s
// and every goroutine other than the watcher is parked on a channel, select or lock, nothing can ever wake it: the child
// prints all stacks and exits with exitChildDeadlock. Goroutines that sleep or wait for I/O or a child process are not
// "parked", so waiting for something external never triggers it.
func startDeadlockWatch() {
	go func() {
		idle, last := 0, c14CPU()
		for {
			time.Sleep(500 * time.Millisecond)
			now := c14CPU()
			// "no CPU": less than 5 % of one core (a race-instrumented runtime keeps a little background activity going) - and every
			// goroutine parked at each of the last 20 looks
			if now-last < 25*time.Millisecond && c14AllBlocked() {
				idle++
			} else {
				idle = 0
			}
			last = now
			if idle >= 20 {
				buf := make([]byte, 1<<20)
				buf = buf[:runtime.Stack(buf, true)]
				fmt.Fprintf(realStdout, "\nDEADLOCK-IN-CHILD: no CPU consumed for 10 s and every goroutine is blocked on a channel or lock\n%s\n", buf)
				os.Exit(exitChildDeadlock)
			}
		}
	}()
}

// in child mode Violate only collects
func (c *Ctx) dumpState() {
	c.mu.Lock()
	defer c.mu.Unlock()
	st := shardState{Evals: c.evals, Counters: c.counters, MaxObs: map[string]float64{}, Obs: map[string]any{}, Inconcl: c.inconcl}
	for k := range c.distinct {
		st.Distinct = append(st.Distinct, k)
	}
	for _, s := range c.samples {
		b, _ := json.Marshal(s)
		st.Samples = append(st.Samples, b)
	}
	for k, v := range c.obs {
		if f, ok := v.(float64); ok {
			st.MaxObs[k] = f
		} else {
			st.Obs[k] = v
		}
	}
	st.Viol = c.childViol
	b, _ := json.Marshal(st)
	fmt.Fprintf(realStdout, "\nSTATE:%s\n", b)
}

// runSharded runs shardFns[name] in nshards child processes (at most `par`
// at a time) and merges their observations into c.
func (c *Ctx) runSharded(name string, nshards, par int, race bool, watchdog time.Duration) {
	c.runShardedBin(name, nshards, par, race, watchdog, "")
}

// runShardedBin: as runSharded, with an explicit binary (e.g. the same harness built for another architecture).
func (c *Ctx) runShardedBin(name string, nshards, par int, race bool, watchdog time.Duration, useBin string) {
	if par <= 0 {
		par = 16
	}
	bin := useBin
	if race {
		bin = raceBin()
		if bin == "" {
			c.Inconclusive("race-instrumented binary not available (VCHECK_RACE_BIN)")
			return
		}
	}
	sem := make(chan struct{}, par)
	var wg sync.WaitGroup
	for s := 0; s < nshards; s++ {
		wg.Add(1)
		sem <- struct{}{}
		go func(s int) {
			defer wg.Done()
			defer func() { <-sem }()
			args := []string{name, c.Prop, c.Tier, strconv.FormatUint(c.Seed, 10), strconv.Itoa(s), strconv.Itoa(nshards)}
			res := runChild(bin, "shard", args, nil, watchdog)
			c.mergeShard(name, s, nshards, res)
		}(s)
	}
	wg.Wait()
}

func (c *Ctx) mergeShard(name string, s, n int, res childResult) {
	// race-detector reports of the child (counted by report blocks, not by exit code)
	for _, rr := range parseRaces(res.Out) {
		c.Count("race_reports", int64(rr.Count))
		if c.raceJudge != nil {
			c.raceJudge(rr)
		} else if rr.Sdfx {
			c.Violate("", fmt.Sprintf("data-race %s (%d reports in shard %d)", rr.Key, rr.Count, s), map[string]any{"shard": name, "index": s, "report": rr.Block})
		} else {
			c.Inconclusive("race report without sdfx frames (harness code): " + rr.Key)
		}
	}
	var st *shardState
	jsonLines(res.Out, "STATE:", func(raw []byte) {
		var x shardState
		if err := json.Unmarshal(raw, &x); err == nil {
			st = &x
		}
	})
	if st == nil {
		tail := res.Out
		if len(tail) > 6000 {
			tail = tail[len(tail)-6000:]
		}
		if res.Exit == exitChildDeadlock && strings.Contains(res.Out, "DEADLOCK-IN-CHILD") {
			last := ""
			for _, l := range strings.Split(res.Out, "\n") {
				if strings.HasPrefix(l, "SHAPE ") || strings.HasPrefix(l, "CASE ") {
					last = l
				}
			}
			c.Violate("", fmt.Sprintf("child-deadlock shard=%s %d/%d: the workload stopped for good - no CPU for 10 s with every goroutine blocked on a channel or lock - during [%s]", name, s, n, last),
				map[string]any{"shard": name, "index": s, "of": n, "last_case": last, "log_tail": tail})
			return
		}
		if lim := map[bool]time.Duration{true: shardCPULimitQuick, false: shardCPULimitThorough}[c.Tier == "quick"] * time.Second; !res.TimedOut && res.Signaled && res.UserCPU+res.SysCPU >= lim-2*time.Second {
			last := ""
			for _, l := range strings.Split(res.Out, "\n") {
				if strings.HasPrefix(l, "SHAPE ") || strings.HasPrefix(l, "CASE ") {
					last = l
				}
			}
			c.Violate("", fmt.Sprintf("child-spin shard=%s %d/%d: the workload consumed %v of CPU without finishing (the unchanged tree needs a small fraction of that) and was ended by the CPU limit, during [%s]", name, s, n, lim, last),
				map[string]any{"shard": name, "index": s, "of": n, "last_case": last, "log_tail": tail})
			return
		}
		if res.TimedOut {
			c.Inconclusive(fmt.Sprintf("shard %s %d/%d: watchdog expired", name, s, n))
			fmt.Printf("shard %s %d/%d timed out; tail:\n%s\n", name, s, n, tail)
			return
		}
		// The child died inside the code under test (panic / fatal error): the
		// last announced case is in the log tail.
		c.Violate("", fmt.Sprintf("child-crash shard=%s %d/%d exit=%d: %s", name, s, n, res.Exit, lastLines(tail, 12)),
			map[string]any{"shard": name, "index": s, "of": n, "log_tail": tail})
		return
	}
	c.mu.Lock()
	c.evals += st.Evals
	for _, k := range st.Distinct {
		c.distinct[k] = struct{}{}
	}
	for _, smp := range st.Samples {
		if len(c.samples) < c.maxSamples {
			c.samples = append(c.samples, smp)
		}
	}
	for k, v := range st.Counters {
		c.counters[k] += v
	}
	for k, v := range st.MaxObs {
		if old, ok := c.obs[k].(float64); !ok || v > old {
			c.obs[k] = v
		}
	}
	for k, v := range st.Obs {
		c.obs[k] = v
	}
	c.inconcl = append(c.inconcl, st.Inconcl...)
	c.mu.Unlock()
	for _, v := range st.Viol {
		c.Violate(v.Key, v.Summary, v.Replay)
	}
}

func lastLines(s string, n int) string {
	ls := strings.Split(strings.TrimRight(s, "\n"), "\n")
	if len(ls) > n {
		ls = ls[len(ls)-n:]
	}
	return strings.Join(ls, " | ")
}
