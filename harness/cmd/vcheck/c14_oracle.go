//go:build verif

// C14 - input generators and the independent input classifier.
// Everything here is a pure function of (seed, index); parent and child
// regenerate the same bytes from the same index.
package main

import (
	"bytes"
	"compress/gzip"
	"encoding/binary"
	"fmt"
	"math"
	"os"
	"strconv"
	"strings"
	"unicode"
	"unicode/utf16"
)

//-----------------------------------------------------------------------------
// classifier (written from the STL format + property text, not from the loader)

type c14Class struct {
	Branch   string // "short" (<84 bytes), "binary" (size == 84+50*count), "ascii"
	Count    uint32 // header count field (if >= 84 bytes)
	NVertex  int    // ascii: number of well-formed "vertex x y z" lines before the first over-long line
	BadFloat bool   // ascii: a 4-field vertex line whose numbers do not parse comes before the end
}

const c14MaxLine = 64 * 1024 // bufio.Scanner default token limit

func c14Classify(data []byte) c14Class {
	if len(data) < 84 {
		return c14Class{Branch: "short"}
	}
	cnt := binary.LittleEndian.Uint32(data[80:84])
	if int64(len(data)) == 84+50*int64(cnt) {
		return c14Class{Branch: "binary", Count: cnt}
	}
	cl := c14Class{Branch: "ascii", Count: cnt}
	rest := data
	for len(rest) > 0 {
		var line []byte
		if k := bytes.IndexByte(rest, '\n'); k >= 0 {
			line, rest = rest[:k], rest[k+1:]
		} else {
			line, rest = rest, nil
		}
		if len(line) >= c14MaxLine { // a line reader with a 64 KiB token limit (line + newline must fit) gives up here
			break
		}
		f := strings.FieldsFunc(string(line), unicode.IsSpace)
		if len(f) == 4 && f[0] == "vertex" {
			ok := true
			for _, s := range f[1:] {
				if _, err := strconv.ParseFloat(s, 64); err != nil {
					ok = false
				}
			}
			if !ok {
				cl.BadFloat = true
				break
			}
			cl.NVertex++
		}
	}
	return cl
}

//-----------------------------------------------------------------------------
// building blocks

var c14FloatBits = []uint32{0, 0x80000000, 0x3f800000, 0xbf800000, 0x7fc00000, 0xffc00000, 0x7f800001, 0x7fffffff,
	0x7f800000, 0xff800000, 0x00000001, 0x007fffff, 0x7f7fffff, 0xff7fffff, 0x41200000, 0x20202020}

func c14F32(r *Rng) uint32 {
	switch r.I(4) {
	case 0:
		return pickOne(r, c14FloatBits)
	case 1:
		return uint32(r.U64())
	default:
		return math.Float32bits(float32(r.R(-100, 100)))
	}
}

// c14Bin builds a binary STL: 80 byte header, count, n triangle records.
func c14Bin(r *Rng, n int, count uint32, garbage bool) []byte {
	b := make([]byte, 84+50*n)
	hdr := pickOne(r, []string{"", "solid ascii-looking header", "Exported from verif", "\xef\xbb\xbfsolid"})
	copy(b, hdr)
	if r.P(0.2) {
		for i := 0; i < 80; i++ {
			b[i] = byte(r.U64())
		}
	}
	binary.LittleEndian.PutUint32(b[80:], count)
	for t := 0; t < n; t++ {
		rec := b[84+50*t : 84+50*t+50]
		for j := 0; j < 12; j++ {
			if garbage {
				binary.LittleEndian.PutUint32(rec[4*j:], uint32(r.U64()))
			} else {
				binary.LittleEndian.PutUint32(rec[4*j:], c14F32(r))
			}
		}
		if garbage || r.P(0.2) {
			binary.LittleEndian.PutUint16(rec[48:], uint16(r.U64()))
		}
	}
	return b
}

var c14BadCounts = []uint32{0, 1, 2, 0xFFFFFFFF, 0xFFFFFFFE, 0x7FFFFFFF, 0x80000000, 0x00FFFFFF, 0x01000000, 0x20202020, 0x0a0d0a0d, 1 << 20, 85899346 /* 50*c+84 wraps 2^32 */}

var c14NumTokens = []string{"0", "1", "-1", "1.5", "-0.25e1", "0.000000E+00", "1e308", "1e-320", "nan", "NaN", "-nan", "inf", "-inf", "+Inf", "Infinity",
	"1e999", "-1e999", "1e-999", "0x1p-2", "0x1.8p1", "-0X1P+3", "0x", "0x1", "1_000", "1,5", "--1", "1e", "1e+", ".", "+", "-", ".5", "5.", "1.2.3",
	"1f", "1d0", "١", "1\x00", "\x00", "9999999999999999999999999999999999999999", "0.1e-400", "1E400", "(1)", "1;", "'1'"}

var c14GoodNum = []string{"0", "1", "-1", "1.5", "0.955654E-01", "-0.118893E+02", "1e3", "+2", ".5", "1e-320", "nan", "inf", "0x1p-2"}

var c14Words = []string{"solid", "facet", "normal", "outer", "loop", "vertex", "endloop", "endfacet", "endsolid", "VERTEX", "vertex\x00", "vertexx", "vert", "color"}

var c14Spaces = []string{" ", "  ", "\t", " \t ", "\v", "\f", " ", " ", "\u0085", "\r"}

var c14EOL = []string{"\n", "\r\n", "\r", "\n\r", "\n\n", "\r\r\n"}

func c14Num(r *Rng, bad float64) string {
	if r.P(bad) {
		return pickOne(r, c14NumTokens)
	}
	if r.P(0.5) {
		return pickOne(r, c14GoodNum)
	}
	return strconv.FormatFloat(r.R(-100, 100), pickOne(r, []byte{'g', 'e', 'E', 'f'}), r.IR(-1, 8), 64)
}

// c14VertexLine writes "vertex" with k numbers.
func c14VertexLine(sb *strings.Builder, r *Rng, k int, bad float64, fancy bool) {
	sp := func() string {
		if fancy {
			return pickOne(r, c14Spaces)
		}
		return " "
	}
	if r.P(0.7) {
		sb.WriteString(sp())
	}
	sb.WriteString("vertex")
	for j := 0; j < k; j++ {
		sb.WriteString(sp())
		sb.WriteString(c14Num(r, bad))
	}
}

// c14Ascii builds an ASCII STL whose facets have the given numbers of vertex lines.
func c14Ascii(r *Rng, perFacet []int, numsPerVertex func() int, bad float64, fancy bool, eols []string, pad bool) []byte {
	var sb strings.Builder
	eol := func() string { return pickOne(r, eols) }
	if fancy && r.P(0.15) {
		sb.WriteString("\xef\xbb\xbf")
	}
	sb.WriteString("solid v" + eol())
	for _, k := range perFacet {
		sb.WriteString("facet normal " + c14Num(r, bad) + " " + c14Num(r, bad) + " " + c14Num(r, bad) + eol())
		sb.WriteString(" outer loop" + eol())
		for j := 0; j < k; j++ {
			c14VertexLine(&sb, r, numsPerVertex(), bad, fancy)
			sb.WriteString(eol())
		}
		if fancy && r.P(0.1) {
			sb.WriteString(pickOne(r, c14Words) + " " + pickOne(r, c14NumTokens) + eol())
		}
		sb.WriteString(" endloop" + eol() + "endfacet" + eol())
	}
	sb.WriteString("endsolid v" + eol())
	if pad {
		for sb.Len() < 84+r.I(8) {
			sb.WriteString(pickOne(r, []string{" ", "\n", "#", "\x00", "\r\n"}))
		}
	}
	return []byte(sb.String())
}

func c14Three() int { return 3 }

// c14LongLine returns a line body of n bytes of the given flavour (no newline).
func c14LongLine(r *Rng, n int, flavour int) []byte {
	b := make([]byte, n)
	switch flavour {
	case 0:
		for i := range b {
			b[i] = 'x'
		}
	case 1: // many tiny fields
		for i := range b {
			b[i] = "1 "[i&1]
		}
	case 2: // a vertex line with a huge number token
		for i := range b {
			b[i] = '1'
		}
		copy(b, "vertex 1 2 ")
	default: // vertex followed by too many numbers
		for i := range b {
			b[i] = "3 "[i&1]
		}
		copy(b, "vertex 1 2 ")
	}
	return b
}

//-----------------------------------------------------------------------------
// shipped files

var c14Shipped [][]byte // monkey (binary, small), bottle (ascii), teapot (binary)

func c14LoadShipped() error {
	if c14Shipped != nil {
		return nil
	}
	for _, n := range []string{"monkey.stl", "bottle.stl", "teapot.stl"} {
		b, err := os.ReadFile("/repo/files/" + n)
		if err != nil {
			return err
		}
		c14Shipped = append(c14Shipped, b)
	}
	return nil
}

// c14Base picks a shipped file or a valid cropped version of it (cheap to load).
func c14Base(r *Rng) (int, []byte) {
	w := r.I(100)
	which := 0
	switch {
	case w < 55:
		which = 0
	case w < 80:
		which = 1
	default:
		which = 2
	}
	src := c14Shipped[which]
	full := r.P(0.12)
	if which == 0 && r.P(0.5) {
		full = true
	}
	if full {
		return which, append([]byte(nil), src...)
	}
	if which == 1 { // ascii: cut after a whole number of facets (7 lines per facet after the first line)
		lines := bytes.SplitAfter(src, []byte("\n"))
		nf := r.IR(1, 40)
		if 1+7*nf < len(lines) {
			out := bytes.Join(lines[:1+7*nf], nil)
			return which, append(out, []byte("endsolid\n")...)
		}
		return which, append([]byte(nil), src...)
	}
	n := r.IR(1, 60)
	out := append([]byte(nil), src[:84+50*n]...)
	binary.LittleEndian.PutUint32(out[80:], uint32(n))
	return which, out
}

// c14Boundary returns a random field boundary offset of a binary STL of the given length.
func c14Boundary(r *Rng, n int) int {
	if n <= 84 || r.P(0.1) {
		return minInt(n, pickOne(r, []int{0, 1, 79, 80, 81, 83, 84}))
	}
	rec := r.I((n-84)/50 + 1)
	off := 84 + 50*rec + pickOne(r, []int{0, 4, 12, 24, 36, 48, 49, 50})
	if off > n {
		off = n
	}
	return off
}

func c14Mutate(r *Rng, which int, b []byte) []byte {
	nops := 1
	if r.P(0.3) {
		nops = r.IR(2, 4)
	}
	for k := 0; k < nops && len(b) > 0; k++ {
		switch r.I(9) {
		case 0: // byte flips
			for j := r.IR(1, 8); j > 0; j-- {
				b[r.I(len(b))] = byte(r.U64())
			}
		case 1: // bit flips
			for j := r.IR(1, 8); j > 0; j-- {
				b[r.I(len(b))] ^= 1 << uint(r.I(8))
			}
		case 2: // flips concentrated in the header count / first lines
			for j := r.IR(1, 3); j > 0; j-- {
				b[r.I(minInt(len(b), 90))] ^= 1 << uint(r.I(8))
			}
		case 3: // truncate anywhere
			b = b[:r.I(len(b)+1)]
		case 4: // truncate at a field boundary (binary) or line boundary (ascii)
			if which == 1 {
				if k := bytes.LastIndexByte(b[:r.I(len(b))+1], '\n'); k >= 0 {
					b = b[:k+r.I(2)]
				}
			} else {
				b = b[:c14Boundary(r, len(b))]
			}
		case 5: // splice: overwrite/insert a chunk of another shipped file
			src := c14Shipped[r.I(3)]
			ln := r.IR(1, 4000)
			so := r.I(len(src))
			if so+ln > len(src) {
				ln = len(src) - so
			}
			chunk := src[so : so+ln]
			at := r.I(len(b) + 1)
			if r.Bool() {
				b = append(b[:at:at], append(append([]byte(nil), chunk...), b[at:]...)...)
			} else {
				copy(b[at:], chunk)
			}
		case 6: // extend
			ext := make([]byte, pickOne(r, []int{1, 2, 49, 50, 51, 84, 100}))
			for i := range ext {
				ext[i] = byte(r.U64()) * byte(r.I(2))
			}
			b = append(b, ext...)
		case 7: // rewrite the count field
			if len(b) >= 84 {
				cnt := binary.LittleEndian.Uint32(b[80:])
				nc := pickOne(r, c14BadCounts)
				if r.Bool() {
					nc = cnt + uint32(r.IR(-3, 3))
				}
				binary.LittleEndian.PutUint32(b[80:], nc)
			}
		default: // text-level damage: delete or duplicate one line
			ls := bytes.SplitAfter(b, []byte("\n"))
			if len(ls) > 2 {
				i := r.I(len(ls))
				if r.Bool() {
					ls = append(ls[:i:i], ls[i+1:]...)
				} else {
					ls = append(ls[:i:i], append([][]byte{ls[i]}, ls[i:]...)...)
				}
				b = bytes.Join(ls, nil)
			}
		}
	}
	return b
}

func minInt(a, b int) int {
	if a < b {
		return a
	}
	return b
}

//-----------------------------------------------------------------------------
// systematic (enumerated) inputs: the same list for every seed

type c14Input struct {
	Family string
	Data   []byte
}

var c14Sys []c14Input

func c14BuildSystematic() {
	if c14Sys != nil {
		return
	}
	add := func(f string, d []byte) { c14Sys = append(c14Sys, c14Input{f, d}) }
	r := newRng(12345, "C14", "systematic") // fixed: the systematic list does not depend on VERIF_SEED
	pad := func(s string) []byte {
		for len(s) < 84 {
			s += " "
		}
		return []byte(s)
	}
	// minimal witnesses: k vertex lines in one facet, padded to the 84 byte header size
	for k := 0; k <= 7; k++ {
		add("sys-ascii-k-vertices", pad(strings.Repeat("vertex 0 0 0\n", k)))
		add("sys-ascii-k-vertices", pad("solid a\nfacet normal 0 0 1\nouter loop\n"+strings.Repeat("vertex 1 2 3\n", k)+"endloop\nendfacet\nendsolid a\n"))
	}
	// big ASCII files (tens of thousands of lines: readers that work in blocks / pipelines) with one malformed number early,
	// in the middle or at the end, plus a well-formed control
	for _, badAt := range []int{-1, 0, 1000, 3000, 4999} {
		var sb strings.Builder
		sb.WriteString("solid big\n")
		for f := 0; f < 5000; f++ {
			sb.WriteString("facet normal 0 0 1\nouter loop\n")
			for v := 0; v < 3; v++ {
				if f == badAt && v == 1 {
					sb.WriteString("vertex 1.0 2.0x 3.0\n")
				} else {
					fmt.Fprintf(&sb, "vertex %d %d %d\n", f, v, f%7)
				}
			}
			sb.WriteString("endloop\nendfacet\n")
		}
		sb.WriteString("endsolid big\n")
		add("sys-ascii-big-bad-number", []byte(sb.String()))
	}
	// consistent binary files (size = 84 + 50 * count) whose 80 header bytes are unusual: blank in several ways, starting with
	// "solid", all high bytes, a complete ASCII first line
	for _, hdr := range [][]byte{bytes.Repeat([]byte(" "), 80), append(bytes.Repeat([]byte(" "), 79), '\n'), bytes.Repeat([]byte("\t"), 80), bytes.Repeat([]byte("\n"), 80),
		bytes.Repeat([]byte("\r\n"), 40), append([]byte("solid"), bytes.Repeat([]byte(" "), 75)...), append([]byte("solid binary\n"), bytes.Repeat([]byte{0}, 67)...),
		bytes.Repeat([]byte{0xff}, 80), bytes.Repeat([]byte{0}, 80), append([]byte(" solid x\nfacet normal 0 0 1\n"), bytes.Repeat([]byte(" "), 52)...)} {
		for _, n := range []int{0, 1, 3} {
			b := make([]byte, 84+50*n)
			copy(b, hdr[:80])
			binary.LittleEndian.PutUint32(b[80:], uint32(n))
			for i := 84; i < len(b)-2; i += 4 {
				binary.LittleEndian.PutUint32(b[i:], math.Float32bits(float32(i%17)-3))
			}
			add("sys-bin-unusual-header", b)
		}
	}
	// valid binary files whose record count exactly fills k blocks of 2^j bytes (floor(2^j/50) records), and their neighbours
	for _, n := range []int{81, 163, 164, 327, 655, 1309, 1310, 1311, 2620, 3930} {
		b := make([]byte, 84+50*n)
		binary.LittleEndian.PutUint32(b[80:], uint32(n))
		for i := 0; i < n; i++ {
			for v := 0; v < 3; v++ {
				binary.LittleEndian.PutUint32(b[84+50*i+12+12*v:], math.Float32bits(float32(i+v)))
				binary.LittleEndian.PutUint32(b[84+50*i+12+12*v+4:], math.Float32bits(float32(v*v)))
				binary.LittleEndian.PutUint32(b[84+50*i+12+12*v+8:], math.Float32bits(float32(i%7)))
			}
		}
		add("sys-bin-block-aligned-count", b)
	}
	// files that announce a container or a text encoding in their first bytes (what a loader that sniffs formats would act
	// on): compressed wrappers with honest, lying and truncated length fields and highly compressible payloads; byte order
	// marks followed by complete, truncated and ill-formed UTF-16 / UTF-32 text
	{
		bin := func(n int, fill byte) []byte {
			b := make([]byte, 84+50*n)
			binary.LittleEndian.PutUint32(b[80:], uint32(n))
			for i := 84; i < len(b); i++ {
				b[i] = fill
			}
			return b
		}
		asc := "solid a\nfacet normal 0 0 1\nouter loop\nvertex 0 0 0\nvertex 1 0 0\nvertex 0 1 0\nendloop\nendfacet\nendsolid a\n"
		gz := func(payload []byte) []byte {
			var zb bytes.Buffer
			zw, _ := gzip.NewWriterLevel(&zb, gzip.BestCompression)
			zw.Write(payload)
			zw.Close()
			return zb.Bytes()
		}
		g1 := gz(bin(3, 0))
		add("sys-gzip", g1)
		add("sys-gzip", gz([]byte(asc)))
		add("sys-gzip", g1[:len(g1)/2])                       // truncated stream
		add("sys-gzip", gz(bin(200000, 0)))                   // 10 MB of zeros in ~10 KB
		add("sys-gzip", gz(bytes.Repeat([]byte(asc), 40000))) // 4 MB of text in a few KB
		lie := append([]byte{}, g1...)                        // honest stream, length field (last 4 bytes) claims 512 MiB
		binary.LittleEndian.PutUint32(lie[len(lie)-4:], 512<<20)
		add("sys-gzip", lie)
		hdr := []byte{0x1f, 0x8b, 8, 0, 0, 0, 0, 0, 0, 3} // bare header + CRC + huge length
		add("sys-gzip", append(append(append([]byte{}, hdr...), 3, 0, 0, 0, 0, 0), 0, 0, 0, 0x20))
		add("sys-gzip", append(append([]byte{}, hdr...), 0xff, 0xff, 0xff, 0x7f))
		for _, magic := range [][]byte{[]byte("PK\x03\x04"), []byte("BZh9"), {0xfd, '7', 'z', 'X', 'Z', 0}, {0x28, 0xb5, 0x2f, 0xfd}, []byte("7z\xbc\xaf\x27\x1c")} {
			add("sys-container-magic", append(append([]byte{}, magic...), bin(2, 0x41)...))
			add("sys-container-magic", append(append([]byte{}, magic...), 0xff, 0xff, 0xff, 0xff, 0xff, 0xff, 0xff, 0x7f))
		}
		put16 := func(order binary.ByteOrder, x uint16) []byte {
			b := make([]byte, 2)
			order.PutUint16(b, x)
			return b
		}
		u16 := func(s string, order binary.ByteOrder) []byte {
			var out []byte
			for _, ru := range utf16.Encode([]rune(s)) {
				out = append(out, put16(order, ru)...)
			}
			return out
		}
		le, be := []byte{0xff, 0xfe}, []byte{0xfe, 0xff}
		for _, v := range []struct {
			bom   []byte
			order binary.ByteOrder
		}{{le, binary.LittleEndian}, {be, binary.BigEndian}} {
			full := append(append([]byte{}, v.bom...), u16(asc, v.order)...)
			add("sys-bom-utf16", full)
			add("sys-bom-utf16", full[:len(full)-1])                                           // cut inside a code unit
			add("sys-bom-utf16", append(append([]byte{}, full...), put16(v.order, 0xd83d)...)) // ends with a lone high surrogate
			add("sys-bom-utf16", append(append([]byte{}, v.bom...), put16(v.order, 0xd800)...))
			add("sys-bom-utf16", append(append([]byte{}, v.bom...), put16(v.order, 0xdc00)...)) // lone low surrogate
			emoji := append(append([]byte{}, v.bom...), u16("solid \U0001F600\n"+asc[8:], v.order)...)
			add("sys-bom-utf16", emoji)
			add("sys-bom-utf16", emoji[:2+2*7]) // cut between the two halves of a surrogate pair
			add("sys-bom-utf16", append([]byte{}, v.bom...))
		}
		add("sys-bom-utf8", append([]byte{0xef, 0xbb, 0xbf}, asc...))
		add("sys-bom-utf8", append([]byte{0xef, 0xbb, 0xbf}, bin(1, 7)...))
		add("sys-bom-utf32", append([]byte{0xff, 0xfe, 0, 0}, []byte("s\x00\x00\x00o\x00\x00\x00l\x00\x00\x00")...))
		add("sys-bom-utf32", append([]byte{0, 0, 0xfe, 0xff}, 0, 0, 0xd8))
	}
	// files shorter than the header
	for n := 0; n < 84; n++ {
		z := make([]byte, n)
		add("sys-short", z)
		t := []byte(strings.Repeat("vertex 1 2 3\n", 7))[:n]
		add("sys-short", t)
		g := make([]byte, n)
		for i := range g {
			g[i] = byte(r.U64())
		}
		add("sys-short", g)
	}
	// binary: every truncation point / over-long / count disagreements for n = 0..3 triangles
	for n := 0; n <= 3; n++ {
		full := c14Bin(r, n, uint32(n), false)
		for cut := 0; cut <= len(full); cut++ {
			if cut < 84 && cut%4 != 0 && cut != 81 && cut != 83 {
				continue
			}
			add("sys-bin-truncated", append([]byte(nil), full[:cut]...))
		}
		for _, ext := range []int{1, 2, 49, 50, 51, 84, 100} {
			add("sys-bin-overlong", append(append([]byte(nil), full...), make([]byte, ext)...))
		}
		for _, cnt := range c14BadCounts {
			b := append([]byte(nil), full...)
			binary.LittleEndian.PutUint32(b[80:], cnt)
			add("sys-bin-count-mismatch", b)
		}
		for _, cnt := range []int{n - 1, n + 1, n + 2} {
			if cnt >= 0 {
				b := append([]byte(nil), full...)
				binary.LittleEndian.PutUint32(b[80:], uint32(cnt))
				add("sys-bin-count-mismatch", b)
			}
		}
	}
	// counts for which 50*count+84 wraps around 2^32 to a tiny size (and the sizes they wrap to)
	for _, cw := range [][2]uint32{{85899346, 88}, {171798692, 92}, {85899345, 38}, {0xFFFFFFFF, 34}, {85899347, 138}} {
		for _, sz := range []int{int(cw[1]), 84, 134} {
			if sz >= 84 {
				b := make([]byte, sz)
				binary.LittleEndian.PutUint32(b[80:], cw[0])
				add("sys-bin-count-wraps-32bit", b)
			}
		}
	}
	// exact size, special float payloads
	for _, bits := range c14FloatBits {
		b := make([]byte, 84+50*2)
		binary.LittleEndian.PutUint32(b[80:], 2)
		for i := 84; i+4 <= len(b); i += 4 {
			binary.LittleEndian.PutUint32(b[i:], bits)
		}
		add("sys-bin-exact-special-floats", b)
	}
	// ascii: malformed numbers in every position, 2 and 4 numbers per vertex
	for _, tok := range c14NumTokens {
		for pos := 0; pos < 3; pos++ {
			nums := []string{"1", "2", "3"}
			nums[pos] = tok
			s := "solid a\nfacet normal 0 0 1\nouter loop\nvertex 0 0 0\nvertex 1 0 0\nvertex " + strings.Join(nums, " ") + "\nendloop\nendfacet\nendsolid a\n"
			add("sys-ascii-number-token", pad(s))
		}
	}
	for _, k := range []int{0, 1, 2, 4, 5, 9} {
		for pos := 0; pos < 3; pos++ {
			var sb strings.Builder
			sb.WriteString("solid a\nfacet normal 0 0 1\nouter loop\n")
			for j := 0; j < 3; j++ {
				kk := 3
				if j == pos {
					kk = k
				}
				sb.WriteString("vertex" + strings.Repeat(" 1", kk) + "\n")
			}
			sb.WriteString("endloop\nendfacet\nendsolid a\n")
			add("sys-ascii-numbers-per-vertex", pad(sb.String()))
		}
	}
	// line endings, NULs, BOM, unicode spaces
	body := []string{"solid a", "facet normal 0 0 1", "outer loop", "vertex 0 0 0", "vertex 1 0 0", "vertex 0 1 0", "endloop", "endfacet", "endsolid a", strings.Repeat(" ", 40)}
	for _, e := range c14EOL {
		add("sys-ascii-eol", []byte(strings.Join(body, e)+e))
		add("sys-ascii-eol", []byte(strings.Join(body[:5], e)+e+strings.Repeat(" ", 60))) // 2 vertices
	}
	for _, sp := range c14Spaces {
		add("sys-ascii-space", pad(strings.ReplaceAll(strings.Join(body, "\n"), " ", sp)))
	}
	add("sys-ascii-bom", pad("\xef\xbb\xbf"+strings.Join(body, "\n")))
	add("sys-ascii-bom", pad("\xef\xbb\xbfvertex 1 2 3\nvertex 1 2 3\nvertex 1 2 3\n"))
	add("sys-ascii-nul", pad(strings.ReplaceAll(strings.Join(body, "\n"), " ", "\x00")))
	add("sys-ascii-nul", pad("vertex 1 2 3\x00\nvertex\x00 1 2 3\nvertex 1 2 3\n"))
	add("sys-ascii-nul", pad("vertex 1 2 3\n\x00\x00\x00vertex 1 2 3\n"))
	// long lines around the scanner limit, 70 kB and 1 MB; before / after / between vertex lines
	for _, n := range []int{4095, 4096, 4097, 65534, 65535, 65536, 65537, 70000, 1 << 20} {
		for fl := 0; fl < 4; fl++ {
			ll := c14LongLine(r, n, fl)
			add("sys-ascii-longline", append(append([]byte("vertex 1 2 3\nvertex 4 5 6\nvertex 7 8 9\n"), ll...), '\n'))
			add("sys-ascii-longline", append(append([]byte("vertex 1 2 3\n"), ll...), []byte("\nvertex 4 5 6\nvertex 7 8 9\n")...))
			if fl < 2 {
				add("sys-ascii-longline", ll) // no newline at all
			}
		}
	}
	// shipped files: untouched, truncated at many offsets, count rewritten
	for which, src := range c14Shipped {
		add("sys-shipped-intact", src)
		small := src
		if which != 1 && len(src) > 84+50*20 {
			small = append([]byte(nil), src[:84+50*20]...)
			binary.LittleEndian.PutUint32(small[80:], 20)
			add("sys-shipped-intact", small)
		} else if which == 1 {
			small = src[:bytes.Index(src[3000:], []byte("\n"))+3001]
		}
		for j := 0; j < 60; j++ {
			add("sys-shipped-truncated", append([]byte(nil), small[:len(small)*j/60]...))
		}
		for _, cnt := range c14BadCounts {
			b := append([]byte(nil), small...)
			binary.LittleEndian.PutUint32(b[80:], cnt)
			add("sys-shipped-count", b)
		}
	}
}

//-----------------------------------------------------------------------------
// the input list: index -> (family, bytes)

func c14Gen(seed uint64, i int) c14Input {
	if i < len(c14Sys) {
		return c14Sys[i]
	}
	r := newRng(seed, "C14", "in", i)
	w := r.I(100)
	switch {
	case w < 14: // structured binary, then one inconsistency
		n := r.IR(0, 40)
		if r.P(0.1) {
			n = r.IR(0, 3)
		}
		b := c14Bin(r, n, uint32(n), false)
		switch r.I(6) {
		case 0:
			return c14Input{"bin-valid-special-floats", b}
		case 1:
			return c14Input{"bin-truncated", b[:c14Boundary(r, len(b))]}
		case 2:
			return c14Input{"bin-truncated", b[:r.I(len(b)+1)]}
		case 3:
			ext := make([]byte, pickOne(r, []int{1, 2, 49, 50, 51, 100}))
			return c14Input{"bin-overlong", append(b, ext...)}
		case 4:
			binary.LittleEndian.PutUint32(b[80:], pickOne(r, c14BadCounts))
			return c14Input{"bin-count-mismatch", b}
		default:
			binary.LittleEndian.PutUint32(b[80:], uint32(maxInt(0, n+r.IR(-3, 3))))
			return c14Input{"bin-count-mismatch", b}
		}
	case w < 22: // exact size, garbage payload
		n := r.IR(0, 30)
		return c14Input{"bin-exact-garbage", c14Bin(r, n, uint32(n), true)}
	case w < 50: // structured ascii
		nf := r.IR(1, 8)
		per := make([]int, nf)
		mode := r.I(4)
		for j := range per {
			switch mode {
			case 0:
				per[j] = 3
			case 1:
				per[j] = pickOne(r, []int{0, 1, 2, 4, 5})
			default:
				per[j] = pickOne(r, []int{3, 3, 3, 0, 1, 2, 4, 5, 6})
			}
		}
		bad := pickOne(r, []float64{0, 0, 0.05, 0.3})
		nums := c14Three
		fam := "ascii-facets"
		if r.P(0.25) {
			nums = func() int { return pickOne(r, []int{3, 3, 3, 3, 2, 4, 0, 1}) }
			fam = "ascii-numbers-per-vertex"
		}
		if bad > 0 {
			fam = "ascii-malformed-numbers"
		}
		eols := []string{"\n"}
		fancy := r.P(0.4)
		if fancy {
			eols = c14EOL
			if r.Bool() {
				eols = []string{pickOne(r, c14EOL)}
			}
		}
		return c14Input{fam, c14Ascii(r, per, nums, bad, fancy, eols, r.P(0.9))}
	case w < 60: // token soup
		var sb strings.Builder
		for n := r.IR(5, 120); n > 0; n-- {
			switch r.I(6) {
			case 0, 1:
				sb.WriteString("vertex")
			case 2:
				sb.WriteString(pickOne(r, c14Words))
			default:
				sb.WriteString(c14Num(r, 0.15))
			}
			if r.P(0.25) {
				sb.WriteString(pickOne(r, c14EOL))
			} else {
				sb.WriteString(pickOne(r, c14Spaces[:4]))
			}
		}
		return c14Input{"ascii-token-soup", []byte(sb.String())}
	case w < 61: // long lines (1 MB ones are rare: they cost a millisecond each)
		n := pickOne(r, []int{65000 + r.I(1100), 65535, 65536, 70000, 100000})
		if r.P(0.04) {
			n = 1 << 20
		}
		ll := c14LongLine(r, n, r.I(4))
		pre := c14Ascii(r, []int{pickOne(r, []int{3, 3, 1, 2})}, c14Three, 0, false, []string{"\n"}, false)
		if r.Bool() {
			return c14Input{"ascii-longline", append(append(pre, ll...), '\n')}
		}
		return c14Input{"ascii-longline", append(append(ll, '\n'), pre...)}
	case w < 68: // shorter than the header
		n := r.I(84)
		b := make([]byte, n)
		if r.Bool() {
			copy(b, strings.Repeat("vertex 1 2 3\n", 7))
		} else {
			for i := range b {
				b[i] = byte(r.U64())
			}
		}
		return c14Input{"short", b}
	case w < 78: // random bytes around the interesting sizes
		n := pickOne(r, []int{84, 134, 184, 234}) + r.IR(-3, 3)
		if r.P(0.3) {
			n = r.I(400)
		}
		b := make([]byte, n)
		for i := range b {
			b[i] = byte(r.U64())
		}
		fam := "random-bytes"
		if n >= 84 && r.P(0.5) {
			fam = "random-bytes-count-fixed"
			binary.LittleEndian.PutUint32(b[80:], uint32((n-84)/50))
		}
		return c14Input{fam, b}
	default: // shipped files, mutated
		which, b := c14Base(r)
		return c14Input{"shipped-" + []string{"monkey", "bottle", "teapot"}[which] + "-mutated", c14Mutate(r, which, b)}
	}
}

func maxInt(a, b int) int {
	if a > b {
		return a
	}
	return b
}

// c14Valid builds calibration files with known structure: kind 0 binary, 1 ascii; n triangles.
func c14Valid(kind, n int) []byte {
	if kind == 0 {
		b := make([]byte, 84+50*n)
		binary.LittleEndian.PutUint32(b[80:], uint32(n))
		for i := 0; i < n; i++ {
			for j := 0; j < 12; j++ {
				binary.LittleEndian.PutUint32(b[84+50*i+4*j:], math.Float32bits(float32(i+j)))
			}
		}
		return b
	}
	var sb strings.Builder
	sb.WriteString("solid calibration\n")
	for i := 0; i < n; i++ {
		sb.WriteString("facet normal 0 0 1\nouter loop\n")
		for j := 0; j < 3; j++ {
			fmt.Fprintf(&sb, "vertex %d %d %d\n", i, j, i+j)
		}
		sb.WriteString("endloop\nendfacet\n")
	}
	sb.WriteString("endsolid calibration\n")
	for sb.Len() < 90 {
		sb.WriteString(" ")
	}
	return []byte(sb.String())
}
